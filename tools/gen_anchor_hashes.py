#!/usr/bin/env python3
"""Records the content hash of every source file anchoring a property (properties.jsonl) at the /repo version the
Lean models were last reviewed against. Each check reports in its evidence which anchored files differ from this
baseline (information for the reader: the correspondence, not this hash, decides)."""
import hashlib, json, os
from pathlib import Path
ROOT = Path(__file__).resolve().parent.parent
REPO = Path(os.environ.get("LEASPY_REPO", "/repo"))
out = {}
for l in (ROOT / "properties.jsonl").read_text().splitlines():
    if l.strip():
        for f in json.loads(l)["anchors"]["files"]:
            fp = REPO / f
            out[f] = hashlib.sha256(fp.read_bytes()).hexdigest()[:16] if fp.exists() else "missing"
(ROOT / "tools" / "anchor_hashes.json").write_text(json.dumps(out, indent=1, sort_keys=True) + "\n")
print(len(out), "files;", sum(v == "missing" for v in out.values()), "missing")
