#!/bin/bash
# tools/run_all.sh [tier] [seed]   — runs every registered check once; prints one line per property
cd "$(dirname "$0")/.."
tier=${1:-quick}; seed=${2:-1}
for i in $(seq -w 1 20); do
  p=C$i
  s=$(date +%s)
  out=$(VERIF_SEED=$seed timeout 3600 ./check $p --tier $tier 2>&1); rc=$?
  e=$(( $(date +%s) - s ))
  echo "$p rc=$rc ${e}s :: $(echo "$out" | grep -E 'VIOLATION|KNOWN-FINDING|INFRA|^OK' | tr '\n' ' ' | cut -c1-300)"
done
