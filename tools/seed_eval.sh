#!/bin/bash
# tools/seed_eval.sh <ID> <dir with patch.diff demo.py meta.json>  — confirm a seeded change and run the property's check on it
# (scratch worktree under /tmp/sv-<ID>, removed afterwards). Prints one summary line; details in /tmp/sv/<ID>.*
id=$1; src=$2; prop=${3:-$(echo $id | cut -c1-3)}
wt=/tmp/sv-$id
mkdir -p /tmp/sv
# the patch is applied to the current HEAD of /repo; a seeded change written against an earlier state of the fix history that no
# longer applies there is applied to the commit it was written against instead (the check still runs against that whole tree)
applied=""
# patch_rebased.diff = the same change carried over by hand to the current fix history (when a later `fix:` commit touches its lines)
for cand in "HEAD patch.diff" "HEAD patch_rebased.diff" "c3ce33c patch.diff" "d664c36 patch.diff"; do
  set -- $cand; base=$1; pf=$2
  [ -f $src/$pf ] || continue
  git -C /repo worktree remove --force $wt >/dev/null 2>&1
  git -C /repo worktree add --detach $wt $base >/dev/null 2>&1 || continue
  if git -C $wt apply $src/$pf 2>/tmp/sv/$id.apply; then applied="$base/$pf"; break; fi
done
if [ -z "$applied" ]; then echo "$id patch-does-not-apply"; git -C /repo worktree remove --force $wt >/dev/null 2>&1; exit 2; fi
export OMP_NUM_THREADS=2 MKL_NUM_THREADS=2 MPLBACKEND=Agg
export VERIF_EVIDENCE_DIR=/tmp/sv/evidence VERIF_REPLAY_DIR=/tmp/sv/replays   # never touch the committed evidence
mkdir -p /tmp/sv/evidence /tmp/sv/replays
LEASPY_SRC=/repo/src /venv/bin/python $src/demo.py > /tmp/sv/$id.demo0 2>&1; d0=$?
LEASPY_SRC=$wt/src /venv/bin/python $src/demo.py > /tmp/sv/$id.demo1 2>&1; d1=$?
if [ "$SKIP_PYTEST" != "1" ]; then
  (cd $wt && PYTHONPATH=$wt/src /venv/bin/python -m pytest -q -p no:cacheprovider --timeout=1800 > /tmp/sv/$id.pytest 2>&1); pt=$(tail -1 /tmp/sv/$id.pytest | cut -c1-40)
else pt="(skipped)"; fi
res=""
for s in 1 2 3; do
  out=$(cd /verif && VERIF_SEED=$s LEASPY_REPO=$wt timeout 1800 ./check $prop --tier quick 2>&1); rc=$?
  res="$res seed$s:rc=$rc$(echo "$out" | grep -q no-failing-input-found && echo '(nfi)')"
  if [ $s = 1 ]; then echo "$out" | tail -5 > /tmp/sv/$id.check; fi
done
echo "$id base=$applied prop=$prop demo_unchanged=$d0 demo_changed=$d1 pytest='$pt' check:$res"
git -C /repo worktree remove --force $wt
