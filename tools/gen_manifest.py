#!/usr/bin/env python3
"""Regenerates MANIFEST.json from tools/manifest_table.json (one entry per property claimed) —
keeps the file valid at all times; properties without an entry are listed under not_applicable
with the reason recorded in the table (or 'check not built yet')."""
import json
from pathlib import Path
ROOT = Path(__file__).resolve().parent.parent
table = json.loads((ROOT / "tools" / "manifest_table.json").read_text())
md = ROOT / "tools" / "manifest.d"
if md.is_dir():
    for f in sorted(md.glob("C*.json")):
        if f.stem in table.get("enabled", []):   # only properties reviewed and enabled by the integrator
            table["checks"][f.stem] = json.loads(f.read_text())
props = [json.loads(l) for l in (ROOT / "properties.jsonl").read_text().splitlines() if l.strip()]
BASE = ("cd /repo && /venv/bin/python -m pytest -ra -q -p no:cacheprovider --timeout=900 "
        "--continue-on-collection-errors")
man = {
    "version": 1,
    "setup_cmd": "cd lean && lake build 2>&1 | tail -n 5 && cd .. && ./check --selftest",
    "hooks": {
        "guard": "LEASPY_VERIF",
        "enable": "no hooks: every observation point is reachable from python (call-through wrappers, subclasses); LEASPY_VERIF is unused by /repo",
        "baseline_off_cmd": BASE,
        "source_commits": [],
        "add_only": True,
    },
    "engines": [{
        "name": "lean-model+correspondence",
        "path": "lean/ + harness/",
        "serves_properties": sorted(table["checks"].keys()),
        "kind_free_text": "Lean 4 models and theorems (lake build, #print axioms audit) tied to /repo by a differential line-protocol correspondence harness and, for C06 / C07 / C11 / C13, by models regenerated from the running code on every run (recorded torch programs, random-draw programs and State-operation footprints translated to Lean IR and decided by proved analyses)",
    }],
    "checks": [],
    "notes": table.get("notes", ""),
    "not_applicable": [],
}
for p in props:
    pid = p["id"]
    c = table["checks"].get(pid)
    if c is None:
        man["not_applicable"].append({"property_id": pid, "reason": table.get("not_applicable", {}).get(pid, "check not built yet in this round (planned, see DESIGN.md section 5)")})
        continue
    man["checks"].append({
        "property_id": pid,
        "quick_cmd": f"./check {pid} --tier quick",
        "thorough_cmd": f"./check {pid} --tier thorough",
        "evidence_file": f"evidence/{pid}.json",
        "replay_cmd_template": f"./check {pid} --replay {{path}}",
        "engine": "lean-model+correspondence",
        "level_claimed": {"category": "proof", "text": c["text"], "design_ref": c.get("design_ref", f"DESIGN.md section 5 {pid}")},
        "level_note": c["note"],
        "technique": c["technique"],
    })
(ROOT / "MANIFEST.json").write_text(json.dumps(man, indent=1) + "\n")
try:
    import jsonschema
    jsonschema.validate(man, json.loads(Path("/root/.vp/MANIFEST.schema.json").read_text()))
    print("MANIFEST.json valid;", len(man["checks"]), "checks,", len(man["not_applicable"]), "not_applicable")
except ImportError:
    print("written (jsonschema not available)")
