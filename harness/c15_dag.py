"""C15 — dependency-graph construction is exact.

Correspondence: the real `leaspy.variables.dag.VariablesDAG` against `Model/Dag.lean` (drivers/C15.lean)
on (i) every digraph on <=3 (quick) / <=4 (thorough) labelled nodes incl. self-loops, (ii) references to
unknown nodes, (iii) random graphs up to 20 nodes under random renamings, (iv) the graphs of every
shipped model kind.  The property predicate (topological order, exact closures in order, refusal iff
cyclic / self-referential / unknown / isolated, determinism) is evaluated on the implementation with an
independent reachability computation.

Hardening (after six rounds of seeded changes): every read view of the constructed graph (iteration, len, item access, direct
children, per-type views, individual variable names), every public entry point (constructor, `from_dict` with real
variable specifications, the two static methods with the path matrix, `dataclasses.replace`, copy / deepcopy / pickle, the
graph of loaded models, `NamedVariables` collections assembled in several ways), every mapping type for the two arguments
with different key orders, inconsistent key sets, name classes on which sort keys differ (numeric suffixes, prefixes, case,
non-ASCII, blanks, the empty name, long common prefixes) with a renaming-invariance predicate, and graph shapes / sizes
beyond the random family (complete DAGs, stars, layers, trees, ladders, many components, 64..150 nodes).
"""
from __future__ import annotations

import collections
import copy
import dataclasses
import itertools
import json
import pickle
import types
import warnings
import zlib

from . import core
from .core import fmt_list, split_ne

PROP = "C15"
LEAN = dict(
    props="LeaspyVerif.Props.C15",
    driver="drivers/C15.lean",
    harness="c15_dag.py",
    extra_modules=["LeaspyVerif.Model.Dag", "LeaspyVerif.Model.Specs"],
    theorems=["order_topological", "order_perm_nodes", "children_exact", "ancestors_exact",
              "children_in_order", "ancestors_in_order", "accepts_iff", "refused_input_iff", "refused_value_iff",
              "loop_terminates", "deterministic",
              "order_nodup", "children_ancestors_nodup", "children_ancestors_dual", "not_self_dependent",
              "children_transitive", "direct_dependency_reported", "children_after_ancestors_before",
              "first_is_root_last_is_leaf", "children_ancestors_unique",
              "collection_keys_unique", "collection_refused_name_no_effect", "collection_definitions_never_rewritten",
              "collection_sum_exact", "collection_registers_ind", "collection_ind_chain", "collection_later_ind_var_counted", "collection_graph_ind_feeds_sum"],
    trusted_extra=["python string ordering of node names = rank used by the model (graph cases: names are ranked by the harness with python's sorted(); "
                   "collection cases: names are ranked inside the model, Specs.rankedNames, and the resulting order is compared by name)"],
    assumptions=["direct ancestors are sets (frozenset in the code): the harness sends de-duplicated ancestor lists"],
)

MODEL_KINDS = [
    ("logistic", dict(dimension=3, source_dimension=2)),
    ("logistic", dict(dimension=1)),
    ("logistic", dict(dimension=3, source_dimension=2, obs_models="gaussian-scalar")),
    ("logistic", dict(dimension=2, source_dimension=1, obs_models="bernoulli")),
    ("linear", dict(dimension=2, source_dimension=1)),
    ("linear", dict(dimension=1)),
    ("shared_speed_logistic", dict(dimension=3, source_dimension=2)),
    ("joint", dict(dimension=2, source_dimension=1)),
    ("joint", dict(dimension=1)),
    ("mixture_logistic", dict(dimension=3, source_dimension=2, n_clusters=2)),
]
# further configurations (quick: a sample of four per run; thorough: all)
MORE_MODEL_KINDS = [
    ("logistic", dict(dimension=4, source_dimension=0)),
    ("logistic", dict(dimension=12, source_dimension=3)),
    ("logistic", dict(dimension=2, source_dimension=1, obs_models="gaussian-diagonal")),
    ("linear", dict(dimension=3, source_dimension=2, obs_models="gaussian-scalar")),
    ("linear", dict(dimension=2, source_dimension=1, obs_models="bernoulli")),
    ("linear", dict(dimension=4, source_dimension=0)),
    ("shared_speed_logistic", dict(dimension=2, source_dimension=1)),
    ("shared_speed_logistic", dict(dimension=4, source_dimension=0)),
    ("shared_speed_logistic", dict(dimension=3, source_dimension=2, obs_models="gaussian-scalar")),
    ("joint", dict(dimension=3, source_dimension=2)),
    ("joint", dict(dimension=2, source_dimension=1, obs_models=("gaussian-scalar", "weibull-right-censored"))),
    ("joint", dict(dimension=2, source_dimension=1, obs_models=("gaussian-diagonal", "weibull-right-censored-with-sources"))),
    ("joint", dict(dimension=2, source_dimension=1, nb_events=2)),
    ("mixture_logistic", dict(dimension=3, source_dimension=2, n_clusters=3)),
    ("mixture_logistic", dict(dimension=2, source_dimension=1, n_clusters=2)),
    ("mixture_logistic", dict(dimension=4, source_dimension=0, n_clusters=2)),
]


def _imports():
    warnings.filterwarnings("ignore")
    import leaspy.models  # noqa: F401
    from leaspy.exceptions import LeaspyInputError
    from leaspy.variables.dag import VariablesDAG
    return VariablesDAG, LeaspyInputError


class _V:  # stand-in variable spec (only its type is used by the DAG, for stratification)
    pass


class _W(_V):  # a subclass: the per-type views are keyed by the exact type
    pass


class _U:
    pass


def make_vars(names):
    """name -> stand-in specification; the kind is a stable function of the name (no generator draw): 4/8 `_V`, 2/8 its
    subclass `_W`, 1/8 `_U`, 1/8 a real (uninitialised) `IndividualLatentVariable`."""
    from leaspy.variables.specs import IndividualLatentVariable
    out = {}
    for n in names:
        k = zlib.crc32(n.encode("utf-8")) % 8
        out[n] = _V() if k < 4 else _W() if k < 6 else _U() if k == 6 else object.__new__(IndividualLatentVariable)
    return out


def run_impl(env, names, anc, insertion_order=None):
    """names: list of node names; anc: dict name -> set of names. Returns canonical outcome."""
    VariablesDAG, LIE = env
    order = insertion_order or names
    variables = make_vars(order)
    direct = {n: frozenset(anc[n]) for n in order}
    try:
        dag = VariablesDAG(variables, direct_ancestors=direct)
    except LIE:
        return ("err:input",)
    except ValueError:
        return ("err:value",)
    except Exception as e:  # noqa
        return (f"err:other:{type(e).__name__}",)
    try:
        return ("ok", tuple(dag.sorted_variables_names),
                {n: tuple(dag.sorted_children.get(n, ("<missing>",))) for n in names},
                {n: tuple(dag.sorted_ancestors.get(n, ("<missing>",))) for n in names})
    except Exception as e:  # noqa  (a constructed graph whose tables cannot even be read)
        return ("ok", tuple(getattr(dag, "sorted_variables_names", ())), {n: ("<unreadable>",) for n in names},
                {n: ("<unreadable>",) for n in names})


def definitions_untouched(env, names, anc, kind):
    """The construction is a function of the definitions and leaves them alone: dependency sets given as plain `set`s (or
    frozensets), read back afterwards, then used for a second construction.  Returns a list of failures."""
    VariablesDAG, LIE = env
    mk = {"set": set, "frozenset": frozenset, "mixed": None}[kind]
    variables = {n: _V() for n in names}
    direct = {n: (mk(anc[n]) if mk else (set(anc[n]) if i % 2 else frozenset(anc[n]))) for i, n in enumerate(names)}
    fails = []
    try:
        dag = VariablesDAG(variables, direct_ancestors=direct)
        first = (tuple(dag.sorted_variables_names), {n: tuple(dag.sorted_children[n]) for n in names},
                 {n: tuple(dag.sorted_ancestors[n]) for n in names})
    except Exception as e:  # noqa
        return [f"accepted definitions refused when the dependency sets are given as {kind}: {type(e).__name__}: {str(e)[:100]}"]
    changed = [n for n in names if set(direct[n]) != set(anc[n])]
    if changed:
        fails.append(f"the construction modified the caller's definitions (dependency sets given as {kind}): {changed[:4]}")
    try:
        wrong = [n for n in names if set(dag.direct_ancestors[n]) != set(anc[n])]
        if wrong:
            fails.append(f"the graph reports direct dependencies {dict((n, sorted(dag.direct_ancestors[n])) for n in wrong[:3])} "
                         f"for definitions {dict((n, sorted(anc[n])) for n in wrong[:3])} (sets given as {kind})")
    except Exception as e:  # noqa
        fails.append(f"direct dependencies of the constructed graph cannot be read: {type(e).__name__}")
    if not changed:
        try:
            dag2 = VariablesDAG({n: _V() for n in names}, direct_ancestors=direct)
            second = (tuple(dag2.sorted_variables_names), {n: tuple(dag2.sorted_children[n]) for n in names},
                      {n: tuple(dag2.sorted_ancestors[n]) for n in names})
            if second != first:
                fails.append(f"a second construction from the same definitions gives another graph (sets given as {kind})")
        except Exception as e:  # noqa
            fails.append(f"a second construction from the same definitions is refused: {type(e).__name__}: {str(e)[:100]}")
    return fails


# ----------------------------------------------------------------- hardening: views, entry points, containers
def tables(dag, names):
    return ("ok", tuple(dag.sorted_variables_names), {n: tuple(dag.sorted_children[n]) for n in names},
            {n: tuple(dag.sorted_ancestors[n]) for n in names})


AUTOMATIC = ("nll_regul_ind_sum_ind", "nll_regul_ind_sum")


def _same(a, b, name):
    """The very object of the definitions; the two automatic variables of a `NamedVariables` collection are made anew at
    every access: for them, same type and same dependencies."""
    if a is b:
        return True
    return name in AUTOMATIC and type(a) is type(b) and a.get_ancestors_names() == b.get_ancestors_names()


def view_failures(dag, names, anc, variables):
    """Every way of reading the constructed graph tells the same story as `sorted_variables_names` / the definitions."""
    from leaspy.variables.specs import IndividualLatentVariable
    fails = []
    variables = {n: variables[n] for n in names}
    try:
        order = tuple(dag.sorted_variables_names)
        if tuple(iter(dag)) != order or tuple(dag.keys()) != order:
            fails.append(f"iterating the graph gives {tuple(iter(dag))[:6]}…, not its order {order[:6]}…")
        if len(dag) != len(names):
            fails.append(f"len(graph) = {len(dag)} for {len(names)} variables")
        if any(not _same(dag[n], variables[n], n) for n in names) or any(not _same(v, variables[n], n) for v, n in zip(dag.values(), order)) \
                or len(list(dag.values())) != len(order) or [k for k, _ in dag.items()] != list(order):
            fails.append("graph[name] / values() / items() do not give the variables of the definitions in graph order")
        if any(n not in dag for n in names) or "\x00no such variable" in dag:
            fails.append("membership test of the graph is wrong")
        want_children = {n: frozenset(m for m in names if n in anc[m]) for n in names}
        got_children = {n: frozenset(v) for n, v in dag.direct_children.items()}
        if got_children != want_children:
            bad = [n for n in names if got_children.get(n) != want_children[n]][:3]
            fails.append(f"direct dependents of {bad}: {[sorted(got_children.get(n, ['<missing>'])) for n in bad]} != "
                         f"{[sorted(want_children[n]) for n in bad]}")
        by_type = dag.sorted_variables_by_type
        want_types = {}
        for n in order:
            want_types.setdefault(type(variables[n]), []).append(n)
        if set(by_type.keys()) != set(want_types):
            fails.append(f"per-type views exist for {sorted(t.__name__ for t in by_type)} but the variables have exactly the types "
                         f"{sorted(t.__name__ for t in want_types)}")
        else:
            for t, want in want_types.items():
                view = by_type[t]
                if tuple(view) != tuple(want) or tuple(view.keys()) != tuple(want):
                    fails.append(f"view of the {t.__name__} variables lists {tuple(view)[:6]}, expected (graph order) {tuple(want)[:6]}")
                    continue
                if len(view) != len(want) or any(not _same(view[n], variables[n], n) for n in want) \
                        or any(not _same(v, variables[n], n) for v, n in zip(view.values(), want)):
                    fails.append(f"view of the {t.__name__} variables: len / item access / values() inconsistent with its keys")
                other = next((n for n in order if n not in want), None)
                if other is not None:
                    try:
                        view[other]
                        fails.append(f"view of the {t.__name__} variables gives access to {other!r} which is a {type(variables[other]).__name__}")
                    except KeyError:
                        pass
                    if other in view:
                        fails.append(f"view of the {t.__name__} variables claims to contain {other!r}")
        want_ind = tuple(n for n in order if type(variables[n]) is IndividualLatentVariable)
        if tuple(dag.individual_variable_names) != want_ind:
            fails.append(f"individual_variable_names = {tuple(dag.individual_variable_names)[:6]}, expected (graph order) {want_ind[:6]}")
    except Exception as e:  # noqa
        fails.append(f"a view of the constructed graph cannot be read: {type(e).__name__}: {str(e)[:120]}")
    return fails


class _FrozenMap(collections.abc.Mapping):
    """A read-only mapping that is not a dict (keys in the given order)."""

    def __init__(self, items):
        self._d = dict(items)

    def __getitem__(self, k):
        return self._d[k]

    def __iter__(self):
        return iter(self._d)

    def __len__(self):
        return len(self._d)


MAPPING_KINDS = ("dict", "ordered", "proxy", "mapping", "defaultdict", "chainmap")


def as_mapping(kind, items):
    items = list(items)
    if kind == "dict":
        return dict(items)
    if kind == "ordered":
        return collections.OrderedDict(items)
    if kind == "proxy":
        return types.MappingProxyType(dict(items))
    if kind == "mapping":
        return _FrozenMap(items)
    if kind == "defaultdict":
        d = collections.defaultdict(frozenset)
        d.update(items)
        return d
    if kind == "chainmap":
        h = len(items) // 2
        return collections.ChainMap(dict(items[:h]), dict(items[h:]))
    raise ValueError(kind)


def container_failures(env, names, anc, res, rng):
    """The two arguments are mappings: any mapping type, each with its own key order, gives the graph of the definitions."""
    VariablesDAG, _ = env
    fails = []
    variables = make_vars(names)
    # (a defaultdict is a natural way to collect dependency sets; as the mapping of the variables it would grow on look-ups)
    kv, ka = rng.choice([k for k in MAPPING_KINDS if k != "defaultdict"]), rng.choice(MAPPING_KINDS)
    o1, o2 = names[:], names[:]
    rng.shuffle(o1)
    rng.shuffle(o2)
    if o1 == o2 and len(names) > 1:
        o2 = o2[::-1]
    mk = rng.choice([frozenset, frozenset, set])
    try:
        dag = VariablesDAG(as_mapping(kv, [(n, variables[n]) for n in o1]),
                           direct_ancestors=as_mapping(ka, [(n, mk(anc[n])) for n in o2]))
        got = tables(dag, names)
    except Exception as e:  # noqa
        return [f"accepted definitions refused when the variables come as {kv} (order {o1[:5]}…) and the dependencies as {ka} "
                f"(order {o2[:5]}…): {type(e).__name__}: {str(e)[:100]}"]
    if got != res:
        fails.append(f"another graph when the variables come as {kv} (order {o1[:5]}…) and the dependencies as {ka} (order {o2[:5]}…)")
    fails += view_failures(dag, names, anc, variables)[:2]
    return fails


def entry_point_failures(env, names, anc, res, rng):
    """Every public way to the construction gives the graph the constructor gives (accepted definitions)."""
    import torch
    from leaspy.utils.functional import Sum
    from leaspy.variables.specs import DataVariable, LinkedVariable
    VariablesDAG, _ = env
    fails = []
    _, order, ch, an = res
    _, desc = reach(names, anc)
    # (1) the static methods, called the way `_compute_topological_orders` calls them, but with the caller's own mappings
    sh = names[:]
    rng.shuffle(sh)
    children = {n: frozenset(m for m in names if n in anc[m]) for n in sh}
    direct = {n: rng.choice([frozenset, set])(anc[n]) for n in names[::-1]}
    try:
        so, pm = VariablesDAG.compute_topological_order_and_path_matrix(children, direct)
        if tuple(so) != tuple(order):
            fails.append(f"compute_topological_order_and_path_matrix gives the order {tuple(so)[:8]}…, the constructor {tuple(order)[:8]}…")
        else:
            want = [[order[j] in desc[order[i]] for j in range(len(order))] for i in range(len(order))]
            if pm.dtype != torch.bool or tuple(pm.shape) != (len(order), len(order)) or pm.tolist() != want:
                bad = [(order[i], order[j]) for i in range(len(order)) for j in range(len(order))
                       if tuple(pm.shape) == (len(order), len(order)) and bool(pm[i, j]) != want[i][j]][:3]
                fails.append(f"path matrix is not the reachability relation in graph order (first differing pairs {bad})")
            sc, sa = VariablesDAG.compute_sorted_children_and_ancestors(tuple(so), pm)
            if {n: tuple(v) for n, v in sc.items()} != ch or {n: tuple(v) for n, v in sa.items()} != an:
                fails.append("compute_sorted_children_and_ancestors disagrees with the tables of the constructed graph")
        if any(set(direct[n]) != set(anc[n]) for n in names):
            fails.append("compute_topological_order_and_path_matrix modified the caller's dependency sets")
    except Exception as e:  # noqa
        fails.append(f"static construction refused accepted definitions: {type(e).__name__}: {str(e)[:100]}")
    # (2) from_dict on real variable specifications (dependencies inferred from the functions)
    ins = names[:]
    rng.shuffle(ins)
    specs = {n: (LinkedVariable(Sum(*rng.sample(sorted(anc[n]), len(anc[n])))) if anc[n] else DataVariable()) for n in ins}
    try:
        d2 = VariablesDAG.from_dict(rng.choice([dict, collections.OrderedDict, types.MappingProxyType, _FrozenMap])(dict(specs)))
        if tables(d2, names) != res:
            fails.append("from_dict on LinkedVariable / DataVariable specifications gives another graph than the constructor")
        fails += view_failures(d2, names, anc, specs)[:2]
        d3 = VariablesDAG.from_dict(d2)          # the graph itself is a mapping name -> specification
        if tables(d3, names) != res:
            fails.append("from_dict(graph) gives another graph than the graph")
    except Exception as e:  # noqa
        fails.append(f"from_dict refused accepted definitions: {type(e).__name__}: {str(e)[:100]}")
    # (3) copies of the constructed graph; replacement of the definitions
    variables = make_vars(names)
    try:
        dag = VariablesDAG(variables, direct_ancestors={n: frozenset(anc[n]) for n in names})
        for how, cp in (("copy", copy.copy), ("deepcopy", copy.deepcopy), ("pickle", lambda d: pickle.loads(pickle.dumps(d)))):
            c = cp(dag)
            if tables(c, names) != res or {n: set(v) for n, v in c.direct_ancestors.items()} != {n: set(anc[n]) for n in names}:
                fails.append(f"{how} of the graph reports another order / other tables")
            else:
                fails += [f"{how} of the graph: {f}" for f in view_failures(c, names, anc, c.variables if how != "copy" else variables)[:1]]
        # the reversed definitions (every edge turned round) are acyclic and isolated-free too
        rev = {n: frozenset(m for m in names if n in anc[m]) for n in names}
        r = dataclasses.replace(dag, direct_ancestors=rev)
        got = tables(r, names)
        pf, _ = predicate(names, {n: set(v) for n, v in rev.items()}, got)
        if pf:
            fails.append("dataclasses.replace(graph, direct_ancestors=reversed edges): " + pf[0])
        elif got != tables(VariablesDAG(make_vars(names), direct_ancestors=rev), names):
            fails.append("dataclasses.replace(graph, direct_ancestors=…) differs from a fresh construction")
        if tables(dag, names) != res:
            fails.append("the graph changed after copies / a replacement were made from it")
    except Exception as e:  # noqa
        fails.append(f"copy / deepcopy / pickle / replace of an accepted graph raised {type(e).__name__}: {str(e)[:100]}")
    return fails


def refusal_entry_point_failures(env, names, anc, res, why):
    """Refused definitions are refused the same way through `from_dict` on real specifications; a cyclic graph is refused by
    the static method too."""
    from leaspy.utils.functional import Sum
    from leaspy.variables.specs import DataVariable, LinkedVariable
    VariablesDAG, LIE = env
    fails = []
    specs = {n: (LinkedVariable(Sum(*sorted(anc[n]))) if anc[n] else DataVariable()) for n in names}
    try:
        VariablesDAG.from_dict(specs)
        got = "ok"
    except LIE:
        got = "err:input"
    except ValueError:
        got = "err:value"
    except Exception as e:  # noqa
        got = f"err:other:{type(e).__name__}"
    if got != res[0]:
        fails.append(f"from_dict on real specifications answers {got}, the constructor {res[0]}")
    if why["cyclic"] and not (why["unknown"] or why["selfloop"]):
        children = {n: frozenset(m for m in names if n in anc[m]) for n in names}
        try:
            VariablesDAG.compute_topological_order_and_path_matrix(children, {n: frozenset(anc[n]) for n in names})
            fails.append("compute_topological_order_and_path_matrix accepts cyclic definitions")
        except ValueError:
            pass
        except Exception as e:  # noqa
            fails.append(f"compute_topological_order_and_path_matrix on cyclic definitions raised {type(e).__name__}")
    return fails


def inconsistent_key_failures(env, names, anc, rng):
    """A variable without an entry of dependencies, or an entry for something that is not a variable: refused (deliberately:
    input or value error), whatever else is in the definitions."""
    VariablesDAG, LIE = env
    fails = []
    variables = make_vars(names)
    direct = {n: frozenset(anc[n]) for n in names}
    victim = rng.choice(names)
    trials = {
        "a variable has no entry of dependencies": (variables, {n: v for n, v in direct.items() if n != victim}),
        "an entry of dependencies belongs to no variable": ({n: v for n, v in variables.items() if n != victim}, direct),
        "an extra entry of dependencies (without any) belongs to no variable": (variables, dict(direct, **{"\x7fextra": frozenset()})),
        "an extra variable has no entry of dependencies": (dict(variables, **{"\x7fextra": _V()}), direct),
    }
    for what, (v, d) in trials.items():
        try:
            VariablesDAG(v, direct_ancestors=d)
            fails.append(f"definitions accepted although {what} ({victim!r})")
        except (LIE, ValueError):
            pass
        except Exception as e:  # noqa
            fails.append(f"definitions in which {what} ({victim!r}) are not refused deliberately but abort with {type(e).__name__}: {str(e)[:80]}")
    children = {n: frozenset(m for m in names if n in anc[m]) for n in names}
    try:
        VariablesDAG.compute_topological_order_and_path_matrix({n: c for n, c in children.items() if n != victim}, direct)
        fails.append("compute_topological_order_and_path_matrix accepts tables of dependents and dependencies over different variables")
    except ValueError:
        pass
    except Exception as e:  # noqa
        fails.append(f"compute_topological_order_and_path_matrix with tables over different variables aborts with {type(e).__name__}")
    return fails


def renaming_failures(env, names, anc, res):
    """Documented: 'input nodes are sorted by name' — the names matter through their (python string) order only.  The same
    definitions under an order-preserving renaming must give the same graph up to that renaming."""
    ranked = sorted(names)
    new = {n: f"n{i:05d}" for i, n in enumerate(ranked)}
    names2 = [new[n] for n in names]
    anc2 = {new[n]: {new.get(a, a) for a in anc[n]} for n in names}
    res2 = run_impl(env, names2, anc2)
    if res2[0] != res[0]:
        return [f"order-preserving renaming {dict(list(new.items())[:4])}… changes the outcome {res[0]} -> {res2[0]}"]
    if res[0] != "ok":
        return []
    back = {v: k for k, v in new.items()}
    if tuple(back.get(x, x) for x in res2[1]) != res[1]:
        return [f"the order {res[1][:8]}… becomes {tuple(back.get(x, x) for x in res2[1])[:8]}… under an order-preserving renaming "
                f"of the variables (to n00000, n00001, … in sorted order)"]
    for n in names:
        if tuple(back.get(x, x) for x in res2[2][new[n]]) != res[2][n] or tuple(back.get(x, x) for x in res2[3][new[n]]) != res[3][n]:
            return [f"dependents / dependencies of {n!r} change under an order-preserving renaming of the variables"]
    return []


def ambient_failures(env, names, anc, res):
    """Process state: the ambient torch default dtype has no bearing on a graph."""
    import torch
    old = torch.get_default_dtype()
    torch.set_default_dtype(torch.float64)
    try:
        res2 = run_impl(env, names, anc)
    finally:
        torch.set_default_dtype(old)
    return [] if res2 == res else ["another result under torch.set_default_dtype(torch.float64)"]


def lean_units(names, anc):
    """Rough cost of one request in the (interpreted, closure-chained) Lean model: look-ups of a column walk the chain of edge
    relaxations and, per incoming edge, the column of the source.  ~1e7 units per second."""
    s = set(names)
    if any(a not in s or a == n for n in names for a in anc[n]):
        return 0
    e = sum(len(anc[n]) for n in names)
    cost, todo, left = {}, [n for n in names if not anc[n]], {n: set(anc[n]) for n in names}
    kids = {n: [] for n in names}
    for m in names:
        for a in anc[m]:
            kids[a].append(m)
    while todo:
        n = todo.pop()
        cost[n] = e + sum(cost[a] for a in anc[n])
        for m in kids[n]:
            left[m].discard(n)
            if not left[m]:
                todo.append(m)
    if len(cost) < len(names):
        return e * e
    return 3 * len(names) * sum(cost.values())


# ----------------------------------------------------------------- hardening: NamedVariables collections
def synthetic_collection(rng):
    """Definitions of a small model-like collection, in a listing order in which a latent variable may come before the
    parameters of its prior: (name, ("data",) | ("ind"|"pop", mean, std) | ("link", dep, …))."""
    n_ind = rng.choice([1, 1, 2, 3, 5])
    n_pop = rng.choice([0, 1, 2])
    pool = ["xi", "tau", "sources", "z9", "z10", "Z9", "a", "a_", "zeta_b", "é", "w 1"]
    lat = rng.sample(pool, n_ind + n_pop)
    defs, explicit = [], []
    for i, z in enumerate(lat):
        m, s_ = f"{z}_mean", f"{z}_std"
        defs += [(m, ("data",)), (s_, ("data",)), (z, ("ind" if i < n_ind else "pop", m, s_))]
        explicit += [m, s_, z]
    for j in range(rng.randrange(0, 5)):
        deps = rng.sample(explicit, rng.randrange(1, min(4, len(explicit)) + 1))
        name = f"link{j}" if rng.random() < 0.7 else f"L{j}k"
        defs.append((name, ("link",) + tuple(sorted(deps))))
        explicit.append(name)
    rng.shuffle(defs)
    return defs


def build_spec(d):
    from leaspy.utils.functional import Sum
    from leaspy.variables.distributions import Normal
    from leaspy.variables.specs import DataVariable, IndividualLatentVariable, LinkedVariable, PopulationLatentVariable
    if d[0] == "data":
        return DataVariable()
    if d[0] == "param":
        from leaspy.variables.specs import Collect, ModelParameter
        ded = {x[0]: LinkedVariable(Sum(*x[1:])) for x in d[1:]}
        return ModelParameter(shape=(1,), suff_stats=Collect("c15_stat", **ded), update_rule=Sum("c15_stat"))
    if d[0] == "ind":
        return IndividualLatentVariable(Normal(d[1], d[2]))
    if d[0] == "pop":
        return PopulationLatentVariable(Normal(d[1], d[2]))
    return LinkedVariable(Sum(*d[1:]))


def assemble(defs, how, cut=None):
    from leaspy.variables.specs import NamedVariables
    items = [(n, build_spec(d)) for n, d in defs]
    if how == "ctor":
        return NamedVariables(dict(items))
    if how == "pairs":
        return NamedVariables(items)
    nv = NamedVariables()
    if how == "setitem":
        for n, v in items:
            nv[n] = v
    elif how == "update":
        nv.update(dict(items))
    elif how == "instalments":
        nv.update(dict(items[:cut]))
        list(nv.items())
        _ = dict(nv), len(nv), [nv[k] for k in nv]
        for n, v in items[cut:]:
            nv[n] = v
    else:
        raise ValueError(how)
    return nv


ASSEMBLIES = ("ctor", "pairs", "setitem", "update", "instalments")


def collection_case(chk, env, defs, how, cut, expect=None):
    """One `NamedVariables` collection: graph of `from_dict` = the expected definitions; reserved / used names refused and
    without effect.  Returns (names, anc) of the graph for the model comparison, or None."""
    VariablesDAG, _ = env
    case = {"collection": [[n, list(d)] for n, d in defs], "assembled": how, "cut": cut}
    if expect is None:
        expect = expected_collection(defs)
    try:
        nv = assemble(defs, how, cut)
        before = list(nv)
        # refused names: a reserved word, an automatic variable, a name in use, an implicit companion
        from leaspy.variables.specs import DataVariable
        taken = [n for n in expect if n.startswith("nll_regul_") and n not in ("nll_regul_ind_sum_ind", "nll_regul_ind_sum")]
        for bad in ("state", "sum", "nll_regul_ind_sum", defs[0][0], taken[0]):
            try:
                nv[bad] = DataVariable()
                chk.impl_failure(case, f"the collection accepts a definition under the name {bad!r} (reserved, automatic or in use)")
            except ValueError:
                pass
        if list(nv) != before or len(nv) != len(before):
            chk.impl_failure(case, "a refused definition changed the collection")
        dag = VariablesDAG.from_dict(nv)
        got = {n: set(v) for n, v in dag.direct_ancestors.items()}
    except Exception as e:  # noqa
        chk.impl_failure(case, f"collection of valid definitions ({how}) cannot be turned into a graph: {type(e).__name__}: {str(e)[:140]}")
        return None
    if got != expect:
        miss, extra = sorted(set(expect) - set(got)), sorted(set(got) - set(expect))
        wrong = [n for n in expect if n in got and got[n] != expect[n]][:3]
        chk.impl_failure(case, f"graph of the collection ({how}): missing variables {miss[:4]}, unexpected {extra[:4]}, "
                               f"dependencies of {wrong}: {[sorted(got[n]) for n in wrong]} != {[sorted(expect[n]) for n in wrong]}")
        return None
    names = list(dag.variables.keys())
    if sorted(names) != sorted(expect) or len(nv) != len(expect) or sorted(nv.keys()) != sorted(expect):
        chk.impl_failure(case, f"the collection lists {len(nv)} variables {sorted(nv.keys())[:5]}…, its graph has {len(expect)}")
    anc = {n: set(expect[n]) for n in names}
    for f in predicate(names, anc, tables(dag, names))[0][:2] + view_failures(dag, names, anc, dag.variables)[:2]:
        chk.impl_failure(case, f"graph of the collection ({how}): {f}")
    return names, anc


# ----------------------------------------------------------------- the collection model (`Model/Specs.lean`, request `coll`)
def _enc(name):
    return ".".join(str(ord(c)) for c in name)


def _op_token(name, d):
    if d[0] == "data":
        return f"{_enc(name)}~p"
    if d[0] == "link":
        return "~".join([_enc(name), "l"] + [_enc(x) for x in d[1:]])
    if d[0] == "param":
        return "~".join([_enc(name), "m"] + [_enc(x[0]) + ":" + ",".join(_enc(a) for a in x[1:]) for x in d[1:]])
    return "~".join([_enc(name), "i" if d[0] == "ind" else "o", _enc(d[1]), _enc(d[2])])


def statement_history(rng):
    """`nv[name] = var` statements: a valid collection with, at random places, statements the collection must refuse - reserved
    words, automatic names, names in use, and latent variables one of whose implicit companions cannot be added (the name
    `nll_regul_<z>` taken by an explicit definition, or falling on an automatic name): the refusal then comes AFTER the
    variable itself (and possibly its first companion) went in."""
    ops = list(synthetic_collection(rng))
    lat = [n for n, d in ops if d[0] in ("ind", "pop")]
    extra = []
    calm = rng.random() < 0.45          # nearly half of the histories stay valid all along: their graph is built and compared too
    for _ in range(0 if calm else rng.randrange(0, 5)):
        k = rng.randrange(7)
        if k == 0:
            extra.append((rng.choice(["state", "sum", "all", "pop", "ind", "tot", "full", "nll", "attach", "regul", "suff_stats"]), ("data",)))
        elif k == 1:
            extra.append((rng.choice(["nll_regul_ind_sum", "nll_regul_ind_sum_ind"]), ("data",)))
        elif k == 2:
            extra.append((rng.choice(ops)[0], rng.choice([("data",), ("ind", "m0", "s0"), ("link", "m0")])))
        elif k == 3 and lat:          # a companion name taken beforehand by an explicit definition
            z = rng.choice(lat)
            extra.append(("front", (rng.choice([f"nll_regul_{z}", f"nll_regul_{z}_ind"]), ("data",))))
        elif k == 4:
            extra.append((rng.choice(["ind_sum", "ind_sum_ind"]), (rng.choice(["ind", "pop"]), "m0", "s0")))
        elif k == 5:
            extra.append((rng.choice(["State", "sum ", "nll_regul", "nll_regul_ind_sum_", "m0", "s0"]), ("data",)))
        else:
            z = rng.choice(lat) if lat else "q"
            extra.append((f"nll_regul_{z}", ("data",)))      # after (refused: in use) or before (taken) the latent variable
    # model parameters with dedicated sufficient-statistic variables (added through the same `update` as the companions):
    # fresh names, a name shared by two parameters, a companion name, a reserved word - the refusal then comes half-way
    names_now = [n for n, _ in ops]
    for j in range(0 if calm else rng.randrange(0, 3)):
        z = rng.choice(lat) if lat else "q"
        ded = []
        for _ in range(rng.randrange(0, 3)):
            dn = rng.choice([f"{z}_sqr", f"{z}_sqr", f"stat{j}", "é2", f"nll_regul_{z}", "sum", f"{z}_mean", "nll_regul_ind_sum"])
            if dn not in [x[0] for x in ded]:
                ded.append((dn,) + tuple(sorted(rng.sample(names_now, rng.randrange(1, min(3, len(names_now)) + 1)))))
        extra.append((f"par{j}" if rng.random() < 0.8 else f"{z}_std", ("param",) + tuple(ded)))
    if calm and rng.random() < 0.6:      # a model parameter that is used (not isolated): a derived variable depends on it
        z = rng.choice(lat) if lat else "q"
        ops.append((f"{z}_scale", ("param", (f"{z}_sqr", z))))
        ops.append((f"use_{z}", ("link", f"{z}_scale", f"{z}_sqr")))
        rng.shuffle(ops)
    for e in extra:
        if e[0] == "front":
            ops.insert(rng.randrange(0, max(1, len(ops) // 2)), e[1])
        else:
            ops.insert(rng.randrange(0, len(ops) + 1), e)
    return ops


def statements_case(chk, env, ops):
    """The statements on a real `NamedVariables`; returns (request line, canonical observation) or None."""
    from leaspy.variables.specs import NamedVariables
    case = {"statements": [[n, [list(x) if isinstance(x, tuple) else x for x in d]] for n, d in ops]}
    try:
        nv = NamedVariables()
        oks = []
        for n, d in ops:
            try:
                nv[n] = build_spec(d)
                oks.append(True)
            except ValueError:
                oks.append(False)
            if zlib.crc32(repr((n, len(oks))).encode()) % 3 == 0:     # reads in between are not part of the state of a collection
                _ = dict(nv), len(nv), [nv[k].get_ancestors_names() for k in nv], nv["nll_regul_ind_sum_ind"]
        keys = list(nv)
        defs = [(k, sorted(nv[k].get_ancestors_names())) for k in keys]
        if len(nv) != len(keys) or list(nv.keys()) != keys or [k for k, _ in nv.items()] != keys:
            chk.impl_failure(case, f"the views of the collection disagree: len {len(nv)}, iteration {len(keys)} names, keys() {len(list(nv.keys()))}")
    except Exception as e:  # noqa
        chk.impl_failure(case, f"assignment statements on a collection end with {type(e).__name__}: {str(e)[:140]}")
        return None
    # the property's clause, independently of the model: every statement that went through as an individual latent variable is
    # counted by the summary node, which depends on nothing else; no name twice
    ind_ok = sorted({n for (n, d), ok in zip(ops, oks) if ok and d[0] == "ind"})
    got_sum = dict(defs).get("nll_regul_ind_sum_ind")
    if got_sum != sorted(f"nll_regul_{z}_ind" for z in ind_ok):
        chk.impl_failure(case, f"nll_regul_ind_sum_ind depends on {got_sum}, the individual latent variables assigned successfully are {ind_ok}")
    if len(set(keys)) != len(keys):
        chk.impl_failure(case, f"a name is listed twice: {[k for k in keys if keys.count(k) > 1][:3]}")
    line = "coll ops=" + ("|".join(_op_token(n, d) for n, d in ops) or "-")
    fmt = lambda l: ",".join(l) if l else "_"  # noqa
    # the whole way: from_dict on the collection as it stands (name ranking, checks, order) against `Specs.fromDict`
    VariablesDAG, LIE = env
    try:
        graph = fmt([_enc(k) for k in VariablesDAG.from_dict(nv).sorted_variables_names])
    except LIE:
        graph = "err:input"
    except ValueError:
        graph = "err:value"
    except Exception as e:  # noqa
        graph = f"err:other:{type(e).__name__}"
    case["graph"] = graph[:10]
    obs = (f"graph={graph} ok={fmt(['1' if o else '0' for o in oks])} keys={fmt([_enc(k) for k in keys])} "
           f"defs={';'.join(_enc(k) + ':' + fmt([_enc(a) for a in deps]) for k, deps in defs)}")
    case["refused"] = oks.count(False)
    return line, obs, case


def statements_part(chk, env, n):
    lines, obs, cases = [], [], []
    for _ in range(n):
        ops = statement_history(chk.rng)
        r = statements_case(chk, env, ops)
        chk.case(("statements", repr(ops)), nontrivial=True, tags={"part": "collection-statements"})
        if r is not None:
            lines.append(r[0]); obs.append(r[1]); cases.append(r[2])
            chk.tag("collection-statements", "refused=" + str(min(r[2]["refused"], 3)))
            chk.tag("collection-graph", r[2]["graph"] if r[2]["graph"].startswith("err") else "ok")
    out = chk.model(lines)
    for cj, a, b in zip(cases, obs, out):
        if a != b:
            A, B = a.split(" "), b.split(" ")
            what = next((x.split("=")[0] for x, y in zip(A, B) if x != y), "?")
            chk.disagree(cj, a, b, f"collection after the statements ({what})")


def expected_collection(defs):
    expect = {}
    ind = []
    for n, d in defs:
        if d[0] == "link":
            expect[n] = set(d[1:])
            continue
        expect[n] = set()
        if d[0] == "ind":
            ind.append(n)
            expect[f"nll_regul_{n}_ind"] = {n, d[1], d[2]}
            expect[f"nll_regul_{n}"] = {f"nll_regul_{n}_ind"}
        elif d[0] == "pop":
            expect[f"nll_regul_{n}"] = {n, d[1], d[2]}
    expect["nll_regul_ind_sum_ind"] = {f"nll_regul_{z}_ind" for z in ind}
    expect["nll_regul_ind_sum"] = {"nll_regul_ind_sum_ind"}
    return expect


def reach(names, anc):
    """Independent transitive closure: desc[a] = set of nodes reachable from a by >=1 edge (a -> child)."""
    children = {n: set() for n in names}
    for m in names:
        for a in anc[m]:
            if a in children:
                children[a].add(m)
    desc = {}
    for a in names:
        seen, todo = set(), list(children[a])
        while todo:
            x = todo.pop()
            if x not in seen:
                seen.add(x)
                todo.extend(children[x])
        desc[a] = seen
    return children, desc


def expected_refusal(names, anc):
    s = set(names)
    children, desc = reach(names, anc)
    unknown = any(a not in s for m in names for a in anc[m])
    selfloop = any(m in anc[m] for m in names)
    isolated = any(len(anc[m]) == 0 and len(children[m]) == 0 for m in names)
    cyclic = any(a in desc[a] for a in names)
    return unknown or selfloop or isolated or cyclic, dict(unknown=unknown, selfloop=selfloop, isolated=isolated, cyclic=cyclic)


def predicate(names, anc, res):
    fails = []
    refuse, why = expected_refusal(names, anc)
    if res[0] != "ok":
        if not refuse:
            fails.append(f"valid definitions refused ({res[0]})")
        return fails, why
    if refuse:
        fails.append(f"definitions accepted although {[k for k, v in why.items() if v]}")
        return fails, why
    _, order, ch, an = res
    pos = {n: i for i, n in enumerate(order)}
    if sorted(order) != sorted(names):
        fails.append("order is not a permutation of the variables")
        return fails, why
    if any(x not in pos for v in list(ch.values()) + list(an.values()) for x in v):
        fails.append("dependents / dependencies tables are missing entries or name non-variables")
        return fails, why
    for m in names:
        for a in anc[m]:
            if pos[a] >= pos[m]:
                fails.append(f"{m} listed before its dependency {a}")
    _, desc = reach(names, anc)
    for a in names:
        if set(ch[a]) != desc[a] or len(set(ch[a])) != len(ch[a]):
            fails.append(f"transitive dependents of {a}: {ch[a]} != {sorted(desc[a])}")
        elif [pos[x] for x in ch[a]] != sorted(pos[x] for x in ch[a]):
            fails.append(f"dependents of {a} not in graph order")
        want_anc = {b for b in names if a in desc[b]}
        if set(an[a]) != want_anc or len(set(an[a])) != len(an[a]):
            fails.append(f"transitive dependencies of {a}: {an[a]} != {sorted(want_anc)}")
        elif [pos[x] for x in an[a]] != sorted(pos[x] for x in an[a]):
            fails.append(f"dependencies of {a} not in graph order")
    return fails, why


def to_line(names, anc):
    """Rank names (python sorted) and emit the driver request. Unknown names get ranks >= n."""
    ranked = sorted(names)
    rank = {n: i for i, n in enumerate(ranked)}
    unknown = sorted({a for m in names for a in anc[m]} - set(names))
    for k, u in enumerate(unknown):
        rank[u] = len(ranked) + k
    if not ranked:
        return "build anc=-", ranked
    rows = [fmt_list(sorted(rank[a] for a in anc[m])) for m in ranked]
    return "build anc=" + ";".join(rows), ranked


def canon_impl(res, ranked):
    if res[0] != "ok":
        return res[0]
    rank = {n: i for i, n in enumerate(ranked)}
    rank.update({"<missing>": "missing", "<unreadable>": "unreadable"})
    _, order, ch, an = res
    return "ok order=%s ch=%s an=%s" % (
        fmt_list(rank[x] for x in order),
        ";".join(fmt_list(rank[x] for x in ch[m]) for m in ranked),
        ";".join(fmt_list(rank[x] for x in an[m]) for m in ranked))


def case_json(names, anc):
    return {"names": list(names), "ancestors": {n: sorted(anc[n]) for n in names}}


# ----------------------------------------------------------------- generators
def all_digraphs(k):
    names = [f"v{i}" for i in range(k)]
    pairs = [(a, b) for a in range(k) for b in range(k)]
    for bits in range(1 << len(pairs)):
        anc = {n: set() for n in names}
        for j, (a, b) in enumerate(pairs):
            if bits >> j & 1:
                anc[names[b]].add(names[a])
        yield names, anc


def random_name(rng, used):
    alphabet = "abcXYZ_09z"
    while True:
        s = "".join(rng.choice(alphabet) for _ in range(rng.randrange(1, 6)))
        if used and rng.random() < 0.3:
            # a name that differs from an existing one only by the case of its letters (x / X, sigma / Sigma): distinct variables
            t = rng.choice(sorted(used))
            s = rng.choice([t.swapcase(), t.upper(), t.lower(), t.capitalize()])
        if s not in used:
            used.add(s)
            return s


def random_graph(rng, kmax=20):
    k = rng.randrange(2, kmax + 1)
    used = set()
    names = [random_name(rng, used) for _ in range(k)]
    perm = names[:]
    rng.shuffle(perm)  # hidden topological order
    p = rng.choice([0.1, 0.2, 0.35, 0.6])
    anc = {n: set() for n in names}
    for i in range(k):
        for j in range(i + 1, k):
            if rng.random() < p:
                anc[perm[j]].add(perm[i])
    kind = "dag"
    r = rng.random()
    if r < 0.15:  # one back edge -> very likely a cycle
        i, j = sorted(rng.sample(range(k), 2))
        anc[perm[i]].add(perm[j])
        kind = "backedge"
    elif r < 0.2:
        anc[rng.choice(names)].add("ZZ_unknown")
        kind = "unknown"
    elif r < 0.25:
        n = rng.choice(names)
        anc[n].add(n)
        kind = "selfloop"
    return names, anc, kind


# ----------------------------------------------------------------- hardening: name classes and graph shapes
NAME_POOLS = {
    # numeric suffixes: lexicographic order differs from numeric ("v10" < "v9") and from zero-padded order
    "numeric": [f"{st}{i}" for st in ("v", "x_", "S") for i in list(range(0, 13)) + [19, 20, 21, 99, 100, 101]] + ["v007", "v07", "v0010"],
    # one name a prefix of another; "_" sorts after upper-case and before lower-case letters
    "prefix": ["".join(t) for k in (1, 2, 3, 4) for t in itertools.product("aB_", repeat=k)],
    "unicode": sorted({"\u00e9", "e", "E", "\u00c9", "\u00df", "ss", "\u03a9", "\u03c9", "z", "Z", "\u4e2d", "\u65e5\u672c", "\u00e1",
                       "a\u0301", "\u00f1", "n", "~", "_", "\u0131", "i", "I", "\u0130", "\u03c3", "\u03c2", "\u03a3", "\u03b1",
                       "\U0001d6fc", "\u01c6", "\u01c4", "\u01c5", "\ufb01", "fi", "K", "\u212a"}),
    "blank": ["", " ", "  ", "a", " a", "a ", "a b", "a.b", "a-b", "a_b", "\t", "a\tb", "a\nb", "0", "-1", "1.5", "a,b", "a;b", "(a)",
              "[0]", "'", '"', "\\", "/"],
    "long": ["nll_regul_" * 20 + sfx for sfx in ("", "a", "b", "ind", "ind_sum", "_", "A", "0", "00", "a" * 50, "a" * 49 + "b", "z")],
}


def pool_names(rng, k, fam):
    pool = NAME_POOLS[fam]
    return rng.sample(pool, min(k, len(pool)))


def hidden_order_dag(rng, names, p):
    perm = names[:]
    rng.shuffle(perm)
    anc = {n: set() for n in names}
    for i in range(len(perm)):
        for j in range(i + 1, len(perm)):
            if rng.random() < p:
                anc[perm[j]].add(perm[i])
    # no isolated variable: attach it to a random other one (keeps the hidden order)
    for i, n in enumerate(perm):
        if not anc[n] and not any(n in anc[m] for m in names) and len(perm) > 1:
            j = rng.choice([x for x in range(len(perm)) if x != i])
            lo, hi = min(i, j), max(i, j)
            anc[perm[hi]].add(perm[lo])
    return anc


def shape_graphs(rng, thorough):
    """(tag, names, anc): shapes and sizes the random family does not reach.  Labels are non-padded numeric names in a random
    assignment, so that name order, numeric order and graph order all differ."""
    def labels(n):
        pool = [f"{st}{i}" for st in ("v", "w_") for i in range(n)]
        return rng.sample(pool, n)

    def finish(tag, names, edges):
        anc = {n: set() for n in names}
        for a, b in edges:
            anc[names[b]].add(names[a])
        return tag, names, anc

    out = []
    for k in ([5, 9, 10, 12] + ([13, 14] if thorough else [])):
        out.append(finish(f"shape-complete{k}", labels(k), [(a, b) for a in range(k) for b in range(a + 1, k)]))
    for n in ([33, 100] + ([150] if thorough else [])):
        out.append(finish(f"shape-star-out{n}", labels(n + 1), [(0, b) for b in range(1, n + 1)]))
        out.append(finish(f"shape-star-in{n}", labels(n + 1), [(b, 0) for b in range(1, n + 1)]))
    for a, b in ([(3, 3), (12, 12)] + ([(30, 40)] if thorough else [])):
        out.append(finish(f"shape-bipartite{a}x{b}", labels(a + b), [(i, a + j) for i in range(a) for j in range(b)]))
    for layers, w in ([(4, 6), (8, 9)] + ([(12, 12)] if thorough else [])):
        names = labels(layers * w)
        edges = []
        for l in range(1, layers):
            for j in range(w):
                srcs = [i for i in range(w) if rng.random() < 0.4] or [rng.randrange(w)]
                edges += [((l - 1) * w + i, l * w + j) for i in srcs]
        for i in range(w):   # every first-layer node feeds something
            if not any(a == i for a, _ in edges):
                edges.append((i, w + rng.randrange(w)))
        out.append(finish(f"shape-layers{layers}x{w}", names, edges))
    for depth in ([5, 6] + ([7] if thorough else [])):
        n = 2 ** (depth + 1) - 1
        out.append(finish(f"shape-tree-out{n}", labels(n), [((b - 1) // 2, b) for b in range(1, n)]))
        out.append(finish(f"shape-tree-in{n}", labels(n), [(b, (b - 1) // 2) for b in range(1, n)]))
    for n in ([12, 30, 66] + ([130] if thorough else [])):
        out.append(finish(f"shape-ladder{n}", labels(n), [(b - d, b) for b in range(1, n) for d in (1, 2) if b - d >= 0]))
    for n in ([40, 70] + ([130, 200] if thorough else [])):
        out.append(finish(f"shape-chain{n}", labels(n), [(b - 1, b) for b in range(1, n)]))
    for m in ([2, 40] + ([75] if thorough else [])):
        names = labels(2 * m)
        out.append(finish(f"shape-pairs{m}", names, [(2 * i, 2 * i + 1) for i in range(m)]))
        names = labels(4 * m)
        out.append(finish(f"shape-diamonds{m}", names, [e for i in range(m) for e in ((4 * i, 4 * i + 1), (4 * i, 4 * i + 2), (4 * i + 1, 4 * i + 3), (4 * i + 2, 4 * i + 3))]))
    for n in ([63, 64, 65, 100] + ([128, 129, 150, 257] if thorough else [])):
        names = labels(n)
        perm = list(range(n))
        rng.shuffle(perm)
        edges = []
        for pos in range(1, n):
            for a in rng.sample(perm[:pos], min(pos, rng.choice([1, 1, 2, 3]))):
                edges.append((a, perm[pos]))
        out.append(finish(f"shape-sparse{n}", names, edges))
        # the same with one edge turned round far apart (a long cycle) -> refused
        if n in (65, 129):
            a, b = perm[0], perm[-1]
            out.append(finish(f"shape-sparse{n}-cycle", names, edges + [(b, a)] + ([(a, perm[1]), (perm[1], b)] if n == 65 else [])))
    return out


def family_graphs(rng, thorough):
    """Random graphs (hidden order, optional defect) whose names come from one of the name classes."""
    out = []
    for fam in NAME_POOLS:
        for _ in range(40 if thorough else 7):
            k = rng.randrange(2, 13)
            names = pool_names(rng, k, fam)
            anc = hidden_order_dag(rng, names, rng.choice([0.15, 0.3, 0.6]))
            kind = "dag"
            r = rng.random()
            if r < 0.12 and len(names) > 2:
                a, b = rng.sample(names, 2)
                anc[a].add(b)
                anc[b].add(a)
                kind = "cycle"
            out.append((f"names-{fam}-{kind}", names, anc))
    return out


def loaded_model_graphs(chk):
    """The graph a loaded model carries (`model.dag`): (file, names, anc, dag)."""
    import leaspy.models  # noqa
    from leaspy.models import BaseModel
    d = core.REPO / "tests/_data/model_parameters/from_fit"
    files = sorted(p for p in d.glob("*.json"))
    if chk.tier != "thorough":
        files = chk.rng.sample(files, min(6, len(files)))
    out = []
    for p in files:
        try:
            with core.quiet():
                m = BaseModel.load(str(p))
            dag = m.dag
        except Exception:  # noqa  (benchmark models carry no graph; an unreadable file is not this property's matter)
            chk.tag("loaded_model_without_graph", p.stem)
            continue
        names = list(dag.variables.keys())
        out.append((p.stem, names, {n: set(dag.direct_ancestors[n]) for n in names}, dag))
    return out


def proxy_cases(chk, n):
    """`FilteredMappingProxy` (the per-type views of the graph) on its own: an ordered read-only window on a mapping."""
    from leaspy.utils.filtered_mapping_proxy import FilteredMappingProxy
    rng = chk.rng
    for _ in range(n):
        keys = [random_name(rng, set()) for _ in range(rng.randrange(0, 8))]
        keys = list(dict.fromkeys(keys))
        mapping = {k: object() for k in keys}
        subset = tuple(rng.sample(keys, rng.randrange(0, len(keys) + 1)))
        kind = rng.choice(["ok", "ok", "duplicate", "unknown", "unknown-unchecked"])
        case = {"proxy": kind, "keys": keys, "subset": list(subset)}
        try:
            if kind == "duplicate" and subset:
                sub = subset + (rng.choice(subset),)
                try:
                    FilteredMappingProxy(mapping, subset=sub)
                    chk.impl_failure(case, f"a view with the key {sub[-1]!r} listed twice is accepted")
                except ValueError:
                    pass
            elif kind == "unknown":
                try:
                    FilteredMappingProxy(mapping, subset=subset + ("\x7fnot a key",))
                    chk.impl_failure(case, "a view on a key the mapping does not have is accepted")
                except ValueError:
                    pass
            else:
                sub = subset + (("\x7fnot a key",) if kind == "unknown-unchecked" else ())
                v = FilteredMappingProxy(mapping, subset=sub, **({"check_keys": False} if kind == "unknown-unchecked" else {}))
                bad = []
                if tuple(v) != sub or len(v) != len(sub) or tuple(v.keys()) != sub:
                    bad.append(f"lists {tuple(v)} for the subset {sub}")
                if any(v[k] is not mapping[k] for k in subset):
                    bad.append("item access does not give the mapping's values")
                for k in [k for k in keys if k not in subset][:3] + ["\x7fnot a key"]:
                    try:
                        v[k]
                        bad.append(f"gives access to {k!r} outside the subset")
                    except KeyError:
                        pass
                mapping2 = dict(mapping)
                if subset:   # a proxy, not a copy: a value replaced in the mapping is seen through the view
                    mapping[subset[0]] = object()
                    if v[subset[0]] is not mapping[subset[0]] or v[subset[0]] is mapping2[subset[0]]:
                        bad.append("does not follow the mapping it refers to")
                for b in bad[:2]:
                    chk.impl_failure(case, "view " + b)
        except Exception as e:  # noqa
            chk.impl_failure(case, f"view raised {type(e).__name__}: {str(e)[:100]}")
        chk.case(("proxy", kind, tuple(keys), subset), nontrivial=True, tags={"part": "proxy", "proxy": kind})


def model_graphs(kinds=None):
    import leaspy.models  # noqa
    from leaspy.models import model_factory
    from leaspy.variables.dag import VariablesDAG
    out = []
    for name, kw in (MODEL_KINDS if kinds is None else kinds):
        try:
            m = model_factory(name, **kw)
            specs = m.get_variables_specs()
            dag = VariablesDAG.from_dict(specs)
        except Exception as e:  # noqa
            out.append((name, kw, None, f"{type(e).__name__}: {e}"))
            continue
        names = list(dag.variables.keys())
        anc = {n: set(dag.direct_ancestors[n]) for n in names}
        out.append((name, kw, (names, anc, dag), None))
    return out


def incremental_definitions(chk, only=None, kinds=None):
    """The graph is a function of the definitions, not of the way the collection of definitions was assembled: the same
    definitions given in two or three instalments (the collection being read in between, as `dict(specs)` / `.items()` do) must
    give exactly the graph obtained from the definitions given at once."""
    import leaspy.models  # noqa
    from leaspy.models import model_factory
    from leaspy.variables.dag import VariablesDAG
    for name, kw in ((MODEL_KINDS if kinds is None else kinds) if only is None else [(only[0], only[1])]):
        kw = {k: (tuple(v) if isinstance(v, list) else v) for k, v in kw.items()}   # (a replayed case went through JSON)
        try:
            m = model_factory(name, **kw)
            specs = m.get_variables_specs()
            ref = VariablesDAG.from_dict(specs)
            items = list(specs.data.items())
        except Exception:  # noqa  (reported by model_graphs)
            continue
        want = (tuple(ref.sorted_variables_names), {n: tuple(v) for n, v in ref.sorted_children.items()},
                {n: tuple(v) for n, v in ref.sorted_ancestors.items()}, {n: frozenset(v) for n, v in ref.direct_ancestors.items()})
        cuts = sorted(set(chk.rng.sample(range(1, len(items)), min(len(items) - 1, 6 if chk.tier == "quick" else 16)))) if len(items) > 1 else []
        if only is not None:
            cuts = [only[2]]
        for cut in cuts:
            case = {"model": name, "kw": kw, "instalments": [cut, len(items) - cut]}
            try:
                part = type(specs)()
                for k, v in items[:cut]:
                    if k not in part.data:   # implicit companions (statistics, regularity terms) come with their owner
                        part[k] = v
                list(part.items())          # the collection is read while incomplete (automatic variables included)
                _ = dict(part)
                for k, v in items[cut:]:
                    if k not in part.data:
                        part[k] = v
                dag = VariablesDAG.from_dict(part)
                got = (tuple(dag.sorted_variables_names), {n: tuple(v) for n, v in dag.sorted_children.items()},
                       {n: tuple(v) for n, v in dag.sorted_ancestors.items()}, {n: frozenset(v) for n, v in dag.direct_ancestors.items()})
            except Exception as e:  # noqa
                chk.impl_failure(case, f"definitions given in two instalments are refused: {type(e).__name__}: {str(e)[:150]}")
                continue
            if got != want:
                what = ("order" if got[0] != want[0] else "dependents" if got[1] != want[1] else "dependencies" if got[2] != want[2]
                        else "direct dependencies")
                bad = [n for n in want[3] if got[3].get(n) != want[3][n]][:3]
                chk.impl_failure(case, f"the graph of definitions given in two instalments (first {cut}, read, then the rest) differs from the "
                                       f"graph of the same definitions given at once: {what}" + (f" of {bad}" if bad else ""))
            chk.case(("instalments", name, json.dumps(kw, sort_keys=True), cut), nontrivial=True, tags={"part": "instalments", "model": name})


def run(chk: core.Check):
    env = _imports()
    rng = chk.rng
    chk.rule = ("every digraph (self-loops included) on <=3 (quick) / <=4 (thorough) labelled nodes, exhaustively; graphs referring "
                "to unknown nodes; random graphs of 2..20 nodes with random names (hidden topological order + optional back edge / "
                "unknown / self reference); graphs of every shipped model kind and of loaded models; NamedVariables collections "
                "assembled in five ways; names from classes on which sort keys differ (numeric suffixes, prefixes, non-ASCII, "
                "blanks, long common prefixes); shapes beyond the random family (complete DAGs, stars, bipartite, layers, trees, "
                "ladders, chains, many components, sparse graphs of 63..150 (thorough 257) nodes; the deep ones are checked by the "
                "predicate only, see `lean_skipped`). On accepted graphs: every read view, every entry point (static methods + "
                "path matrix, from_dict on real specifications, copies, replace), mapping types with different key orders, "
                "order-preserving renaming, ambient dtype; inconsistent key sets. Non-trivial = accepted graph with >=1 node "
                "having >=2 transitive dependents, or a refused graph; distinct by (names, edges).")
    cases = []  # (names, anc, tag)
    for c in core.load_corpus(PROP):
        cases.append((c["names"], {k: set(v) for k, v in c["ancestors"].items()}, "corpus"))
    kmax = 4 if chk.tier == "thorough" else 3
    for k in range(0, kmax + 1):
        for names, anc in all_digraphs(k):
            cases.append((names, anc, f"exhaustive{k}"))
    # unknown references on small graphs
    for names, anc in itertools.islice(all_digraphs(2), 16):
        anc2 = {n: set(v) for n, v in anc.items()}
        anc2[names[0]].add("nope")
        cases.append((names, anc2, "unknown-small"))
    for _ in range(2000 if chk.tier == "thorough" else 300):
        names, anc, kind = random_graph(rng)
        cases.append((names, anc, "random-" + kind))
    # long dependency chains (with and without shortcut edges, late roots), 2..24 nodes
    for k in range(2, 25 if chk.tier == "thorough" else 17):
        names = [f"c{j:02d}" for j in range(k)]
        rng.shuffle(names)
        anc = {n: set() for n in names}
        for j in range(1, k):
            anc[names[j]].add(names[j - 1])
        cases.append((names, {n: set(v) for n, v in anc.items()}, "chain-plain"))
        anc2 = {n: set(v) for n, v in anc.items()}
        for _ in range(rng.randrange(1, 4)):
            a, b = sorted(rng.sample(range(k), 2))
            anc2[names[b]].add(names[a])
        cases.append((names, anc2, "chain-shortcuts"))
    thorough = chk.tier == "thorough"
    for tag, names, anc in family_graphs(rng, thorough) + shape_graphs(rng, thorough):
        cases.append((names, anc, tag))
    # NamedVariables collections: the graph is the documented one however the collection was assembled
    for _ in range(60 if thorough else 10):
        defs = synthetic_collection(rng)
        how = rng.choice(ASSEMBLIES)
        cut = rng.randrange(1, len(defs))
        g = collection_case(chk, env, defs, how, cut)
        chk.case(("collection", repr(defs), how, cut), nontrivial=True, tags={"part": "collection", "assembled": how})
        if g is not None:
            cases.append((g[0], g[1], "collection-" + how))
    statements_part(chk, env, 150 if thorough else 40)
    for stem, names, anc, dag in loaded_model_graphs(chk):
        cases.append((names, anc, f"loaded-{stem}"))
        for f in predicate(names, anc, tables(dag, names))[0][:2] + view_failures(dag, names, anc, dag.variables)[:2]:
            chk.impl_failure({"loaded_model": stem}, "graph carried by the loaded model: " + f)
    proxy_cases(chk, 400 if thorough else 40)
    kinds = MODEL_KINDS + (MORE_MODEL_KINDS if thorough else rng.sample(MORE_MODEL_KINDS, 4))
    incremental_definitions(chk, kinds=kinds)
    mg = model_graphs(kinds)
    for name, kw, g, err in mg:
        if g is None:
            # every listed configuration builds on the unchanged tree: a refusal is a refusal of valid definitions
            chk.impl_failure({"model": name, "kw": kw}, f"the definitions of the shipped model kind cannot be turned into a graph: {err[:160]}")
            continue
        names, anc, dag = g
        cases.append((names, anc, f"model-{name}"))
        # the DAG built by from_dict itself must agree with a rebuild from its own edges
        res = ("ok", tuple(dag.sorted_variables_names), {n: tuple(dag.sorted_children[n]) for n in names},
               {n: tuple(dag.sorted_ancestors[n]) for n in names})
        fails, _ = predicate(names, anc, res)
        for f in fails[:2] + view_failures(dag, names, anc, dag.variables)[:2]:
            chk.impl_failure({"model": name, "kw": kw}, "from_dict graph: " + f)

    lines, impl_canon, keep = [], [], []
    lean_budget = 6e8 if thorough else 8e7     # units of `lean_units` for the shape family as a whole (~1e7 per second)
    for names, anc, tag in cases:
        res = run_impl(env, names, anc)
        fails, why = predicate(names, anc, res)
        cj = case_json(names, anc)
        for f in fails[:2]:
            chk.impl_failure(cj, f)
        small_exh = tag.startswith("exhaustive") and (len(names) <= 3 or rng.random() < 0.02)
        hard = small_exh or not tag.startswith("exhaustive")
        # determinism: other insertion orders of the same definitions
        if res[0] == "ok" and len(names) > 1 and (not tag.startswith("exhaustive") or len(names) == 3):
            for f in definitions_untouched(env, names, anc, rng.choice(["set", "set", "frozenset", "mixed"]))[:2]:
                chk.impl_failure(cj, f)
            sh = names[:]
            rng.shuffle(sh)
            for other in (sh, names[::-1]):
                res2 = run_impl(env, names, anc, insertion_order=other)
                if res2 != res:
                    chk.impl_failure(cj, f"result depends on the insertion order of the definitions ({other})")
                    break
        if hard and len(names) > 1:
            more = []
            if res[0] == "ok":
                more += container_failures(env, names, anc, res, rng)[:2]
                more += entry_point_failures(env, names, anc, res, rng)[:3]
                more += ambient_failures(env, names, anc, res) if rng.random() < 0.25 else []
            else:
                more += refusal_entry_point_failures(env, names, anc, res, why)[:2]
            more += renaming_failures(env, names, anc, res)[:1]
            if rng.random() < (1.0 if len(names) <= 6 else 0.3):
                more += inconsistent_key_failures(env, names, anc, rng)[:2]
            for f in more:
                chk.impl_failure(cj, f)
        nontriv = res[0] != "ok"
        if res[0] == "ok":
            nontriv = any(len(v) >= 2 for v in res[2].values())
        fam = tag.split("-")[0] if not tag.startswith("exhaustive") else tag
        tags = {"family": fam, "outcome": res[0], "size": min(len(names), 21) // 5 * 5}
        if fam == "shape":
            tags["shape"] = tag.split("-", 1)[1].rstrip("0123456789x")
        if fam == "names":
            tags["name_class"] = tag.split("-")[1]
        send = True
        if fam == "shape":
            u = lean_units(names, anc)
            send = u <= 5e7 and u <= lean_budget
            if send:
                lean_budget -= u
            else:
                chk.tag("lean_skipped", tag)
        if send:
            line, ranked = to_line(names, anc)
            lines.append(line)
            impl_canon.append(canon_impl(res, ranked))
            keep.append(cj)
        chk.case((tuple(names), tuple(sorted((k, tuple(sorted(v))) for k, v in anc.items()))), nontrivial=nontriv,
                 sample=(cj if (tag.startswith("random") and len(names) <= 5) else None), tags=tags)
    out = chk.model(lines)
    for cj, a, b in zip(keep, impl_canon, out):
        if a != b:
            chk.disagree(cj, a, b, "construction result")
    chk.exhaustive = True
    chk.extra_cov["exhaustive_scope"] = f"all digraphs with self-loops on <= {kmax} labelled nodes"


def replay(chk: core.Check, payload):
    env = _imports()
    case = payload.get("case") or (payload.get("disagreements") or [{}])[0].get("case")
    if case and "instalments" in case:
        incremental_definitions(chk, only=(case["model"], case["kw"], case["instalments"][0]))
        return
    if case and "statements" in case:
        ops = [(n, tuple(tuple(x) if isinstance(x, list) else x for x in d)) for n, d in case["statements"]]
        r = statements_case(chk, env, ops)
        chk.case(("statements", repr(ops)), sample=case)
        if r is not None:
            out = chk.model([r[0]])
            if out[0] != r[1]:
                chk.disagree(case, r[1], out[0], "collection after the statements")
        return
    if case and "collection" in case:
        defs = [(n, tuple(d)) for n, d in case["collection"]]
        g = collection_case(chk, env, defs, case["assembled"], case["cut"])
        chk.case(("collection", repr(defs)), sample=case)
        if g is not None:
            line, ranked = to_line(*g)
            res = run_impl(env, *g)
            out = chk.model([line])
            if out[0] != canon_impl(res, ranked):
                chk.disagree(case, canon_impl(res, ranked), out[0], "construction result")
        return
    if case and "proxy" in case:
        chk.note("view cases are regenerated, not replayed: run the check with the recorded seed")
        proxy_cases(chk, 40)
        return
    if case and "loaded_model" in case:
        for stem, names, anc, dag in loaded_model_graphs(chk):
            if stem == case["loaded_model"]:
                for f in predicate(names, anc, tables(dag, names))[0][:2] + view_failures(dag, names, anc, dag.variables)[:2]:
                    chk.impl_failure(case, "graph carried by the loaded model: " + f)
        chk.case(("loaded", case["loaded_model"]), sample=case)
        return
    if not case or "names" not in case:
        chk.note("replay file has no graph case")
        return
    names = case["names"]
    anc = {k: set(v) for k, v in case["ancestors"].items()}
    res = run_impl(env, names, anc)
    fails, _ = predicate(names, anc, res)
    for f in fails:
        chk.impl_failure(case, f)
    if res[0] == "ok":
        for kind in ("set", "frozenset", "mixed"):
            for f in definitions_untouched(env, names, anc, kind)[:2]:
                chk.impl_failure(case, f)
        for other in (names[::-1],):
            if run_impl(env, names, anc, insertion_order=other) != res:
                chk.impl_failure(case, f"result depends on the insertion order of the definitions ({other})")
    if len(names) > 1:
        more = []
        if res[0] == "ok":
            for _ in range(4):
                more += container_failures(env, names, anc, res, chk.rng)[:2]
            more += entry_point_failures(env, names, anc, res, chk.rng)[:3] + ambient_failures(env, names, anc, res)
        else:
            more += refusal_entry_point_failures(env, names, anc, res, expected_refusal(names, anc)[1])[:2]
        more += renaming_failures(env, names, anc, res)[:1] + inconsistent_key_failures(env, names, anc, chk.rng)[:2]
        for f in more:
            chk.impl_failure(case, f)
    if lean_units(names, anc) <= 2e8:
        line, ranked = to_line(names, anc)
        out = chk.model([line])
        if out[0] != canon_impl(res, ranked):
            chk.disagree(case, canon_impl(res, ranked), out[0], "construction result")
    chk.case(tuple(names), sample=case)
