"""C15 — dependency-graph construction is exact.

Correspondence: the real `leaspy.variables.dag.VariablesDAG` against `Model/Dag.lean` (drivers/C15.lean)
on (i) every digraph on <=3 (quick) / <=4 (thorough) labelled nodes incl. self-loops, (ii) references to
unknown nodes, (iii) random graphs up to 20 nodes under random renamings, (iv) the graphs of every
shipped model kind.  The property predicate (topological order, exact closures in order, refusal iff
cyclic / self-referential / unknown / isolated, determinism) is evaluated on the implementation with an
independent reachability computation.
"""
from __future__ import annotations

import itertools
import json
import warnings

from . import core
from .core import fmt_list, split_ne

PROP = "C15"
LEAN = dict(
    props="LeaspyVerif.Props.C15",
    driver="drivers/C15.lean",
    harness="c15_dag.py",
    extra_modules=["LeaspyVerif.Model.Dag"],
    theorems=["order_topological", "order_perm_nodes", "children_exact", "ancestors_exact",
              "children_in_order", "ancestors_in_order", "accepts_iff", "refused_input_iff", "refused_value_iff",
              "loop_terminates", "deterministic"],
    trusted_extra=["python string ordering of node names = rank used by the model (names are ranked by the harness with python's sorted())"],
    assumptions=["direct ancestors are sets (frozenset in the code): the harness sends de-duplicated ancestor lists"],
)

MODEL_KINDS = [
    ("logistic", dict(dimension=3, source_dimension=2)),
    ("logistic", dict(dimension=1)),
    ("logistic", dict(dimension=3, source_dimension=2, obs_models="gaussian-scalar")),
    ("logistic", dict(dimension=2, source_dimension=1, obs_models="bernoulli")),
    ("linear", dict(dimension=2, source_dimension=1)),
    ("linear", dict(dimension=1)),
    ("shared_speed_logistic", dict(dimension=3, source_dimension=2)),
    ("joint", dict(dimension=2, source_dimension=1)),
    ("joint", dict(dimension=1)),
    ("mixture_logistic", dict(dimension=3, source_dimension=2, n_clusters=2)),
]


def _imports():
    warnings.filterwarnings("ignore")
    import leaspy.models  # noqa: F401
    from leaspy.exceptions import LeaspyInputError
    from leaspy.variables.dag import VariablesDAG
    return VariablesDAG, LeaspyInputError


class _V:  # stand-in variable spec (only its type is used by the DAG, for stratification)
    pass


def run_impl(env, names, anc, insertion_order=None):
    """names: list of node names; anc: dict name -> set of names. Returns canonical outcome."""
    VariablesDAG, LIE = env
    order = insertion_order or names
    variables = {n: _V() for n in order}
    direct = {n: frozenset(anc[n]) for n in order}
    try:
        dag = VariablesDAG(variables, direct_ancestors=direct)
    except LIE:
        return ("err:input",)
    except ValueError:
        return ("err:value",)
    except Exception as e:  # noqa
        return (f"err:other:{type(e).__name__}",)
    try:
        return ("ok", tuple(dag.sorted_variables_names),
                {n: tuple(dag.sorted_children.get(n, ("<missing>",))) for n in names},
                {n: tuple(dag.sorted_ancestors.get(n, ("<missing>",))) for n in names})
    except Exception as e:  # noqa  (a constructed graph whose tables cannot even be read)
        return ("ok", tuple(getattr(dag, "sorted_variables_names", ())), {n: ("<unreadable>",) for n in names},
                {n: ("<unreadable>",) for n in names})


def definitions_untouched(env, names, anc, kind):
    """The construction is a function of the definitions and leaves them alone: dependency sets given as plain `set`s (or
    frozensets), read back afterwards, then used for a second construction.  Returns a list of failures."""
    VariablesDAG, LIE = env
    mk = {"set": set, "frozenset": frozenset, "mixed": None}[kind]
    variables = {n: _V() for n in names}
    direct = {n: (mk(anc[n]) if mk else (set(anc[n]) if i % 2 else frozenset(anc[n]))) for i, n in enumerate(names)}
    fails = []
    try:
        dag = VariablesDAG(variables, direct_ancestors=direct)
        first = (tuple(dag.sorted_variables_names), {n: tuple(dag.sorted_children[n]) for n in names},
                 {n: tuple(dag.sorted_ancestors[n]) for n in names})
    except Exception as e:  # noqa
        return [f"accepted definitions refused when the dependency sets are given as {kind}: {type(e).__name__}: {str(e)[:100]}"]
    changed = [n for n in names if set(direct[n]) != set(anc[n])]
    if changed:
        fails.append(f"the construction modified the caller's definitions (dependency sets given as {kind}): {changed[:4]}")
    try:
        wrong = [n for n in names if set(dag.direct_ancestors[n]) != set(anc[n])]
        if wrong:
            fails.append(f"the graph reports direct dependencies {dict((n, sorted(dag.direct_ancestors[n])) for n in wrong[:3])} "
                         f"for definitions {dict((n, sorted(anc[n])) for n in wrong[:3])} (sets given as {kind})")
    except Exception as e:  # noqa
        fails.append(f"direct dependencies of the constructed graph cannot be read: {type(e).__name__}")
    if not changed:
        try:
            dag2 = VariablesDAG({n: _V() for n in names}, direct_ancestors=direct)
            second = (tuple(dag2.sorted_variables_names), {n: tuple(dag2.sorted_children[n]) for n in names},
                      {n: tuple(dag2.sorted_ancestors[n]) for n in names})
            if second != first:
                fails.append(f"a second construction from the same definitions gives another graph (sets given as {kind})")
        except Exception as e:  # noqa
            fails.append(f"a second construction from the same definitions is refused: {type(e).__name__}: {str(e)[:100]}")
    return fails


def reach(names, anc):
    """Independent transitive closure: desc[a] = set of nodes reachable from a by >=1 edge (a -> child)."""
    children = {n: set() for n in names}
    for m in names:
        for a in anc[m]:
            if a in children:
                children[a].add(m)
    desc = {}
    for a in names:
        seen, todo = set(), list(children[a])
        while todo:
            x = todo.pop()
            if x not in seen:
                seen.add(x)
                todo.extend(children[x])
        desc[a] = seen
    return children, desc


def expected_refusal(names, anc):
    s = set(names)
    children, desc = reach(names, anc)
    unknown = any(a not in s for m in names for a in anc[m])
    selfloop = any(m in anc[m] for m in names)
    isolated = any(len(anc[m]) == 0 and len(children[m]) == 0 for m in names)
    cyclic = any(a in desc[a] for a in names)
    return unknown or selfloop or isolated or cyclic, dict(unknown=unknown, selfloop=selfloop, isolated=isolated, cyclic=cyclic)


def predicate(names, anc, res):
    fails = []
    refuse, why = expected_refusal(names, anc)
    if res[0] != "ok":
        if not refuse:
            fails.append(f"valid definitions refused ({res[0]})")
        return fails, why
    if refuse:
        fails.append(f"definitions accepted although {[k for k, v in why.items() if v]}")
        return fails, why
    _, order, ch, an = res
    pos = {n: i for i, n in enumerate(order)}
    if sorted(order) != sorted(names):
        fails.append("order is not a permutation of the variables")
        return fails, why
    if any(x not in pos for v in list(ch.values()) + list(an.values()) for x in v):
        fails.append("dependents / dependencies tables are missing entries or name non-variables")
        return fails, why
    for m in names:
        for a in anc[m]:
            if pos[a] >= pos[m]:
                fails.append(f"{m} listed before its dependency {a}")
    _, desc = reach(names, anc)
    for a in names:
        if set(ch[a]) != desc[a] or len(set(ch[a])) != len(ch[a]):
            fails.append(f"transitive dependents of {a}: {ch[a]} != {sorted(desc[a])}")
        elif [pos[x] for x in ch[a]] != sorted(pos[x] for x in ch[a]):
            fails.append(f"dependents of {a} not in graph order")
        want_anc = {b for b in names if a in desc[b]}
        if set(an[a]) != want_anc or len(set(an[a])) != len(an[a]):
            fails.append(f"transitive dependencies of {a}: {an[a]} != {sorted(want_anc)}")
        elif [pos[x] for x in an[a]] != sorted(pos[x] for x in an[a]):
            fails.append(f"dependencies of {a} not in graph order")
    return fails, why


def to_line(names, anc):
    """Rank names (python sorted) and emit the driver request. Unknown names get ranks >= n."""
    ranked = sorted(names)
    rank = {n: i for i, n in enumerate(ranked)}
    unknown = sorted({a for m in names for a in anc[m]} - set(names))
    for k, u in enumerate(unknown):
        rank[u] = len(ranked) + k
    if not ranked:
        return "build anc=-", ranked
    rows = [fmt_list(sorted(rank[a] for a in anc[m])) for m in ranked]
    return "build anc=" + ";".join(rows), ranked


def canon_impl(res, ranked):
    if res[0] != "ok":
        return res[0]
    rank = {n: i for i, n in enumerate(ranked)}
    rank.update({"<missing>": "missing", "<unreadable>": "unreadable"})
    _, order, ch, an = res
    return "ok order=%s ch=%s an=%s" % (
        fmt_list(rank[x] for x in order),
        ";".join(fmt_list(rank[x] for x in ch[m]) for m in ranked),
        ";".join(fmt_list(rank[x] for x in an[m]) for m in ranked))


def case_json(names, anc):
    return {"names": list(names), "ancestors": {n: sorted(anc[n]) for n in names}}


# ----------------------------------------------------------------- generators
def all_digraphs(k):
    names = [f"v{i}" for i in range(k)]
    pairs = [(a, b) for a in range(k) for b in range(k)]
    for bits in range(1 << len(pairs)):
        anc = {n: set() for n in names}
        for j, (a, b) in enumerate(pairs):
            if bits >> j & 1:
                anc[names[b]].add(names[a])
        yield names, anc


def random_name(rng, used):
    alphabet = "abcXYZ_09z"
    while True:
        s = "".join(rng.choice(alphabet) for _ in range(rng.randrange(1, 6)))
        if used and rng.random() < 0.3:
            # a name that differs from an existing one only by the case of its letters (x / X, sigma / Sigma): distinct variables
            t = rng.choice(sorted(used))
            s = rng.choice([t.swapcase(), t.upper(), t.lower(), t.capitalize()])
        if s not in used:
            used.add(s)
            return s


def random_graph(rng, kmax=20):
    k = rng.randrange(2, kmax + 1)
    used = set()
    names = [random_name(rng, used) for _ in range(k)]
    perm = names[:]
    rng.shuffle(perm)  # hidden topological order
    p = rng.choice([0.1, 0.2, 0.35, 0.6])
    anc = {n: set() for n in names}
    for i in range(k):
        for j in range(i + 1, k):
            if rng.random() < p:
                anc[perm[j]].add(perm[i])
    kind = "dag"
    r = rng.random()
    if r < 0.15:  # one back edge -> very likely a cycle
        i, j = sorted(rng.sample(range(k), 2))
        anc[perm[i]].add(perm[j])
        kind = "backedge"
    elif r < 0.2:
        anc[rng.choice(names)].add("ZZ_unknown")
        kind = "unknown"
    elif r < 0.25:
        n = rng.choice(names)
        anc[n].add(n)
        kind = "selfloop"
    return names, anc, kind


def model_graphs():
    import leaspy.models  # noqa
    from leaspy.models import model_factory
    from leaspy.variables.dag import VariablesDAG
    out = []
    for name, kw in MODEL_KINDS:
        try:
            m = model_factory(name, **kw)
            specs = m.get_variables_specs()
            dag = VariablesDAG.from_dict(specs)
        except Exception as e:  # noqa
            out.append((name, kw, None, f"{type(e).__name__}: {e}"))
            continue
        names = list(dag.variables.keys())
        anc = {n: set(dag.direct_ancestors[n]) for n in names}
        out.append((name, kw, (names, anc, dag), None))
    return out


def incremental_definitions(chk, only=None):
    """The graph is a function of the definitions, not of the way the collection of definitions was assembled: the same
    definitions given in two or three instalments (the collection being read in between, as `dict(specs)` / `.items()` do) must
    give exactly the graph obtained from the definitions given at once."""
    import leaspy.models  # noqa
    from leaspy.models import model_factory
    from leaspy.variables.dag import VariablesDAG
    for name, kw in (MODEL_KINDS if only is None else [(only[0], only[1])]):
        try:
            m = model_factory(name, **kw)
            specs = m.get_variables_specs()
            ref = VariablesDAG.from_dict(specs)
            items = list(specs.data.items())
        except Exception:  # noqa  (reported by model_graphs)
            continue
        want = (tuple(ref.sorted_variables_names), {n: tuple(v) for n, v in ref.sorted_children.items()},
                {n: tuple(v) for n, v in ref.sorted_ancestors.items()}, {n: frozenset(v) for n, v in ref.direct_ancestors.items()})
        cuts = sorted(set(chk.rng.sample(range(1, len(items)), min(len(items) - 1, 6 if chk.tier == "quick" else 16)))) if len(items) > 1 else []
        if only is not None:
            cuts = [only[2]]
        for cut in cuts:
            case = {"model": name, "kw": kw, "instalments": [cut, len(items) - cut]}
            try:
                part = type(specs)()
                for k, v in items[:cut]:
                    if k not in part.data:   # implicit companions (statistics, regularity terms) come with their owner
                        part[k] = v
                list(part.items())          # the collection is read while incomplete (automatic variables included)
                _ = dict(part)
                for k, v in items[cut:]:
                    if k not in part.data:
                        part[k] = v
                dag = VariablesDAG.from_dict(part)
                got = (tuple(dag.sorted_variables_names), {n: tuple(v) for n, v in dag.sorted_children.items()},
                       {n: tuple(v) for n, v in dag.sorted_ancestors.items()}, {n: frozenset(v) for n, v in dag.direct_ancestors.items()})
            except Exception as e:  # noqa
                chk.impl_failure(case, f"definitions given in two instalments are refused: {type(e).__name__}: {str(e)[:150]}")
                continue
            if got != want:
                what = ("order" if got[0] != want[0] else "dependents" if got[1] != want[1] else "dependencies" if got[2] != want[2]
                        else "direct dependencies")
                bad = [n for n in want[3] if got[3].get(n) != want[3][n]][:3]
                chk.impl_failure(case, f"the graph of definitions given in two instalments (first {cut}, read, then the rest) differs from the "
                                       f"graph of the same definitions given at once: {what}" + (f" of {bad}" if bad else ""))
            chk.case(("instalments", name, json.dumps(kw, sort_keys=True), cut), nontrivial=True, tags={"part": "instalments", "model": name})


def run(chk: core.Check):
    env = _imports()
    rng = chk.rng
    chk.rule = ("every digraph (self-loops included) on <=3 (quick) / <=4 (thorough) labelled nodes, exhaustively; graphs referring "
                "to unknown nodes; random graphs of 2..20 nodes with random names (hidden topological order + optional back edge / "
                "unknown / self reference); graphs of every shipped model kind. Non-trivial = accepted graph with >=1 node having "
                ">=2 transitive dependents, or a refused graph; distinct by (names, edges).")
    cases = []  # (names, anc, tag)
    for c in core.load_corpus(PROP):
        cases.append((c["names"], {k: set(v) for k, v in c["ancestors"].items()}, "corpus"))
    kmax = 4 if chk.tier == "thorough" else 3
    for k in range(0, kmax + 1):
        for names, anc in all_digraphs(k):
            cases.append((names, anc, f"exhaustive{k}"))
    # unknown references on small graphs
    for names, anc in itertools.islice(all_digraphs(2), 16):
        anc2 = {n: set(v) for n, v in anc.items()}
        anc2[names[0]].add("nope")
        cases.append((names, anc2, "unknown-small"))
    for _ in range(2000 if chk.tier == "thorough" else 300):
        names, anc, kind = random_graph(rng)
        cases.append((names, anc, "random-" + kind))
    # long dependency chains (with and without shortcut edges, late roots), 2..24 nodes
    for k in range(2, 25 if chk.tier == "thorough" else 17):
        names = [f"c{j:02d}" for j in range(k)]
        rng.shuffle(names)
        anc = {n: set() for n in names}
        for j in range(1, k):
            anc[names[j]].add(names[j - 1])
        cases.append((names, {n: set(v) for n, v in anc.items()}, "chain-plain"))
        anc2 = {n: set(v) for n, v in anc.items()}
        for _ in range(rng.randrange(1, 4)):
            a, b = sorted(rng.sample(range(k), 2))
            anc2[names[b]].add(names[a])
        cases.append((names, anc2, "chain-shortcuts"))
    incremental_definitions(chk)
    mg = model_graphs()
    for name, kw, g, err in mg:
        if g is None:
            chk.note(f"model kind {name} {kw} could not be instantiated: {err}")
            continue
        names, anc, dag = g
        cases.append((names, anc, f"model-{name}"))
        # the DAG built by from_dict itself must agree with a rebuild from its own edges
        res = ("ok", tuple(dag.sorted_variables_names), {n: tuple(dag.sorted_children[n]) for n in names},
               {n: tuple(dag.sorted_ancestors[n]) for n in names})
        fails, _ = predicate(names, anc, res)
        for f in fails[:2]:
            chk.impl_failure({"model": name, "kw": kw}, "from_dict graph: " + f)

    lines, impl_canon, keep = [], [], []
    for names, anc, tag in cases:
        res = run_impl(env, names, anc)
        fails, why = predicate(names, anc, res)
        cj = case_json(names, anc)
        for f in fails[:2]:
            chk.impl_failure(cj, f)
        # determinism: other insertion orders of the same definitions
        if res[0] == "ok" and len(names) > 1 and (tag.startswith("random") or tag.startswith("model") or len(names) == 3):
            for f in definitions_untouched(env, names, anc, rng.choice(["set", "set", "frozenset", "mixed"]))[:2]:
                chk.impl_failure(cj, f)
            sh = names[:]
            rng.shuffle(sh)
            for other in (sh, names[::-1]):
                res2 = run_impl(env, names, anc, insertion_order=other)
                if res2 != res:
                    chk.impl_failure(cj, f"result depends on the insertion order of the definitions ({other})")
                    break
        line, ranked = to_line(names, anc)
        lines.append(line)
        impl_canon.append(canon_impl(res, ranked))
        keep.append(cj)
        nontriv = res[0] != "ok"
        if res[0] == "ok":
            nontriv = any(len(v) >= 2 for v in res[2].values())
        chk.case((tuple(names), tuple(sorted((k, tuple(sorted(v))) for k, v in anc.items()))), nontrivial=nontriv,
                 sample=(cj if (tag.startswith("random") and len(names) <= 5) else None),
                 tags={"family": tag.split("-")[0] if not tag.startswith("exhaustive") else tag, "outcome": res[0],
                       "size": min(len(names), 21) // 5 * 5})
    out = chk.model(lines)
    for cj, a, b in zip(keep, impl_canon, out):
        if a != b:
            chk.disagree(cj, a, b, "construction result")
    chk.exhaustive = True
    chk.extra_cov["exhaustive_scope"] = f"all digraphs with self-loops on <= {kmax} labelled nodes"


def replay(chk: core.Check, payload):
    env = _imports()
    case = payload.get("case") or (payload.get("disagreements") or [{}])[0].get("case")
    if case and "instalments" in case:
        incremental_definitions(chk, only=(case["model"], case["kw"], case["instalments"][0]))
        return
    if not case or "names" not in case:
        chk.note("replay file has no graph case")
        return
    names = case["names"]
    anc = {k: set(v) for k, v in case["ancestors"].items()}
    res = run_impl(env, names, anc)
    fails, _ = predicate(names, anc, res)
    for f in fails:
        chk.impl_failure(case, f)
    if res[0] == "ok":
        for kind in ("set", "frozenset", "mixed"):
            for f in definitions_untouched(env, names, anc, kind)[:2]:
                chk.impl_failure(case, f)
        for other in (names[::-1],):
            if run_impl(env, names, anc, insertion_order=other) != res:
                chk.impl_failure(case, f"result depends on the insertion order of the definitions ({other})")
    line, ranked = to_line(names, anc)
    out = chk.model([line])
    if out[0] != canon_impl(res, ranked):
        chk.disagree(case, canon_impl(res, ranked), out[0], "construction result")
    chk.case(tuple(names), sample=case)
