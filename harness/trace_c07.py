"""C07 — tracer: the individual-level computations of leaspy as a program, regenerated from the code on every run.

`Tracer` is a `torch.overrides.TorchFunctionMode`: while the REAL code computes something on a real `State`, every
torch function / Tensor method that is executed is recorded.  Tensors are identified by `id()` (every tensor seen is
kept alive), so the dataflow between operations is reconstructed exactly as the objects flowed:

  * a tensor that enters an operation without having been produced by a recorded one is an *input* (leaf); it is
    classified from the `State`: `I` = value of an individual latent variable / value or weight of a data variable /
    a position-indexed random draw created inside the traced region (axis 0 = individuals), `P` = value of a variable
    without individual-level ancestor, `U` = anything the tracer can not vouch for (a cached value with individual-level
    ancestors, a foreign tensor one of whose axes has the batch size);
  * the result of an operation whose tensor arguments are all `P` is `P` again (it is emitted as an input, with its value,
    when an individual-level operation consumes it): population-only sub-computations are not part of the program;
  * everything else is emitted as one IR node: the torch name mapped *syntactically* to an IR operation with the
    parameters of the call (dims as given, index expression, recorded output shape).  Whether the operation acts row by
    row on axis 0 is NOT decided here: that is the table `Trace.lowerOp` on the Lean side;
  * a tensor turned into a python value (`bool(x)`, `x.item()`, `torch.equal`, …) is an `E` node with its call site;
    sites of pure assertions are whitelisted (`ASSERT_SITES`), any other escape of a non-`P` value makes the analysis fail;
  * in-place operations and anything unknown are emitted as `unknown.<torch name>` (fail-closed on the Lean side).

What this module does not know: python numbers derived from shapes (`x.shape[0]`) enter the program as constants — they
are found by comparing the programs recorded on cohorts of different sizes (`skeleton`).
"""
from __future__ import annotations

import struct
import sys

import torch
from torch.overrides import TorchFunctionMode, resolve_name

ASSERT_SITES = {
    ("_weighted_tensor.py", "__post_init__"),     # assert (weight >= 0).all()
    ("_weighted_tensor.py", "_apply_operation"),  # torch.equal(a.weight, b.weight) else NotImplementedError
    ("distribution.py", "__init__"),              # torch.distributions: `if not valid.all(): raise ValueError` (validate_args)
    ("distribution.py", "_validate_sample"),      # torch.distributions: support check of log_prob's argument, raises ValueError
}

EW_BIN = {"add": "add", "sub": "sub", "mul": "mul", "div": "div", "true_divide": "div", "pow": "pow",
          "ge": "ge", "gt": "gt", "le": "le", "lt": "lt", "eq": "eq", "ne": "ne",
          "greater_equal": "ge", "greater": "gt", "less_equal": "le", "less": "lt", "not_equal": "ne",
          "logical_and": "and", "logical_or": "or", "bitwise_and": "and", "bitwise_or": "or",
          "maximum": "maximum", "minimum": "minimum",
          "__add__": "add", "__sub__": "sub", "__mul__": "mul", "__truediv__": "div", "__pow__": "pow",
          "__ge__": "ge", "__gt__": "gt", "__le__": "le", "__lt__": "lt", "__eq__": "eq", "__ne__": "ne",
          "__and__": "and", "__or__": "or"}
EW_RBIN = {"__radd__": "add", "__rsub__": "sub", "__rmul__": "mul", "__rtruediv__": "div", "__rpow__": "pow",
           "__rand__": "and", "__ror__": "or"}
EW_UN = {"exp": "exp", "log": "log", "log1p": "log1p", "sigmoid": "sigmoid", "neg": "neg", "negative": "neg",
         "__neg__": "neg", "abs": "abs", "__abs__": "abs", "sqrt": "sqrt", "sign": "sign", "square": "square",
         "clone": "id", "detach": "id", "contiguous": "id", "float": "id", "double": "id",
         "logical_not": "not", "__invert__": "not", "bitwise_not": "not",
         "ones_like": "fill1", "zeros_like": "fill0"}
REDS = {"sum": "sum", "mean": "mean", "prod": "prod", "all": "all", "any": "any", "amax": "max", "amin": "min",
        "_is_all_true": "all", "max": "max", "min": "min", "median": "median"}
INPLACE_EW = {"__imul__": "mul", "__iadd__": "add", "__isub__": "sub", "__itruediv__": "div",
              "mul_": "mul", "add_": "add", "sub_": "sub", "div_": "div"}
DRAWS = {"randn", "rand", "normal", "randn_like", "rand_like"}
ESCAPES = {"__bool__", "item", "tolist", "__float__", "__int__", "__index__", "numpy", "equal", "allclose",
           "is_nonzero", "__contains__", "__array__", "__iter__"}


def fbits(x: float) -> str:
    return "f%d" % struct.unpack("<Q", struct.pack("<d", float(x)))[0]


def shp(s) -> str:
    s = tuple(int(d) for d in s)
    return "x".join(str(d) for d in s) if s else "_"


def tdata(t) -> str:
    v = t.detach().to(torch.float64).reshape(-1).tolist()
    return ",".join(fbits(x) for x in v) if v else "_"


class Node:
    __slots__ = ("kind", "k", "shape", "op", "args", "params", "data", "site", "is_assert", "call", "name", "dtype")

    def __init__(self, kind, **kw):
        self.kind = kind
        for s in self.__slots__[1:]:
            setattr(self, s, kw.get(s))

    def text(self) -> str:
        if self.kind in "PIUJ":
            return f"{self.kind}|{self.k}|{shp(self.shape)}"
        if self.kind == "K":
            return f"K|{shp(self.shape)}|{self.data}"
        if self.kind == "E":
            return f"E|{self.args[0]}|{1 if self.is_assert else 0}"
        a = ",".join(str(x) for x in self.args) if self.args else "_"
        return f"O|{self.op}|{a}|{shp(self.shape)}|{self.params if self.params not in (None, '') else '_'}"

    def skeleton(self) -> str:
        """The node without shapes (constants: scalar values only)."""
        if self.kind in "PIUJ":
            return f"{self.kind}|{self.name}"
        if self.kind == "K":
            return f"K|{self.data if len(tuple(self.shape)) == 0 else 'tensor'}"
        if self.kind == "E":
            return f"E|{self.args[0]}|{1 if self.is_assert else 0}|{self.site}"
        return f"O|{self.op}|{','.join(str(x) for x in self.args)}|{self.params}"


class Tracer(TorchFunctionMode):
    def __init__(self, n: int, leafmap: dict, keepalive=()):
        super().__init__()
        self.n = n
        self.leafmap = dict(leafmap)          # id(tensor) -> (class, name)
        self.keep = list(keepalive)           # every tensor seen stays alive: ids are never re-used
        self.nodes: list[Node] = []
        self.node_of_id: dict[int, int] = {}  # id(tensor) -> node index (emitted nodes)
        self.pop_ids: dict[int, object] = {}  # id(tensor) -> tensor, class P, not (yet) emitted
        self.leaf_vals = {"P": [], "I": [], "U": []}      # `J` inputs (individuals on axis 1) are numbered with the `I` ones
        self.ver: dict[int, int] = {}         # id(tensor) -> tensor._version when its node was bound
        self.unknown_ops: dict[str, int] = {}
        self.ambient = 0
        self.n_calls = 0
        self.n_pop_only = 0

    # ------------------------------------------------------------------ bookkeeping
    def _emit(self, node: Node, tensor=None) -> int:
        self.nodes.append(node)
        i = len(self.nodes) - 1
        if tensor is not None:
            self.keep.append(tensor)
            self.node_of_id[id(tensor)] = i
            self.ver[id(tensor)] = tensor._version
            self.pop_ids.pop(id(tensor), None)
        return i

    def _emit_leaf(self, cls, name, t) -> int:
        store = "I" if cls == "J" else cls
        k = len(self.leaf_vals[store])
        self.leaf_vals[store].append(t.detach().clone())
        return self._emit(Node(cls, k=k, shape=tuple(t.shape), name=name, dtype=str(t.dtype)), t)

    def _is_pop(self, t) -> bool:
        i = id(t)
        if i in self.node_of_id:
            return self.nodes[self.node_of_id[i]].kind == "P"
        if i in self.pop_ids:
            return True
        return self._leaf_class(t)[0] == "P"

    def _leaf_class(self, t):
        c = self.leafmap.get(id(t))
        if c is not None:
            return c
        # a tensor that exists outside the State and was not produced inside the traced region: population-level only if
        # none of its axes has the batch size (cohort sizes are chosen different from every other extent)
        if any(int(d) == self.n for d in t.shape):
            return ("U", "foreign")
        return ("P", "ambient")

    def node(self, t) -> int:
        """Node of a tensor argument (emitting an input node when it has none yet)."""
        i = id(t)
        if i in self.node_of_id:
            if self.ver.get(i) != t._version:
                # the storage was modified behind the recorded node (through an alias / a view): its node is not its value
                return self._emit_leaf("U", "stale-alias", t)
            return self.node_of_id[i]
        if i in self.pop_ids:
            return self._emit_leaf("P", "computed", t)
        cls, name = self._leaf_class(t)
        if name == "ambient":
            self.ambient += 1
        return self._emit_leaf(cls, name, t)

    def const(self, x) -> int:
        v = float(x)
        return self._emit(Node("K", shape=(), data=fbits(v)))

    def operand(self, x) -> int:
        return self.node(x) if isinstance(x, torch.Tensor) else self.const(x)

    @staticmethod
    def _site():
        """(file, function) of the python frame in which the tensor was turned into a python value — the innermost
        frame that is not this tracer / torch's dispatch plumbing — and of the first frame outside torch."""
        f = sys._getframe(2)
        inner = None
        while f is not None:
            fn = f.f_code.co_filename
            if not fn.endswith("trace_c07.py") and not fn.endswith("torch/overrides.py") and not fn.endswith("torch/_tensor.py"):
                here = (fn.rsplit("/", 1)[-1], f.f_code.co_name)
                if inner is None:
                    inner = here
                if "/torch/" not in fn:
                    return inner, here
            f = f.f_back
        return inner or ("?", "?"), ("?", "?")

    # ------------------------------------------------------------------ the hook
    def __torch_function__(self, func, types, args=(), kwargs=None):
        kwargs = kwargs or {}
        out = func(*args, **kwargs)
        try:
            full = resolve_name(func) or getattr(func, "__name__", str(func))
        except Exception:  # noqa
            full = getattr(func, "__name__", str(func))
        self.n_calls += 1
        tens = []

        def collect(x):
            if isinstance(x, torch.Tensor):
                tens.append(x)
            elif isinstance(x, (list, tuple)):
                for y in x:
                    collect(y)
        collect(args)
        collect(list(kwargs.values()))
        outs = [out] if isinstance(out, torch.Tensor) else \
            ([o for o in out if isinstance(o, torch.Tensor)] if isinstance(out, (list, tuple)) else [])
        short = full.split(".")[-1]
        if short == "__get__":
            short = full.split(".")[-2] + ".get"
            if not outs:
                return out          # shape / dtype / device / ndim …: not data
        inplace = short == "__setitem__" or (short.endswith("_") and not short.endswith("__")) or \
            (short.startswith("__i") and short.endswith("__") and short not in ("__invert__", "__index__", "__int__", "__iter__"))
        if not inplace:
            # an output that IS one of the arguments (`x.to(same dtype)`, `broadcast_tensors` without expansion) is that tensor
            outs = [o for o in outs if not any(o is a for a in tens)]
        all_pop = all(self._is_pop(t) for t in tens)
        # ---- factories and population-only computations
        if not tens:
            for o in outs:
                self.keep.append(o)
                if short in DRAWS and o.dim() >= 1 and o.shape[0] == self.n:
                    self.leafmap[id(o)] = ("I", f"draw:{short}")
                else:
                    self.pop_ids[id(o)] = o
            return out
        if all_pop:
            self.n_pop_only += 1
            if inplace:
                t0 = tens[0]
                i = self.node_of_id.pop(id(t0), None)   # its emitted snapshot (if any) is no longer its value
                self.keep.append(t0)
                self.pop_ids[id(t0)] = t0
                if id(t0) in self.leafmap:
                    self.leafmap[id(t0)] = ("P", "mutated")
            for o in outs:
                if id(o) not in self.node_of_id:
                    self.keep.append(o)
                    self.pop_ids[id(o)] = o
            return out
        # ---- escapes to python
        if short in ESCAPES and not isinstance(out, torch.Tensor):
            inner, outer = self._site()
            for t in tens:
                if not self._is_pop(t):
                    self._emit(Node("E", args=[self.node(t)], site=f"{inner[0]}:{inner[1]}<{outer[0]}:{outer[1]}",
                                    is_assert=inner in ASSERT_SITES))
            return out
        if not outs and not inplace:
            return out
        if inplace and not outs:
            outs = [tens[0]]
        # ---- an individual-level operation
        try:
            spec = self._translate_inplace(short, args, kwargs) if inplace else self._translate(short, full, args, kwargs, out, outs)
        except Exception:  # noqa  (an unexpected call signature: fail closed)
            spec = None
        if spec is None:
            self.unknown_ops[full] = self.unknown_ops.get(full, 0) + 1
            a = [self.node(t) for t in tens]
            targets = list(outs)
            if inplace and not any(tens[0] is o for o in targets):
                targets.append(tens[0])
            for o in targets:
                self.node_of_id.pop(id(o), None)
                self._emit(Node("O", op=f"unknown.{full}", args=a, shape=tuple(o.shape), params=None,
                                call=None), o)
            return out
        for (op, a, params, o) in spec:
            self._emit(Node("O", op=op, args=a, shape=tuple(o.shape), params=params,
                            call=None if inplace else (func, args, kwargs), dtype=str(o.dtype)), o)
        return out

    # ------------------------------------------------------------------ in-place operations: the new value of the target
    def _translate_inplace(self, short, args, kwargs):
        """`x op= y`, `x.clamp_(…)`, `x[mask] = v` as the out-of-place operation whose result becomes the node of `x`.
        Only for tensors that own their storage (a write through a view changes its base: not in the table)."""
        T = torch.Tensor
        x = args[0]
        if not isinstance(x, T) or x._base is not None or id(x) not in self.node_of_id:
            return None         # a view, or a tensor whose value before the write was never recorded
        old = self.node_of_id[id(x)]    # (the operation has already run: no version check on the target itself)
        if short in INPLACE_EW and len(args) == 2 and not kwargs:
            return [(f"ew.{INPLACE_EW[short]}", [old, self.operand(args[1])], None, x)]
        if short == "clamp_":
            lo = kwargs.get("min", args[1] if len(args) > 1 else None)
            hi = kwargs.get("max", args[2] if len(args) > 2 else None)
            steps = [(nm, b) for nm, b in (("maximum", lo), ("minimum", hi)) if b is not None]
            if not steps:
                return None
            cur = old
            res = []
            for q, (nm, b) in enumerate(steps):
                if q == len(steps) - 1:
                    res.append((f"ew.{nm}", [cur, self.operand(b)], None, x))
                else:
                    tmp = x.detach().clone()
                    cur = self._emit(Node("O", op=f"ew.{nm}", args=[cur, self.operand(b)], shape=tuple(x.shape), params=None), tmp)
            return res
        if short == "__setitem__" and len(args) == 3 and isinstance(args[1], T) and args[1].dtype == torch.bool:
            return [("mscatter", [old, self.node(args[1]), self.operand(args[2])], None, x)]
        return None

    # ------------------------------------------------------------------ torch name -> IR operation (syntactic)
    def _translate(self, short, full, args, kwargs, out, outs):
        T = torch.Tensor
        one = outs[0] if len(outs) == 1 and isinstance(out, T) else None
        ew = lambda name, ops: [(f"ew.{name}", [self.operand(x) for x in ops], None, one)]  # noqa
        if short in EW_BIN and one is not None and len(args) == 2 and not kwargs:
            return ew(EW_BIN[short], args)
        if short in EW_RBIN and one is not None and len(args) == 2 and not kwargs:
            return ew(EW_RBIN[short], [args[1], args[0]])
        if short in EW_UN and one is not None and len(args) == 1 and not [k for k in kwargs if k not in ("dtype", "memory_format")]:
            if "dtype" in kwargs and kwargs["dtype"] is not None and not (kwargs["dtype"].is_floating_point or kwargs["dtype"] == torch.bool):
                return None
            return ew(EW_UN[short], args)
        if short in ("to", "type") and one is not None:
            dt = [a for a in list(args[1:]) + list(kwargs.values()) if isinstance(a, torch.dtype)]
            others = [a for a in list(args[1:]) + list(kwargs.values()) if not isinstance(a, (torch.dtype, bool, torch.device, str, type(None)))]
            if others:
                return None
            if not dt or dt[0].is_floating_point or args[0].dtype == dt[0]:
                return ew("id", [args[0]])
            if dt[0] == torch.bool:
                return ew("ne", [args[0], 0])
            return None
        if short == "__deepcopy__" and one is not None:
            return ew("id", [args[0]])
        if short == "reciprocal" and one is not None:
            return ew("div", [1.0, args[0]])
        if short == "clamp" and one is not None:
            lo = kwargs.get("min", args[1] if len(args) > 1 else None)
            hi = kwargs.get("max", args[2] if len(args) > 2 else None)
            cur = self.operand(args[0])
            res = []
            steps = [("maximum", lo), ("minimum", hi)]
            steps = [(nm, b) for nm, b in steps if b is not None]
            if not steps:
                return ew("id", [args[0]])
            for q, (nm, b) in enumerate(steps):
                last = q == len(steps) - 1
                if last:
                    res.append((f"ew.{nm}", [cur, self.operand(b)], None, one))
                else:   # intermediate value: a fresh tensor stands for it
                    tmp = one.detach().clone()
                    cur = self._emit(Node("O", op=f"ew.{nm}", args=[cur, self.operand(b)], shape=tuple(one.shape), params=None), tmp)
            return res
        if short == "masked_fill" and one is not None and len(args) == 3 and not kwargs:
            return ew("where", [args[1], args[2], args[0]])
        if short == "where" and one is not None and len(args) == 3 and not kwargs:
            return ew("where", args)
        if short == "binary_cross_entropy_with_logits" and one is not None:
            if kwargs.get("weight") is None and kwargs.get("pos_weight") is None and kwargs.get("reduction", "mean") == "none" and len(args) == 2:
                return ew("bce", args)
            return None
        if short in REDS and one is not None:
            kwargs = {("dim" if k == "axis" else k): v for k, v in kwargs.items()}
            dim = kwargs.get("dim", args[1] if len(args) > 1 else None)
            keep = kwargs.get("keepdim", args[2] if len(args) > 2 else False)
            if [k for k in kwargs if k not in ("dim", "keepdim", "dtype")] or len(args) > 3:
                return None
            if short in ("max", "min", "median") and dim is not None:
                return None          # (values, indices): not in the table
            if dim is None:
                dims = []
            elif isinstance(dim, int):
                dims = [dim]
            else:
                dims = [int(d) for d in dim]
                if not dims:
                    dims = []
            if args[0].dim() == 0:
                return ew("id", [args[0]])
            p = (",".join(str(d) for d in dims) if dims else "_") + ":" + ("1" if keep else "0")
            return [(f"red.{REDS[short]}", [self.node(args[0])], p, one)]
        if short in ("view", "reshape", "flatten", "unflatten", "view_as", "reshape_as") and one is not None:
            return [("view", [self.node(args[0])], None, one)]
        if short == "squeeze" and one is not None:
            d = kwargs.get("dim", args[1] if len(args) > 1 else None)
            if d is not None and not isinstance(d, int):
                return None
            return [("squeeze", [self.node(args[0])], "_" if d is None else str(d), one)]
        if short == "unsqueeze" and one is not None:
            d = kwargs.get("dim", args[1] if len(args) > 1 else None)
            return [("unsqueeze", [self.node(args[0])], str(int(d)), one)]
        if short in ("expand", "expand_as", "broadcast_to") and one is not None:
            return [("expand", [self.node(args[0])], None, one)]
        if short == "broadcast_tensors" and isinstance(out, (tuple, list)) and len(out) == len(args) and all(isinstance(a, T) for a in args):
            return [("expand", [self.node(a)], None, o) for a, o in zip(args, out) if o is not a]
        if short == "__getitem__" and one is not None and isinstance(args[1], T) and args[1].dtype == torch.bool:
            return [("mselect", [self.node(args[0]), self.node(args[1])], None, one)]
        if short == "__getitem__" and one is not None:
            idx = args[1] if isinstance(args[1], tuple) else (args[1],)
            items = []
            for it in idx:
                if it is None:
                    items.append("N")
                elif it is Ellipsis:
                    items.append("E")
                elif isinstance(it, bool):
                    return None
                elif isinstance(it, int):
                    items.append(f"i{it}")
                elif isinstance(it, slice):
                    if not all(x is None or isinstance(x, int) for x in (it.start, it.stop, it.step)) or (it.step is not None and it.step <= 0):
                        return None
                    if it.start is None and it.stop is None and it.step in (None, 1):
                        items.append(":")
                    else:
                        items.append(f"s{'_' if it.start is None else it.start}:{'_' if it.stop is None else it.stop}:{1 if it.step is None else it.step}")
                else:
                    return None      # tensor / list indices: advanced indexing is not in the table
            return [("getitem", [self.node(args[0])], ",".join(items) if items else "_", one)]
        if short in ("cat", "concat", "concatenate", "stack") and one is not None:
            seq = args[0]
            d = kwargs.get("dim", args[1] if len(args) > 1 else 0)
            if not all(isinstance(a, T) for a in seq):
                return None
            return [("stack" if short == "stack" else "cat", [self.node(a) for a in seq], str(int(d)), one)]
        if short in ("matmul", "__matmul__", "mm") and one is not None and len(args) == 2:
            return [("matmul", [self.node(args[0]), self.node(args[1])], None, one)]
        if short == "__rmatmul__" and one is not None and len(args) == 2:
            return [("matmul", [self.node(args[1]), self.node(args[0])], None, one)]
        if short in ("t", "T.get", "mT.get") and one is not None and args[0].dim() == 2:
            return [("transpose", [self.node(args[0])], "0,1", one)]
        if short == "transpose" and one is not None and len(args) == 3:
            return [("transpose", [self.node(args[0])], f"{int(args[1])},{int(args[2])}", one)]
        if short == "softmax" and one is not None:
            d = kwargs.get("dim", args[1] if len(args) > 1 else None)
            if d is None or kwargs.get("dtype") is not None:
                return None
            return [("softmax", [self.node(args[0])], str(int(d)), one)]
        if short == "cumsum" and one is not None:
            d = kwargs.get("dim", args[1] if len(args) > 1 else None)
            if d is None or kwargs.get("dtype") is not None:
                return None
            return [("cumsum", [self.node(args[0])], str(int(d)), one)]
        if short == "data.get" and one is not None:
            return ew("id", [args[0]])
        return None

    # ------------------------------------------------------------------ results
    def preload(self, tensors):
        """Bind the declared inputs now (their values are snapshotted before the traced code can write into them)."""
        for t in tensors:
            self.node(t)

    def out_node(self, t) -> int:
        return self.node(t)

    def program(self, outs: list[int]) -> str:
        return f"outs={','.join(str(o) for o in outs) if outs else '_'} nodes={';'.join(n.text() for n in self.nodes)}"

    def leaf_data(self) -> str:
        f = lambda l: ";".join(tdata(t) for t in l) if l else "_"  # noqa
        return f"pops={f(self.leaf_vals['P'])} inds={f(self.leaf_vals['I'])} unks={f(self.leaf_vals['U'])}"

    def skeleton(self) -> list[str]:
        return [n.skeleton() for n in self.nodes]


# ----------------------------------------------------------------------------------------------
def state_leafmap(env, state):
    """id(tensor) -> (class, name) for every tensor currently held by the State."""
    from leaspy.variables.specs import DataVariable, IndividualLatentVariable
    dag = state.dag
    roots = {n for n in dag if isinstance(dag[n], (DataVariable, IndividualLatentVariable))}
    indiv = set(roots)
    for n in dag:
        if set(dag.sorted_ancestors[n]) & roots:
            indiv.add(n)
    m, keep = {}, []
    for n, v in state._values.items():
        if v is None:
            continue
        ts = [v] if isinstance(v, torch.Tensor) else [x for x in (getattr(v, "value", None), getattr(v, "weight", None)) if isinstance(x, torch.Tensor)]
        for q, t in enumerate(ts):
            cls = "I" if n in roots else ("U" if n in indiv else "P")
            m[id(t)] = (cls, n if q == 0 else f"{n}.weight")
            keep.append(t)
    return m, keep, indiv, roots


def tensors_of(v):
    if isinstance(v, torch.Tensor):
        return [("", v)]
    out = []
    for nm in ("value", "weight"):
        x = getattr(v, nm, None)
        if isinstance(x, torch.Tensor):
            out.append(("." + nm, x))
    return out
