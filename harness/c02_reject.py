"""C02 — a rejected proposal leaves no trace in the state.

(1) sampler-shaped histories (proposal / reads / accept | full revert | per-individual revert) on shadow graphs
    through the real State, compared op by op with `Model/State.lean` (drivers/C01.lean) and checked against the
    independent from-scratch evaluator; the independent value after each decision is compared with
    old / proposed / entry-wise mix;
(2) the REAL samplers (`sample(state, temperature_inv)`) on real model states, natural and forced decisions
    (patched uniform draws: accept all / reject all / every mask), normal and extreme proposal scales:
    after every step the sampled variable must be bitwise old-on-rejected / proposed-on-accepted and every
    variable read must equal bitwise a from-scratch evaluation on a fresh State.
"""
from __future__ import annotations

from . import core
from . import state_common as sc
from .c01_state import MODEL_KINDS, model_shadows, replay_line

PROP = "C02"
LEAN = dict(
    props="LeaspyVerif.Props.C02",
    driver="drivers/C01.lean",
    harness="c02_reject.py + state_common.py",
    extra_modules=["LeaspyVerif.Model.State", "LeaspyVerif.Model.Dag"],
    theorems=["rejected_full", "rejected_partial", "accepted", "revert_without_fork", "unforked_set_drops_fork",
              "ind_sampler_step", "pop_block_step", "pop_sweep", "commutes_of_rowwise", "rejected_partial_rowwise"],
    trusted_extra=[
        "values are abstract in the theorems (a revert selects, it never computes), so extreme / non-finite proposals are covered; "
        "on the real code they are exercised by the real-sampler runs with inflated proposal scales",
        "the samplers' use of revert()/revert(~accepted) is observed on the real classes, not modelled here (sampler arithmetic is C03)",
    ],
    assumptions=["partial reverts are generated only when the documented precondition holds; the real individual sampler only reads "
                 "per-individual terms between proposal and decision (observed)"],
)


def shadow_part(chk, env, shadows, n_hist):
    lines, impl, cases = [], [], []
    for h in range(n_hist):
        if shadows:
            tag, sh = shadows[h % len(shadows)]
        else:
            tag, sh = "toy", sc.random_toy(chk.rng)
        rn = sc.Runner(env, sh, chk.rng)
        try:
            decisions = sampler_history_checked(rn, chk.rng.randrange(3, 12))
        except Exception as e:  # noqa  — every call into leaspy is wrapped (Runner.call): this is a harness bug
            raise core.Infra(f"harness error while driving a history: {type(e).__name__}: {e}")
        line = rn.request_line()
        cj = {"kind": "shadow", "family": tag, "line": line}
        for f in rn.fails[:3]:
            chk.impl_failure(cj, f)
        lines.append(line)
        impl.append(";".join(rn.outs))
        cases.append(cj)
        chk.case(line, nontrivial=(decisions.get("reject", 0) + decisions.get("partial", 0)) >= 1,
                 sample=(cj if len(rn.ops) < 45 else None), tags={"family": tag})
        for k, v in decisions.items():
            chk.tag("decisions", k, v)
    out = chk.model(lines)
    for cj, a, b in zip(cases, impl, out):
        if a != b:
            A, B = a.split(";"), b.split(";")
            idx = next((i for i, (x, y) in enumerate(zip(A, B)) if x != y), min(len(A), len(B)))
            chk.disagree(cj, A[idx] if idx < len(A) else None, B[idx] if idx < len(B) else None, f"op #{idx}")


def sampler_history_checked(rn: sc.Runner, steps):
    """Like state_common.sampler_history, plus the C02 clauses on the independent values themselves."""
    rng, sh = rn.rng, rn.sh
    settable = [n for n in sh.names if sh.by_name[n].kind == "s"]
    counts = {}
    if not settable:
        return counts
    rn.op_mode(0, rng.choice([1, 2]))
    for n in settable:
        rn.op_set(0, n, rn.random_value(n))
    if rng.random() < 0.7:
        rn.op_precompute(0)
    for _ in range(steps):
        n = rng.choice(settable)
        for k in rng.sample(sh.names, min(len(sh.names), rng.randrange(0, 4))):
            rn.op_get(0, k)
        before = rn.indep_of(0)
        if before[n] is not None and rng.random() < 0.5:
            # proposal made the way the samplers make it: out-of-place accumulation of a change (sometimes a zero change)
            change = rn.random_value(n)
            if rng.random() < 0.25:
                change = [[0] * len(r) for r in change]
            rn.op_put_acc(0, n, change)
            prop = [[a + b for a, b in zip(ra, rb)] for ra, rb in zip(before[n], change)]
            counts["by-accumulate"] = counts.get("by-accumulate", 0) + 1
        else:
            prop = rn.random_value(n)
            rn.op_set(0, n, prop)
        decision = rng.choice(["accept", "reject", "partial", "partial"]) if sh.level[n] == "i" else rng.choice(["accept", "reject"])
        pool = sorted(sh.rowlocal(n)) if decision == "partial" else sh.names
        for k in rng.sample(pool, min(len(pool), rng.randrange(0, 5))):
            rn.op_get(0, k)
        mask = None
        if decision == "partial" and rn.partial_revert_allowed(0) is None:
            decision = "reject"
        if decision == "partial":
            mask = [rng.random() < 0.5 for _ in range(sh.nind)]
        # the decision may be taken on a copy made while the proposal is pending (clone keeping the fork): the copy must
        # reject / accept exactly like the original, which is decided afterwards as well
        sids = [0]
        if rng.random() < 0.3:
            rn.op_clone(0, 1, rng.random() < 0.3, True)
            if 1 in rn.states:
                sids = [1, 0]
                counts["decision-on-clone"] = counts.get("decision-on-clone", 0) + 1
        counts[decision] = counts.get(decision, 0) + 1
        for sid in sids:
            where = "" if sid == 0 else " (decided on a clone made with keep_last_fork=True)"
            if decision == "reject":
                rn.op_revert(sid)
            elif decision == "partial":
                rn.op_revert(sid, mask)
            after = rn.indep_of(sid)
            want = dict(before)
            if decision == "accept":
                want[n] = prop
            elif decision == "partial":
                want[n] = None if before[n] is None else [before[n][r] if mask[r] else prop[r] for r in range(sh.nind)]
            if after != want:
                bad = [k for k in want if after.get(k) != want[k]]
                rn.fails.append(f"after a {decision} decision on '{n}'{where} the independent values {bad} are not "
                                f"{'what they were before the proposal' if decision == 'reject' else 'old-on-rejected / proposed-on-accepted'}")
            if rn.states[sid]._last_fork is not None and decision != "accept":
                rn.fails.append(f"a fork is still present after the revert{where}")
            if sid != 0:
                for k in rng.sample(sh.names, min(len(sh.names), rng.randrange(1, 4))):
                    rn.op_get(sid, k)
        for k in rng.sample(sh.names, min(len(sh.names), rng.randrange(1, 6))):
            rn.op_get(0, k)
    for k in sh.names:
        rn.op_get(0, k)
    return counts


# ------------------------------------------------------------------------------------------
def real_sampler_part(chk, env, n_steps):
    torch = env["torch"]
    from leaspy.algo import AlgorithmSettings, algorithm_factory
    rng = chk.rng
    for name, kw in sc.REAL_KINDS:
        for pop_kind in (["Gibbs", "FastGibbs", "Metropolis-Hastings"] if chk.tier == "thorough" else [rng.choice(["Gibbs", "FastGibbs", "Metropolis-Hastings"])]):
            case = {"kind": "real-sampler", "model": name, "kw": kw, "sampler_pop": pop_kind, "seed": chk.seed, "steps": n_steps}
            try:
                model, st, ds = sc.real_state(env, name, kw)
                case["fractional_weights"] = bool(rng.random() < 0.5 and sc.fractional_weights(env, rng, st))
                with core.quiet():
                    algo = algorithm_factory(AlgorithmSettings("mcmc_saem", n_iter=10, seed=chk.seed, progress_bar=False, sampler_pop=pop_kind))
                    st.auto_fork_type = env["StateForkType"].REF
                    algo._initialize_samplers(st, ds)
            except Exception as e:  # noqa
                chk.note(f"real samplers unavailable for {name} {kw} {pop_kind}: {type(e).__name__}: {e}")
                continue
            fails, stats = run_real_samplers(env, rng, st, ds, algo, n_steps)
            for f in fails[:3]:
                chk.impl_failure(case, f)
            chk.case(("real-sampler", name, str(kw), pop_kind, chk.seed), nontrivial=stats.get("rejected", 0) > 0,
                     tags={"family": "real-" + name, "sampler_pop": pop_kind})
            for k, v in stats.items():
                chk.tag("real_decisions", k, v)


def run_real_samplers(env, rng, st, ds, algo, n_steps):
    torch = env["torch"]
    State = env["State"]
    fails, stats = [], {}
    names = list(st.dag.sorted_variables_names)
    n_ind = ds.n_individuals
    orig_setitem = State.__setitem__
    orig_rand = torch.rand
    for step in range(n_steps):
        ind_vars = [v for v, smp in algo.samplers.items() if hasattr(smp, "n_patients")]
        var = rng.choice(ind_vars) if (ind_vars and rng.random() < 0.5) else rng.choice(list(algo.samplers))
        sampler = algo.samplers[var]
        is_ind = hasattr(sampler, "n_patients")
        mode = rng.choice(["natural", "natural", "accept-all", "reject-all", "mask"])
        extreme = rng.random() < 0.3
        ctx = f"step {step} sampler({var}) {mode}{' extreme' if extreme else ''}"
        assigned, decisions = [], []
        old_std = sampler.std.clone()
        if extreme:
            sampler.std = sampler.std * rng.choice([50.0, 1e3, 1e5])

        def rec_set(self, name, value, _orig=orig_setitem):
            if self is st and name == var:
                assigned.append(None if value is None else value.clone())
            return _orig(self, name, value)

        forced = None
        if mode != "natural":
            def fake_rand(*size, **kwargs):
                shape = size[0] if (len(size) == 1 and isinstance(size[0], (tuple, list, torch.Size))) else size
                if mode == "accept-all":
                    return torch.full(tuple(shape), -1.0)
                if mode == "reject-all":
                    return torch.full(tuple(shape), float("inf"))
                m = torch.tensor([rng.random() < 0.5 for _ in range(int(torch.tensor(tuple(shape)).prod()) if len(tuple(shape)) else 1)])
                return torch.where(m, torch.tensor(-1.0), torch.tensor(float("inf"))).reshape(tuple(shape))
            forced = fake_rand
        # record decisions (call-through wrappers on the instance)
        for meth in ("_metropolis_step", "_group_metropolis_step"):
            if hasattr(sampler, meth):
                orig = getattr(sampler, meth)

                def wrapped(alpha, _orig=orig):
                    r = _orig(alpha)
                    decisions.append(r.clone() if hasattr(r, "clone") else torch.tensor(bool(r)))
                    return r
                setattr(sampler, meth, wrapped)
        before = st[var].clone()
        aborted = False
        try:
            State.__setitem__ = rec_set
            if forced is not None:
                torch.rand = forced
            with core.quiet():
                sampler.sample(st, temperature_inv=rng.choice([1.0, 0.5, 0.1]))
        except Exception as e:  # noqa
            from leaspy.exceptions import LeaspyModelInputError
            if extreme and isinstance(e, LeaspyModelInputError):
                # the model itself refuses to evaluate an absurd proposal (e.g. overflowing metric): not a C02 matter.
                # Restore the state as a sampler would on rejection and go on.
                stats["aborted-extreme"] = stats.get("aborted-extreme", 0) + 1
                aborted = True
            else:
                fails.append(f"[{ctx}] sampler raised {type(e).__name__}: {e}")
                break
        finally:
            State.__setitem__ = orig_setitem
            torch.rand = orig_rand
            for meth in ("_metropolis_step", "_group_metropolis_step"):
                if meth in sampler.__dict__:
                    del sampler.__dict__[meth]
            sampler.std = old_std if not extreme else sampler.std  # keep adapted std unless inflated
            if extreme:
                sampler.std = old_std
        if aborted:
            try:
                if st._last_fork is not None:
                    st.revert()
                else:
                    st[var] = before
            except Exception as e:  # noqa
                fails.append(f"[{ctx}] could not restore the state after an aborted extreme proposal: {type(e).__name__}")
                break
            continue
        # expected value of the sampled variable from the recorded proposals and decisions
        cur = before
        ok_shape = len(assigned) == len(decisions)
        if not ok_shape:
            fails.append(f"[{ctx}] {len(assigned)} assignments for {len(decisions)} decisions")
        else:
            for prop, acc in zip(assigned, decisions):
                if is_ind:
                    a = acc.to(torch.bool).reshape((-1,) + (1,) * (prop.ndim - 1))
                    cur = torch.where(a, prop, cur)
                    stats["accepted"] = stats.get("accepted", 0) + int(acc.sum())
                    stats["rejected"] = stats.get("rejected", 0) + int((~acc.to(torch.bool)).sum())
                else:
                    if bool(acc):
                        cur = prop
                        stats["accepted"] = stats.get("accepted", 0) + 1
                    else:
                        stats["rejected"] = stats.get("rejected", 0) + 1
            if not sc.values_equal(torch, st[var], cur):
                fails.append(f"[{ctx}] '{var}' is not old-on-rejected / proposed-on-accepted after the sampler step")
        if st._last_fork is not None and ok_shape and len(decisions) and not is_ind and not bool(decisions[-1]):
            fails.append(f"[{ctx}] a fork survives a rejected population proposal")
        # every later read behaves as if the rejected part had never been proposed
        for k in rng.sample(names, min(len(names), 10)):
            try:
                got = st[k]
                want = sc.from_scratch(env, st, k)
            except Exception as e:  # noqa
                fails.append(f"[{ctx}] read of '{k}' raised {type(e).__name__}")
                continue
            if not sc.values_equal(torch, got, want):
                fails.append(f"[{ctx}] read of '{k}' after the step differs bitwise from a from-scratch evaluation")
        if len(fails) > 5:
            break
    return fails, stats


def run(chk: core.Check):
    env = sc.imports()
    chk.rule = ("sampler-shaped histories (3-11 proposal/reads/decision steps, decisions accept / full revert / per-individual revert with "
                "random masks, reads of random allowed variables in between) on random toy DAGs and on shadow graphs of every shipped "
                "model kind; real sampler steps on real model states with natural and forced decisions and normal / inflated proposal "
                "scales. Non-trivial = at least one rejection (full or partial); distinct by request line / (model, sampler, seed).")
    for c in core.load_corpus(PROP):
        if c.get("kind") == "shadow":
            replay_line(chk, env, c)
    thorough = chk.tier == "thorough"
    shadow_part(chk, env, [], 800 if thorough else 80)
    ms = model_shadows(chk, env)
    if ms:
        shadow_part(chk, env, ms, 350 if thorough else 35)
    real_sampler_part(chk, env, 120 if thorough else 40)


def replay(chk: core.Check, payload):
    env = sc.imports()
    case = payload.get("case") or (payload.get("disagreements") or [{}])[0].get("case")
    if not case:
        chk.note("replay file has no case")
        return
    if case.get("kind") == "shadow":
        replay_line(chk, env, case)
    else:
        import random
        chk.rng = random.Random(f"{PROP}:{case.get('seed', chk.seed)}")
        chk.note("real-sampler cases are replayed by re-running the seeded real-sampler part")
        real_sampler_part(chk, env, case.get("steps", 14))
