"""C02 — a rejected proposal leaves no trace in the state.

(1) sampler-shaped histories (proposal / reads / accept | full revert | per-individual revert) on shadow graphs
    through the real State, compared op by op with `Model/State.lean` (drivers/C01.lean) and checked against the
    independent from-scratch evaluator; the independent value after each decision is compared with
    old / proposed / entry-wise mix;
(2) the REAL samplers (`sample(state, temperature_inv)`) on real model states, natural and forced decisions
    (patched uniform draws: accept all / reject all / every mask), normal and extreme proposal scales:
    after every step the sampled variable must be bitwise old-on-rejected / proposed-on-accepted and every
    variable read must equal bitwise a from-scratch evaluation on a fresh State.
"""
from __future__ import annotations

from . import core
from . import state_common as sc
from .c01_state import MODEL_KINDS, model_shadows, replay_line

PROP = "C02"
LEAN = dict(
    props="LeaspyVerif.Props.C02",
    driver="drivers/C01.lean",
    harness="c02_reject.py + state_common.py",
    extra_modules=["LeaspyVerif.Model.State", "LeaspyVerif.Model.Dag"],
    theorems=["rejected_full", "rejected_partial", "accepted", "revert_without_fork", "unforked_set_drops_fork",
              "ind_sampler_step", "pop_block_step", "pop_sweep", "pop_iteration", "ind_sweep", "commutes_of_rowwise", "rejected_partial_rowwise"],
    trusted_extra=[
        "values are abstract in the theorems (a revert selects, it never computes), so extreme / non-finite proposals are covered; "
        "on the real code they are exercised by the real-sampler runs with inflated proposal scales",
        "the samplers' use of revert()/revert(~accepted) is observed on the real classes, not modelled here (sampler arithmetic is C03)",
        "bitwise comparison with a from-scratch evaluation assumes the same memory layout (state_common.LayoutEnvelope: 16 float32 ulp, "
        "counted, only after an independent value was held non-contiguous)",
    ],
    assumptions=["partial reverts are generated only when the documented precondition holds; the real individual sampler only reads "
                 "per-individual terms between proposal and decision (observed)"],
)


def shadow_part(chk, env, shadows, n_hist):
    lines, impl, cases = [], [], []
    for h in range(n_hist):
        if shadows:
            tag, sh = shadows[h % len(shadows)]
        else:
            tag, sh = "toy", sc.random_toy(chk.rng)
        try:
            rn = sc.Runner(env, sh, chk.rng)
        except Exception as e:  # noqa  — the real classes refuse (or cannot build) a graph the generator knows to be valid
            chk.impl_failure({"kind": "shadow-build", "family": tag, "nodes": sh.line_nodes()},
                             f"valid variable definitions cannot be built into a graph / state: {type(e).__name__}: {str(e)[:160]}")
            chk.case(("shadow-build", h, tag), nontrivial=True, tags={"family": tag, "build": "refused"})
            continue
        try:
            decisions = sampler_history_checked(rn, chk.rng.randrange(3, 12))
        except Exception as e:  # noqa  — every call into leaspy is wrapped (Runner.call): this is a harness bug
            raise core.Infra(f"harness error while driving a history: {type(e).__name__}: {e}")
        line = rn.request_line()
        cj = {"kind": "shadow", "family": tag, "line": line, "picks": rn.picks}
        for f in rn.fails[:3]:
            chk.impl_failure(cj, f)
        lines.append(line)
        impl.append(";".join(rn.outs))
        cases.append(cj)
        for k, v in rn.tags.items():
            if k.startswith(("mask-layout", "put-form", "clone", "to-device", "mode-context")):
                chk.tag("ops", k, v)
        chk.case(line, nontrivial=(decisions.get("reject", 0) + decisions.get("partial", 0)) >= 1,
                 sample=(cj if len(rn.ops) < 45 else None), tags={"family": tag})
        for k, v in decisions.items():
            chk.tag("decisions", k, v)
    out = chk.model(lines)
    for cj, a, b in zip(cases, impl, out):
        if a != b:
            A, B = a.split(";"), b.split(";")
            idx = next((i for i, (x, y) in enumerate(zip(A, B)) if x != y), min(len(A), len(B)))
            chk.disagree(cj, A[idx] if idx < len(A) else None, B[idx] if idx < len(B) else None, f"op #{idx}")


def sampler_history_checked(rn: sc.Runner, steps):
    """Like state_common.sampler_history, plus the C02 clauses on the independent values themselves."""
    rng, sh = rn.rng, rn.sh
    settable = [n for n in sh.names if sh.by_name[n].kind == "s"]
    counts = {}

    def count(k):
        counts[k] = counts.get(k, 0) + 1
    if not settable:
        return counts
    rn.op_mode(0, "on")
    for n in settable:
        rn.op_set(0, n, rn.random_value(n))
    if rng.random() < 0.7:
        rn.op_precompute(0)
    for _ in range(steps):
        n = rng.choice(settable)
        for k in rng.sample(sh.names, min(len(sh.names), rng.randrange(0, 4))):
            rn.op_get(0, k)
        before = rn.indep_of(0)
        # the proposal, made in every way the public interface offers: plain assignment; out-of-place accumulation of a change
        # on the whole variable (individual sampler), at one coordinate or one row (population samplers), sometimes a zero
        # change; un-setting the variable; rarely with auto-fork switched off for the block (then it can not be rejected)
        forked = rng.random() >= 0.08

        def make(n=n):
            q = rng.random()
            if before[n] is not None and q < 0.3:
                change = rn.random_value(n)
                if rng.random() < 0.25:
                    change = [[0] * len(r) for r in change]
                rn.op_put_acc(0, n, change)
                count("by-accumulate")
            elif before[n] is not None and q < 0.55:
                rn.op_put_idx(0, n, True, shape=rng.choice(["cell", "row", "cells"]))
                count("by-indexed-accumulate")
            elif q < 0.6:
                rn.op_set(0, n, None)
                count("proposal-none")
            else:
                rn.op_set(0, n, rn.random_value(n))
        if forked:
            make()
        else:
            rn.op_with_mode(0, 0, make)
            count("proposal-unforked")
        prop = rn.indep_of(0)[n]
        decision = rng.choice(["accept", "reject", "partial", "partial"]) if sh.level[n] == "i" else rng.choice(["accept", "reject"])
        pool = sorted(sh.rowlocal(n)) if decision == "partial" else sh.names
        for k in rng.sample(pool, min(len(pool), rng.randrange(0, 5))):
            rn.op_get(0, k)
        if rng.random() < 0.15:
            rn.op_to_device(0)          # moving the state (here: to the device it is on) keeps the pending proposal revertible
        if rng.random() < 0.3:
            # operations that are REFUSED while the proposal is pending (assignment of a derived / non-settable variable, of an
            # unknown name): a refusal leaves everything as it was, the proposal included — it can still be rejected afterwards
            refusable = [k for k in sh.names if sh.by_name[k].kind != "s"]
            for _ in range(rng.randrange(1, 3)):
                if refusable:
                    k = rng.choice(refusable)
                    rn.op_set(0, k, rn.random_value(k))
                    count("refused-op-while-pending")
        mask = None
        if decision == "partial" and forked and rn.partial_revert_allowed(0) is None:
            decision = "reject"
        if decision == "partial":
            mask = sc.random_mask(rng, sh.nind)
        # the decision may be taken on a copy made while the proposal is pending (clone keeping the fork, deep copy): the copy
        # must reject / accept exactly like the original, which is decided afterwards as well
        sids = [0]
        if rng.random() < 0.3:
            rn.op_clone(0, 1, rng.random() < 0.3, True)
            if 1 in rn.states:
                sids = [1, 0]
                count("decision-on-clone")
        count(decision if forked else decision + "-unforked")
        for sid in sids:
            where = "" if sid == 0 else " (decided on a copy made while the proposal was pending)"
            if decision == "reject":
                rn.op_revert(sid)
            elif decision == "partial":
                rn.op_revert(sid, mask)
            after = rn.indep_of(sid)
            want = dict(before)
            if decision == "accept" or not forked:
                want[n] = prop          # (without a fork the revert is refused - checked by op_revert - and nothing changes)
            elif decision == "partial":
                want[n] = None if (before[n] is None or prop is None) else [before[n][r] if mask[r] else prop[r] for r in range(sh.nind)]
            if after != want:
                bad = [k for k in want if after.get(k) != want[k]]
                rn.fails.append(f"after a {decision} decision on '{n}'{where} the independent values {bad} are not "
                                f"{'what they were before the proposal' if decision == 'reject' else 'old-on-rejected / proposed-on-accepted'}")
            if rn.states[sid]._last_fork is not None and decision != "accept":
                rn.fails.append(f"a fork is still present after the revert{where}")
            if sid != 0:
                for k in rng.sample(sh.names, min(len(sh.names), rng.randrange(1, 4))):
                    rn.op_get(sid, k)
        for k in rng.sample(sh.names, min(len(sh.names), rng.randrange(1, 6))):
            rn.op_get(0, k)
    for k in sh.names:
        rn.op_get(0, k)
    return counts


# ------------------------------------------------------------------------------------------
POP_KINDS = ["Gibbs", "FastGibbs", "Metropolis-Hastings"]


def real_plan(chk):
    """(model kind, keywords, cohort, population sampler kind) of the real-sampler cases of this run"""
    rng = chk.rng
    if chk.tier == "thorough":
        plan = [(n, kw, co, pk) for n, kw in sc.REAL_KINDS for co in ("full",) for pk in POP_KINDS]
        plan += [(n, kw, co, rng.choice(POP_KINDS)) for n, kw in sc.REAL_KINDS + sc.REAL_KINDS_MORE for co in ("one", "two-reversed", "missing")]
        plan += [(n, kw, "full", pk) for n, kw in sc.REAL_KINDS_MORE for pk in POP_KINDS]
    else:
        plan = [(n, kw, rng.choice(sc.COHORTS), rng.choice(POP_KINDS)) for n, kw in sc.REAL_KINDS]
        # a model with clusters in every run (the individual sampler then reads the per-cluster regularities between proposal
        # and decision), plus a sample of the other kinds
        plan += [(n, kw, rng.choice(sc.COHORTS), rng.choice(POP_KINDS)) for n, kw in [rng.choice(sc.REAL_KINDS_MORE[:2])] + rng.sample(sc.REAL_KINDS_MORE[2:], 2)]
    return plan


def sampler_settings(rng, pop_kind, seed, entry):
    """Settings of the algorithm that builds the samplers: defaults, or the documented tuning keys at and near their bounds
    (a window of one step makes the adaptation of the proposal scale fire between the observed steps)."""
    from leaspy.algo import AlgorithmSettings
    kws = dict(seed=seed, progress_bar=False)
    tuned = rng.random() < 0.5
    if tuned:
        def tune():
            lo = rng.choice([0.01, 0.2, 0.5])
            return dict(acceptation_history_length=rng.choice([1, 2, 3, 25]),
                        mean_acceptation_rate_target_bounds=[lo, rng.choice([lo + 0.05, 0.99])],
                        adaptive_std_factor=rng.choice([0.01, 0.1, 0.9]))
        kws["sampler_ind_params"] = tune()
        if entry == "fit":
            kws["sampler_pop_params"] = dict(tune(), random_order_dimension=rng.random() < 0.5)
    if entry == "fit":
        return AlgorithmSettings("mcmc_saem", n_iter=10, sampler_pop=pop_kind, **kws), tuned
    return AlgorithmSettings(entry, n_iter=10, **kws), tuned


def real_sampler_part(chk, env, n_steps, only=None):
    import random
    from leaspy.algo import algorithm_factory
    for i, (name, kw, cohort, pop_kind, *rest) in enumerate(real_plan(chk) if only is None else [only]):
        key = f"{PROP}-real:{chk.seed}:{chk.tier}:{i}:{name}:{cohort}:{pop_kind}" if only is None else rest[0]
        rng = random.Random(key)              # own stream per case: a replay re-creates exactly this run
        case = {"kind": "real-sampler", "model": name, "kw": kw, "cohort": cohort, "sampler_pop": pop_kind, "seed": chk.seed,
                "steps": n_steps, "rng_key": key}
        try:
            model, st, ds = sc.real_state(env, name, kw, cohort, rng)
            case["fractional_weights"] = bool(rng.random() < 0.5 and sc.fractional_weights(env, rng, st))
            # the samplers are built by the fit algorithm or (individual ones only) by a sampling-based personalisation
            entry = rng.choice(["fit", "fit", "fit", "mean_posterior", "mode_posterior"])
            case["built_by"] = entry
            with core.quiet():
                settings, case["tuned"] = sampler_settings(rng, pop_kind, chk.seed, entry)
                algo = algorithm_factory(settings)
                case["fork"] = rng.choice(["REF", "REF", "COPY"])
                st.auto_fork_type = getattr(env["StateForkType"], case["fork"])
                algo._initialize_samplers(st, ds)
        except Exception as e:  # noqa
            chk.note(f"real samplers unavailable for {name} {kw} {cohort} {pop_kind}: {type(e).__name__}: {e}")
            continue
        fails, stats = run_real_samplers(env, rng, model, st, ds, algo, n_steps, (name, kw))
        for f in fails[:3]:
            chk.impl_failure(case, f)
        chk.case(("real-sampler", name, str(kw), cohort, pop_kind, chk.seed), nontrivial=stats.get("rejected", 0) > 0,
                 tags={"family": "real-" + name, "sampler_pop": pop_kind, "cohort": cohort, "built_by": entry, "fork": case["fork"]})
        for k, v in stats.items():
            chk.tag("real_decisions", k, v)


def individual_axis(env, name, kw):
    """names of the variables that carry the individual axis, read off the whole mock cohort (see state_common.RealOracle)"""
    _, full_st, full_ds = sc.real_state(env, name, kw)
    with core.quiet():
        full_st.precompute_all()
    n = full_ds.n_individuals
    return {k for k, v in full_st._values.items() if v is not None and v.ndim >= 1 and v.shape[0] == n and n not in tuple(v.shape[1:])}


def run_real_samplers(env, rng, model, st0, ds, algo, n_steps, kind):
    torch = env["torch"]
    State = env["State"]
    fails, stats = [], {}

    def count(k, n=1):
        stats[k] = stats.get(k, 0) + n
    names = list(st0.dag.sorted_variables_names)
    n_ind = ds.n_individuals
    # bitwise comparison with a from-scratch evaluation, except for the one legitimate cause documented in
    # state_common.LayoutEnvelope (an independent value was held in a non-contiguous memory layout: counted)
    lay = sc.LayoutEnvelope()
    lay.env, lay.layout_seen, lay.envelope_reads = env, False, 0

    def same_as_from_scratch(got, want):
        if sc.values_equal(torch, got, want):
            return True
        if lay.layout_seen and lay.within_layout_envelope(got, want):
            count("reads-within-layout-envelope")
            return True
        return False
    orig_setitem = State.__setitem__
    orig_rand = torch.rand
    ind_axis = None
    from leaspy.variables.specs import ModelParameter
    params = list(st0.dag.sorted_variables_by_type.get(ModelParameter, {}))
    st = st0
    for step in range(n_steps):
        # ---- between two sampler steps: the rest of what an iteration / a caller does with the state (the following history)
        q = rng.random()
        lay.note_layouts(st)
        count("fork-pending-between-steps" if st._last_fork is not None else "no-fork-between-steps")
        try:
            if q < 0.06:
                st.to_device(torch.device("cpu"))
                count("between-to-device")
            elif q < 0.14 and params:
                # maximisation-like step: a parameter rewritten with auto-fork off
                p = rng.choice(params)
                if st._last_fork is None and rng.random() < 0.7:
                    # (the snapshot of an accepted proposal is still there when the parameters are updated - as after a
                    # population sampler whose last block was accepted; made here by an accepted zero change)
                    v0 = rng.choice(list(algo.samplers))
                    st.put(v0, torch.zeros_like(st[v0]), accumulate=True)
                had_fork = st._last_fork is not None
                with st.auto_fork(None):
                    st[p] = st[p] * (1.02 if p.endswith("_std") else 1.0) + (0.0 if p.endswith("_std") else 0.01)
                count("between-parameter-update")
                if had_fork or rng.random() < 0.3:
                    # the last accepted proposal (its snapshot may still be there) can no longer be undone: the snapshot predates
                    # the parameter; a revert is refused and changes nothing
                    try:
                        st.revert()
                        fails.append(f"[step {step}] revert() after a parameter was assigned with auto-fork off did not raise")
                    except env["LIE"]:
                        pass
                    for k in rng.sample(names, min(len(names), 6)):
                        if not same_as_from_scratch(st[k], sc.from_scratch(env, st, k)):
                            fails.append(f"[step {step}] read of '{k}' after a parameter update and a refused revert differs bitwise "
                                         "from a from-scratch evaluation")
            elif q < 0.20:
                # the chain goes on on a copy (what a personalisation does); the previous object must not move any more
                frozen = {k: (None if v is None else (v.clone() if hasattr(v, "clone") else v)) for k, v in st._values.items()}
                prev, st = st, (st.clone(keep_last_fork=rng.random() < 0.5) if rng.random() < 0.6 else __import__("copy").deepcopy(st))
                stats.setdefault("_frozen", []).append((prev, frozen))
                count("between-continue-on-copy")
        except Exception as e:  # noqa
            fails.append(f"[step {step}] operation between sampler steps raised {type(e).__name__}: {e}")
            break
        ind_vars = [v for v, smp in algo.samplers.items() if hasattr(smp, "n_patients")]
        var = rng.choice(ind_vars) if (ind_vars and rng.random() < 0.5) else rng.choice(list(algo.samplers))
        sampler = algo.samplers[var]
        is_ind = hasattr(sampler, "n_patients")
        mode = rng.choice(["natural", "natural", "accept-all", "reject-all", "mask"])
        extreme = rng.random() < 0.3
        ctx = f"step {step} sampler({var}) {mode}{' extreme' if extreme else ''}"
        assigned, decisions = [], []
        old_std = sampler.std.clone()
        if extreme:
            sampler.std = sampler.std * rng.choice([50.0, 1e3, 1e5])

        def rec_set(self, name, value, _orig=orig_setitem, _st=st):
            if self is _st and name == var:
                assigned.append(None if value is None else value.clone())
            return _orig(self, name, value)

        forced = None
        if mode != "natural":
            def fake_rand(*size, **kwargs):
                shape = size[0] if (len(size) == 1 and isinstance(size[0], (tuple, list, torch.Size))) else size
                if mode == "accept-all":
                    return torch.full(tuple(shape), -1.0)
                if mode == "reject-all":
                    return torch.full(tuple(shape), float("inf"))
                m = torch.tensor([rng.random() < 0.5 for _ in range(int(torch.tensor(tuple(shape)).prod()) if len(tuple(shape)) else 1)])
                return torch.where(m, torch.tensor(-1.0), torch.tensor(float("inf"))).reshape(tuple(shape))
            forced = fake_rand
        # extra reads between the proposal and the decision, within what the documented contract allows: any variable before
        # the all-or-nothing decision of a population sampler, variables carrying the individual axis before a per-individual one
        extra = []
        if rng.random() < 0.5:
            if is_ind:
                if ind_axis is None:
                    ind_axis = individual_axis(env, *kind)
                d = set(st.dag.sorted_children[var])
                ok = set()
                for n in st.dag.sorted_variables_names:
                    if n in d and n in ind_axis and all((p not in d and p != var) or p in ok or p == var for p in st.dag.direct_ancestors[n]):
                        ok.add(n)
                extra = rng.sample(sorted(ok), min(len(ok), rng.randrange(1, 4)))
            elif rng.random() < 0.25:
                extra = ["*"]            # everything at once (precompute_all), as an output manager would
            else:
                extra = rng.sample(names, rng.randrange(1, 4))
        # record decisions (call-through wrappers on the instance)
        for meth in ("_metropolis_step", "_group_metropolis_step"):
            if hasattr(sampler, meth):
                orig = getattr(sampler, meth)

                def wrapped(alpha, _orig=orig, _st=st):
                    for k in extra:
                        try:
                            if k == "*":
                                _st.precompute_all()
                            else:
                                _st[k]
                            count("reads-between-proposal-and-decision")
                        except Exception:  # noqa  (an absurd proposal the model refuses to evaluate)
                            pass
                    r = _orig(alpha)
                    decisions.append(r.clone() if hasattr(r, "clone") else torch.tensor(bool(r)))
                    return r
                setattr(sampler, meth, wrapped)
        before = st[var].clone()
        aborted = False
        try:
            State.__setitem__ = rec_set
            if forced is not None:
                torch.rand = forced
            with core.quiet():
                sampler.sample(st, temperature_inv=rng.choice([1.0, 0.5, 0.1]))
        except Exception as e:  # noqa
            from leaspy.exceptions import LeaspyModelInputError
            refused = isinstance(e, LeaspyModelInputError) or (
                isinstance(e, ValueError) and str(e).startswith("Expected parameter") and "found invalid values" in str(e))
            if extreme and refused:
                # the model itself refuses to evaluate an absurd proposal (made with a proposal scale inflated x50 .. x1e5): an
                # overflowing metric (LeaspyModelInputError), or - binary outcomes - torch's Bernoulli distribution refusing the
                # nan probabilities of an overflowed prediction (ValueError "Expected parameter probs ... found invalid values";
                # the Gaussian kinds evaluate the same proposal to nan and reject it).  No decision is taken: not a C02 matter.
                # Restore the state as a sampler would on rejection and go on.
                count("aborted-extreme" if isinstance(e, LeaspyModelInputError) else "aborted-extreme-torch-parameter-validation")
                aborted = True
            else:
                fails.append(f"[{ctx}] sampler raised {type(e).__name__}: {e}")
                break
        finally:
            State.__setitem__ = orig_setitem
            torch.rand = orig_rand
            for meth in ("_metropolis_step", "_group_metropolis_step"):
                if meth in sampler.__dict__:
                    del sampler.__dict__[meth]
            if extreme:
                sampler.std = old_std      # (the adapted std is kept unless it was inflated for this step)
        if aborted:
            try:
                if st._last_fork is not None:
                    st.revert()
                else:
                    st[var] = before
            except Exception as e:  # noqa
                fails.append(f"[{ctx}] could not restore the state after an aborted extreme proposal: {type(e).__name__}")
                break
            continue
        # expected value of the sampled variable from the recorded proposals and decisions
        cur = before
        ok_shape = len(assigned) == len(decisions)
        if not ok_shape:
            fails.append(f"[{ctx}] {len(assigned)} assignments for {len(decisions)} decisions")
        else:
            for prop, acc in zip(assigned, decisions):
                if is_ind:
                    a = acc.to(torch.bool).reshape((-1,) + (1,) * (prop.ndim - 1))
                    cur = torch.where(a, prop, cur)
                    count("accepted", int(acc.sum()))
                    count("rejected", int((~acc.to(torch.bool)).sum()))
                else:
                    if bool(acc):
                        cur = prop
                        count("accepted")
                    else:
                        count("rejected")
            if not sc.values_equal(torch, st[var], cur):
                fails.append(f"[{ctx}] '{var}' is not old-on-rejected / proposed-on-accepted after the sampler step")
        if st._last_fork is not None and ok_shape and len(decisions) and not is_ind and not bool(decisions[-1]):
            fails.append(f"[{ctx}] a fork survives a rejected population proposal")
        # every later read behaves as if the rejected part had never been proposed
        for k in rng.sample(names, min(len(names), 10)):
            try:
                got = st[k]
                want = sc.from_scratch(env, st, k)
            except Exception as e:  # noqa
                fails.append(f"[{ctx}] read of '{k}' raised {type(e).__name__}")
                continue
            if not same_as_from_scratch(got, want):
                fails.append(f"[{ctx}] read of '{k}' after the step differs bitwise from a from-scratch evaluation")
        if len(fails) > 5:
            break
    # the objects the chain left behind (it went on on copies of them) hold what they held
    for prev, frozen in stats.pop("_frozen", []):
        for k, v in frozen.items():
            now = prev._values[k]
            if (v is None) != (now is None) or (v is not None and not sc.values_equal(torch, now, v)):
                fails.append(f"a state the chain was copied from changed afterwards (variable '{k}')")
                break
    return fails, stats


def run(chk: core.Check):
    env = sc.imports()
    chk.rule = ("sampler-shaped histories (3-11 proposal/reads/decision steps; proposals by assignment, by out-of-place accumulation on "
                "the whole variable / one coordinate / one row, of None, with auto-fork off; decisions accept / full revert / "
                "per-individual revert with random and uniform masks in every dtype and layout, possibly taken on a clone / deep copy made "
                "while the proposal is pending, possibly after a to_device; reads of random allowed variables in between) on random toy "
                "DAGs and on shadow graphs of every shipped model kind; real sampler steps (samplers built by the fit or a "
                "personalisation algorithm, default or boundary tuning, REF / COPY snapshots) on real model states of 9-14 model kinds "
                "incl. clusters, binary outcomes, cohorts of 1 / 2 individuals and missing values, with natural and forced decisions, "
                "normal / inflated proposal scales, extra reads between proposal and decision, and parameter updates / to_device / "
                "continuation on a copy between steps. Non-trivial = at least one rejection (full or partial); distinct by request line "
                "/ (model, cohort, sampler, seed).")
    for c in core.load_corpus(PROP):
        if c.get("kind") == "shadow":
            replay_line(chk, env, c)
    thorough = chk.tier == "thorough"
    shadow_part(chk, env, [], 800 if thorough else 110)
    ms = model_shadows(chk, env)
    if ms:
        shadow_part(chk, env, ms, 350 if thorough else 45)
    real_sampler_part(chk, env, 100 if thorough else 50)


def replay(chk: core.Check, payload):
    env = sc.imports()
    case = payload.get("case") or (payload.get("disagreements") or [{}])[0].get("case")
    if not case:
        chk.note("replay file has no case")
        return
    if case.get("kind") == "shadow":
        replay_line(chk, env, case)
    elif "rng_key" in case:
        chk.note("real-sampler cases are replayed by re-running the seeded case (same model kind, cohort, samplers, stream)")
        real_sampler_part(chk, env, case.get("steps", 14),
                          only=(case["model"], case["kw"], case.get("cohort", "full"), case["sampler_pop"], case["rng_key"]))
    else:
        import random
        chk.rng = random.Random(f"{PROP}:{case.get('seed', chk.seed)}")
        chk.note("real-sampler cases are replayed by re-running the seeded real-sampler part")
        real_sampler_part(chk, env, case.get("steps", 14))
