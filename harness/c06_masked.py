"""C06 — missing and padded observations never influence any result.

(A) Correspondence: the real `WeightedTensor` classes (`_apply_operation`, `filled`, `weighted_value`, `wsum`,
    `sum_dim`, `wsum_dim`, `factory_weighted_tensor_unary_operator`) against `Model/Masked.lean` through
    `drivers/C06.lean`, on random small tensors with exact (dyadic) values, `nan` / `inf` / `2**100` under the
    masks, and random compositions of the expression language; compared exactly.
(B) The property itself on the real code (metamorphic): a `leaspy.io.data.Dataset` D against copies D' whose
    `values` / `timepoints` hold garbage under the mask and / or carry 1-5 extra padded visits; likelihood terms,
    sufficient statistics, updated parameters, trajectories, short fits and personalisations are compared
    (bitwise for fill changes, float32 rounding envelope for padding changes); observation counts exactly.
"""
from __future__ import annotations

import contextlib
import copy
import math
import random
import warnings
from fractions import Fraction

from . import core
from .core import fmt_rat
from . import c04_mstep as c04

PROP = "C06"
LEAN = dict(
    props="LeaspyVerif.Props.C06",
    driver="drivers/C06.lean",
    harness="c06_masked.py",
    extra_modules=["LeaspyVerif.Model.Masked", "LeaspyVerif.Lemmas.Masked"],
    theorems=["wsum_mask_irrelevant", "wsumDim_mask_irrelevant", "wsum_only_unmasked", "wsum_padding_irrelevant",
              "wsumDim_padding_irrelevant", "xsum_perm", "nonfinite_never_propagates", "weightedValue_masked_zero",
              "binop_weight_table", "nonInterference", "sums_equal", "counts_equal", "eval_observed", "observedOnly",
              "noise_update_observedOnly", "scalarNoiseOld_counterexample", "eval_padding", "padding_irrelevant"],
    trusted_extra=[
        "values of the Lean model are exact rationals + {inf,-inf,nan} with IEEE rules for the specials; rounding and signed "
        "zeros are not modelled: the tensor-level correspondence uses small dyadic values in float64 tensors, on which the arithmetic is exact (results not representable in float64 are counted and excluded)",
        "broadcasting is done by the harness before the model is called (all operands of one expression share one shape)",
        "real-code metamorphic runs (part B) are a search for counterexamples of the property, not a proof about torch",
    ],
    assumptions=[
        "state level (put_data_variables): the age of a visit whose features are all missing is weighted 0 and is overwritten with garbage too; API level (fit / personalize read ages through Dataset.to_pandas): only padding slots of `timepoints` are overwritten",
        "padding-amount changes reorder float32 sums: compared with a relative envelope of 2e-5; multi-iteration MCMC runs are "
        "compared only for fill changes (bitwise), where every intermediate sum must be bitwise identical",
        "scalar noise rule is modelled after repair F3 (fixes/F3.patch)",
    ],
)

EPS32 = 2.0 ** -23


def _imports():
    env = c04._imports()
    from leaspy.utils.weighted_tensor import (factory_weighted_tensor_unary_operator, sum_dim, wsum_dim)
    from leaspy.variables.specs import LatentVariableInitType
    env.unary = factory_weighted_tensor_unary_operator
    env.sum_dim, env.wsum_dim = sum_dim, wsum_dim
    env.LVInit = LatentVariableInitType
    return env


err_class = c04.err_class

# =====================================================================================================
# (A) tensor-level correspondence with the Lean model
# =====================================================================================================
SPECIALS = ["nan", "inf", "-inf"]


def xtok(v):
    """canonical token of a python float"""
    if isinstance(v, str):
        return v
    if math.isnan(v):
        return "nan"
    if math.isinf(v):
        return "inf" if v > 0 else "-inf"
    return fmt_rat(Fraction(float(v)))


def tofloat(tok):
    return {"nan": float("nan"), "inf": float("inf"), "-inf": float("-inf")}.get(tok) if tok in SPECIALS else float(Fraction(tok))


def rand_val(rng, masked):
    u = rng.random()
    if masked:
        if u < 0.25:
            return "nan"
        if u < 0.4:
            return rng.choice(["inf", "-inf"])
        if u < 0.55:
            return xtok(float(2 ** 100) * rng.choice([1, -1]))
        if u < 0.7:
            return "0"
    elif u < 0.04:
        return rng.choice(SPECIALS)
    return fmt_rat(Fraction(rng.randint(-8, 8), 4))


def gen_tensor_case(rng):
    ni, nt, nf = rng.randint(1, 3), rng.randint(1, 3), rng.randint(1, 2)
    shape = (ni, nt, nf)
    n = ni * nt * nf
    mask_y = [rng.random() < 0.65 for _ in range(n)]
    # visit-level mask (any feature), broadcast over the features
    mask_t = []
    for i in range(ni):
        for t in range(nt):
            anyf = any(mask_y[(i * nt + t) * nf + f] for f in range(nf))
            mask_t += [anyf] * nf
    mask_z = [rng.random() < 0.5 for _ in range(n)]
    if rng.random() < 0.3:
        mask_z = list(mask_y)
    vars_ = []
    for kind, mask in (("wt", mask_y), ("wt", mask_t), ("plain", None), ("plain", None), ("wt", mask_z)):
        if kind == "wt":
            vals = [rand_val(rng, not m) for m in mask]
        else:
            vals = [rand_val(rng, False) for _ in range(n)]
        vars_.append((vals, mask))
    # variable 5: a scale tensor of powers of two (divisor), variable 6: all-masked weighted tensor
    vars_.append(([fmt_rat(Fraction(rng.choice([1, 2, 4, 1]), rng.choice([1, 2, 4]))) for _ in range(n)], None))
    vars_.append(([rand_val(rng, True) for _ in range(n)], [False] * n))
    return shape, vars_


UN = ["neg:none", "sqr:none", "ext0:0", "ext1:0", "ext2:none", "ext1:none", "ext0:3/2", "ext2:nan"]


def gen_prog(rng, depth):
    """random postfix program (sum-free body)"""
    if depth == 0 or rng.random() < 0.25:
        return [f"v{rng.choice([0, 0, 1, 2, 3, 4, 6])}"]
    u = rng.random()
    if u < 0.5:
        op = rng.choice(["add", "sub", "mul", "mul"])
        return gen_prog(rng, depth - 1) + gen_prog(rng, depth - 1) + [op]
    if u < 0.58:
        return gen_prog(rng, depth - 1) + ["v5", "div"]
    if u < 0.8:
        return gen_prog(rng, depth - 1) + [rng.choice(UN)]
    if u < 0.9:
        return gen_prog(rng, depth - 1) + ["wv"]
    return gen_prog(rng, depth - 1) + gen_prog(rng, depth - 1) + ["rw"]


FIXED_PROGS = [
    ["v0", "v2", "mul"],                                                   # y_x_model
    ["v2", "sqr:none"],                                                    # model_x_model
    ["v0", "sqr:none", "sum1"],                                            # y_L2_per_ft
    ["v0", "v2", "sub", "v5", "div", "sqr:none", "v3", "add", "sum0"],     # nll_attach_ind (up to constants)
    ["v0", "v2", "sub", "v5", "div", "sqr:none", "v3", "add", "sum0", "sum3"],  # nll_attach
    ["v3", "v1", "mul", "v2", "add", "ext1:0", "wv"],                      # model = weighted_value(f(filled(a*t+b, 0)))
    ["v2", "sqr:none", "v0", "v2", "mul", "rw", "sum2"],                   # repaired scalar s2
    ["v2", "sqr:none", "sum2"],                                            # old scalar s2
    ["v0", "v2", "mul", "v2", "sqr:none", "add", "sum1"],                  # diagonal numerator part
    ["v0", "v4", "add"],                                                   # weights differ
    ["v6", "sqr:none", "sum0"],                                            # all-masked aggregates
]


def keys_tables(shape):
    ni, nt, nf = shape
    n = ni * nt * nf
    k_ind = [i for i in range(ni) for _ in range(nt * nf)]
    k_ft = [f for _ in range(ni * nt) for f in range(nf)]
    return [(k_ind, ni), (k_ft, nf), ([0] * n, 1)]


def impl_eval(env, shape, vars_, prog):
    """evaluate the postfix program with the real classes"""
    torch, WT = env.torch, env.WT
    tv = []
    for vals, mask in vars_:
        t = torch.tensor([tofloat(v) for v in vals], dtype=torch.float64).reshape(shape)
        tv.append(WT(t, torch.tensor(mask, dtype=torch.bool).reshape(shape)) if mask is not None else t)
    ext = [lambda x: x.clone(), lambda x: 0.5 * x + 0.25, torch.abs]
    st = []
    summed = 0
    for tok in prog:
        if tok[0] == "v":
            st.append(tv[int(tok[1:])])
        elif tok in ("add", "sub", "mul", "div"):
            b, a = st.pop(), st.pop()
            st.append({"add": lambda: a + b, "sub": lambda: a - b, "mul": lambda: a * b, "div": lambda: a / b}[tok]())
        elif tok == "wv":
            a = st.pop()
            st.append(a.weighted_value if isinstance(a, WT) else a)
        elif tok == "rw":
            b, a = st.pop(), st.pop()
            st.append(WT(a, b.weight) if (not isinstance(a, WT) and isinstance(b, WT)) else a)
        elif tok.startswith("sum"):
            j = int(tok[3:])
            a = st.pop()
            kw = [dict(but_dim=0), dict(but_dim=-1), dict(), dict()][j]
            st.append(env.sum_dim(a, **kw))
            summed += 1
        else:
            name, f = tok.split(":")
            a = st.pop()
            if name == "neg":
                st.append(-a)
            else:
                fill = None if f == "none" else tofloat(f)
                fn = torch.square if name == "sqr" else ext[int(name[3:])]
                st.append(env.unary(fn, fill_value=fill)(a))
    assert len(st) == 1
    return st[0]


def canon_impl(env, r):
    if isinstance(r, env.WT):
        vals = [xtok(float(v)) for v in r.value.reshape(-1).tolist()]
        if r.weight is None:
            return ("plain", vals, None)
        w = [bool(b) for b in r.weight.reshape(-1).tolist()]
        return ("wt", vals, w)
    return ("plain", [xtok(float(v)) for v in r.reshape(-1).tolist()], None)


def parse_model(resp):
    if resp.startswith("err") or resp == "bad-request":
        return (resp, None, None)
    parts = resp.split(":")
    if parts[0] == "plain":
        return ("plain", core.split_ne(parts[1]), None)
    return ("wt", core.split_ne(parts[1]), [c == "1" for c in ("" if parts[2] == "_" else parts[2])])


def representable(tok):
    """is the exact value a float64?  (otherwise the implementation necessarily rounded: not comparable exactly)"""
    if tok in SPECIALS:
        return True
    q = Fraction(tok)
    n, d = abs(q.numerator), q.denominator
    while n and n % 2 == 0:
        n //= 2
    return n < 2 ** 53 and d & (d - 1) == 0 and d <= 2 ** 1000


def same_result(a, b):
    """observational equality: kind, weights, and values wherever the weight is non-zero (all values for regular tensors)"""
    if a[0] != b[0]:
        return False
    if a[0] not in ("plain", "wt"):
        return True
    if len(a[1]) != len(b[1]) or a[2] != b[2]:
        return False
    for i, (x, y) in enumerate(zip(a[1], b[1])):
        if a[2] is not None and not a[2][i]:
            continue
        if x != y and not (x in SPECIALS or y in SPECIALS) and Fraction(x) != Fraction(y):
            return False
        if (x in SPECIALS or y in SPECIALS) and x != y:
            return False
    return True


def tensor_part(env, chk):
    rng = chk.rng
    n_cases = 60 if chk.tier == "quick" else 600
    lines, metas = [], []
    for ci in range(n_cases):
        shape, vars_ = gen_tensor_case(rng)
        ktab = keys_tables(shape)
        ni = shape[0]
        progs = [list(p) for p in FIXED_PROGS] if ci % 4 == 0 else []
        for _ in range(6):
            p = gen_prog(rng, rng.randint(1, 4))
            u = rng.random()
            if u < 0.3:
                p = p + [f"sum{rng.randint(0, 2)}"]
            elif u < 0.4:
                p = p + ["sum0", "sum3"]
            progs.append(p)
        head = f"nvars={len(vars_)} " + " ".join(
            f"v{i}={core.fmt_list(vals)} w{i}={'none' if m is None else (''.join('1' if b else '0' for b in m) or '_')}"
            for i, (vals, m) in enumerate(vars_))
        # keys3: full sum of the per-individual vector
        ktab4 = ktab + [([0] * ni, 1)]
        vars2 = [(vals if m is None else [v if b else rand_val(rng, True) for v, b in zip(vals, m)], m) for vals, m in vars_]
        khead = f"nkeys=4 " + " ".join(f"keys{j}={core.fmt_list(k)} n{j}={n}" for j, (k, n) in enumerate(ktab4))
        for p in progs:
            case = {"kind": "tensor", "shape": list(shape), "vars": [[v, m] for v, m in vars_], "prog": p}
            try:
                r = canon_impl(env, impl_eval(env, shape, vars_, p))
            except NotImplementedError:
                r = ("err:weights", None, None)
            except Exception as e:  # noqa
                r = (f"err:other:{type(e).__name__}", None, None)
            lines.append(f"eval {head} {khead} prog={';'.join(p)}")
            metas.append(("eval", case, r))
            # the property on the real classes, independent of the model: re-randomise what sits under the masks
            try:
                r2 = canon_impl(env, impl_eval(env, shape, vars2, p))
            except NotImplementedError:
                r2 = ("err:weights", None, None)
            except Exception as e:  # noqa
                r2 = (f"err:other:{type(e).__name__}", None, None)
            if not same_result(r, r2):
                chk.impl_failure(dict(case, vars_refilled=[[v, m] for v, m in vars2]),
                                 f"result changes when only the values under the masks change: {list(r)[:2]} vs {list(r2)[:2]}"[:600])
            has_sum = any(t.startswith("sum") for t in p)
            chk.case(("tensor", ci, tuple(p)), nontrivial=any(m is not None and not all(m) for _, m in vars_[:2]),
                     sample=case if len(chk.samples) < 2 and has_sum else None,
                     tags={"part": "tensor", "impl_kind": r[0], "has_sum": has_sum})
        # wsum_dim with a random fill value on a weighted variable
        for vi in (0, 1, 6):
            vals, m = vars_[vi]
            j = rng.randint(0, 2)
            fill = rng.choice(["0", "7/2", "nan", "-1"])
            t = env.torch.tensor([tofloat(v) for v in vals], dtype=env.torch.float64).reshape(shape)
            wt = env.WT(t, env.torch.tensor(m, dtype=env.torch.bool).reshape(shape))
            kw = [dict(but_dim=0), dict(but_dim=-1), dict()][j]
            case = {"kind": "wsum", "shape": list(shape), "vals": vals, "mask": m, "but": j, "fill": fill}
            try:
                s, c = env.wsum_dim(wt, fill_value=tofloat(fill), **kw)
                r = ([xtok(float(x)) for x in s.reshape(-1).tolist()], [int(x) for x in c.reshape(-1).tolist()])
            except Exception as e:  # noqa
                r = (f"err:other:{type(e).__name__}", None)
            k, n = ktab[j]
            lines.append(f"wsum fill={fill} keys={core.fmt_list(k)} n={n} vals={core.fmt_list(vals)} w={''.join('1' if b else '0' for b in m)}")
            metas.append(("wsum", case, r))
            # predicate on the implementation: the sum is the exact sum of the unmasked cells / fill if none
            pred_wsum(chk, case, r, k, n)
            chk.case(("wsum", ci, vi), nontrivial=not all(m), tags={"part": "wsum"})
    out = chk.model(lines)
    for (kind, case, r), resp in zip(metas, out):
        if kind == "eval":
            m = parse_model(resp)
            if not same_result(r, m):
                if m[0] in ("plain", "wt") and not all(representable(t) for t in m[1]):
                    chk.tag("excluded_not_exact_in_float64", 1)
                    continue
                chk.disagree(case, list(r), resp[:300], "expression result (kind / weights / unmasked values)")
        else:
            try:
                parts = dict(t.split("=", 1) for t in resp.split(" "))
                ms, mc = core.split_ne(parts["sums"]), [int(x) for x in core.split_ne(parts["counts"])]
            except Exception:
                chk.disagree(case, list(r), resp[:300], "unparsable wsum response")
                continue
            ok = r[1] == mc and r[0] is not None and len(r[0]) == len(ms) and all(
                (a == b) if (a in SPECIALS or b in SPECIALS) else Fraction(a) == Fraction(b) for a, b in zip(r[0], ms))
            if not ok:
                chk.disagree(case, list(r), resp[:300], "wsum_dim (weighted sums, sums of weights)")


def pred_wsum(chk, case, r, keys, n):
    """property on the real wsum: depends on unmasked cells only; non-finite masked cells never propagate"""
    if r[1] is None:
        chk.impl_failure(case, f"wsum_dim raised {r[0]}")
        return
    vals, mask, fill = case["vals"], case["mask"], case["fill"]
    for k in range(n):
        cells = [v for v, m, kk in zip(vals, mask, keys) if m and kk == k]
        cnt = len(cells)
        if r[1][k] != cnt:
            chk.impl_failure(case, f"sum of weights {r[1][k]} != number of unmasked cells {cnt} (output {k})")
        if cnt == 0:
            want = fill
            if r[0][k] != want and not (want not in SPECIALS and r[0][k] not in SPECIALS and Fraction(r[0][k]) == Fraction(want)):
                chk.impl_failure(case, f"aggregate {k} has no unmasked cell but is {r[0][k]} instead of fill_value={fill}")
            continue
        elif any(c in SPECIALS for c in cells):
            continue  # unmasked specials: IEEE outcome compared through the model only
        else:
            want = fmt_rat(sum(Fraction(c) for c in cells))
        got = r[0][k]
        if got != want and not (got not in SPECIALS and want not in SPECIALS and Fraction(got) == Fraction(want)):
            chk.impl_failure(case, f"weighted sum of output {k} is {got}, the sum of its unmasked cells is {want}")


# =====================================================================================================
# (B) metamorphic runs on the real code
# =====================================================================================================
GARBAGE = [0.0, 1e30, -1e30, float("nan"), float("inf"), float("-inf"), 123.456, -7.0]


def gen_case(rng, tier, model, noise):
    return dict(model=model, noise=noise, n_ind=rng.randint(3, 6), n_ft=rng.choice([2, 2, 3]), src=1,
                miss=rng.choice([0.15, 0.3, 0.45]), data_seed=rng.randrange(10 ** 6), seed=rng.randrange(1000),
                whole_visit=rng.random() < 0.6, n_iter=rng.randint(2, 4), n_burn=rng.randint(0, 2),
                var_seed=rng.randrange(10 ** 6))


def build_dataset(env, case):
    """clean Dataset D (optionally with visits whose features are all missing) and an initialised model"""
    df = c04.gen_table(env, case)
    fts = [c for c in df.columns if c.startswith("Y")]
    r = random.Random(case["data_seed"] + 1)
    if case["whole_visit"]:
        # blank one whole visit of up to two subjects (never their only visits with data)
        for sid in r.sample(sorted(df["ID"].unique()), k=min(2, df["ID"].nunique())):
            idx = list(df.index[df["ID"] == sid])
            if len(idx) >= 3:
                j = r.choice(idx)
                old = df.loc[j, fts].copy()
                df.loc[j, fts] = float("nan")
                if not all((df.groupby("ID")[f].count() >= 2).sum() >= 2 for f in fts):
                    df.loc[j, fts] = old
    if case["model"] == "joint":
        data = env.Data.from_dataframe(df, "joint", drop_full_nan=False)
    else:
        data = env.Data.from_dataframe(df, drop_full_nan=False)
    dataset = env.Dataset(data)
    name = case["model"]
    kw = dict(dimension=case["n_ft"], source_dimension=case["src"])
    if case["noise"] in ("scalar", "diagonal"):
        kw["obs_models"] = "gaussian-" + case["noise"]
    model = env.model_factory(name, **kw)
    model.initialize(dataset)
    n_nonnan = int(df[fts].notna().sum().sum())
    return df, dataset, model, n_nonnan


def variant(env, D, kind, rng, t_whole=True):
    """D' : garbage under the masks ('fill'), extra padded visits ('pad'), or both.
    `t_whole=False`: the times of existing visits whose features are all missing are kept (only padding slots get garbage)."""
    torch = env.torch
    Dp = copy.deepcopy(D)
    pad = rng.randint(1, 5) if kind in ("pad", "both") else 0
    if pad:
        ni, nv, nf = Dp.values.shape
        Dp.values = torch.cat([Dp.values, torch.zeros(ni, pad, nf)], dim=1)
        Dp.mask = torch.cat([Dp.mask, torch.zeros(ni, pad, nf)], dim=1)
        Dp.timepoints = torch.cat([Dp.timepoints, torch.zeros(ni, pad)], dim=1)
        Dp.n_visits_max = nv + pad
    if kind in ("fill", "both"):
        g = [x for x in GARBAGE]
        mv = (Dp.mask == 0)
        garb = torch.tensor([rng.choice(g) for _ in range(Dp.values.numel())], dtype=torch.float32).reshape(Dp.values.shape)
        Dp.values = torch.where(mv, garb, Dp.values)
        mt = ~(Dp.mask > 0).any(dim=-1)
        if not t_whole:
            mt = torch.arange(Dp.timepoints.shape[1])[None, :] >= torch.tensor(Dp.n_visits_per_individual)[:, None]
        garbt = torch.tensor([rng.choice(g) for _ in range(Dp.timepoints.numel())], dtype=torch.float32).reshape(Dp.timepoints.shape)
        Dp.timepoints = torch.where(mt, garbt, Dp.timepoints)
    return Dp, pad


def observables(env, case, model, D, nv_real):
    """state-level quantities for dataset D from a clone of the initialised model state (fixed latent draw)."""
    torch, WT = env.torch, env.WT
    st = model.state.clone(disable_auto_fork=True)
    model.put_data_variables(st, D)
    torch.manual_seed(case["seed"])
    st.put_individual_latent_variables(env.LVInit.PRIOR_SAMPLES, n_individuals=D.n_individuals)
    obs = {}
    attach_ind = [k for k in st.dag if k.startswith("nll_attach") and k.endswith("_ind")]
    for k in attach_ind + [k for k in ("nll_attach", "nll_attach_y", "nll_attach_event", "nll_regul_ind_sum") if k in st.dag]:
        obs[k] = tens_val(env, st[k])
    m = st["model"]
    m = m.weighted_value if isinstance(m, WT) else m
    obs["model@real"] = m[:, :nv_real, :]
    unobs = ~(D.mask > 0).any(dim=-1)
    obs["model@unobserved_visits.abs.sum"] = torch.where(unobs[..., None].expand_as(m), m, torch.zeros_like(m)).abs().sum().reshape(1)
    obs["model.visit_sums"] = m.sum(dim=1)
    for k in ("n_obs", "n_obs_per_ft"):
        if k in st.dag:
            obs[k] = st[k].clone()
    for k in ("y_L2", "y_L2_per_ft"):
        if k in st.dag:
            obs[k] = st[k].clone()
    S = type(model).compute_sufficient_statistics(st)
    for k, v in S.items():
        if isinstance(v, WT):
            wv = v.weighted_value
            obs[f"S[{k}]@real"] = wv[:, :nv_real, ...] if wv.ndim >= 2 and wv.shape[1] == D.values.shape[1] else wv
        elif v.ndim == 3 and v.shape[1] == D.values.shape[1]:
            obs[f"S[{k}]@real"] = v[:, :nv_real, :]
            obs[f"S[{k}].visit_sums"] = v.sum(dim=1)
        else:
            obs[f"S[{k}]"] = v.clone()
    for burn in (True, False):
        w = st.clone(disable_auto_fork=True)
        try:
            type(model).update_parameters(w, S, burn_in=burn)
            for p in w.dag.sorted_variables_by_type[env.MP]:
                obs[f"param[{p}]{'burn' if burn else ''}"] = w[p].detach().clone()
        except Exception as e:  # noqa
            obs[f"update{'burn' if burn else ''}"] = err_class(e)
    # noise estimate against the RMS residual over observed entries (fresh statistics), see C04
    if "noise_std" in st.dag and "param[noise_std]" in obs:
        y, wm = D.values.double(), D.mask.double()
        mm = m.double()
        scalar = obs["param[noise_std]"].numel() == 1
        dims = (0, 1, 2) if scalar else (0, 1)
        yy = torch.where(wm > 0, y, torch.zeros_like(y))
        num = (wm * (yy - mm) ** 2).sum(dim=dims)
        obs["_rms2"] = (num / wm.sum(dim=dims)).reshape(-1)
        obs["_rms2_mag"] = ((wm * (yy ** 2 + 2 * (yy * mm).abs() + mm ** 2)).sum(dim=dims) / wm.sum(dim=dims)).reshape(-1)
    return obs


def tens_val(env, v):
    return (v.weighted_value if isinstance(v, env.WT) else v).detach().clone()


def compare_obs(env, chk, cj, base, other, bitwise, what):
    torch = env.torch
    for k, a in base.items():
        if k.startswith("_"):
            continue
        b = other.get(k)
        if isinstance(a, str) or isinstance(b, str) or b is None:
            if a is not b and not (isinstance(a, str) and a == b):
                chk.impl_failure(cj, f"{what}: '{k}' is {b if isinstance(b, str) else 'a value'} with the modified dataset, "
                                     f"{a if isinstance(a, str) else 'a value'} with the original")
            continue
        if a.shape != b.shape:
            chk.impl_failure(cj, f"{what}: '{k}' changes shape {tuple(a.shape)} -> {tuple(b.shape)}")
            continue
        a64, b64 = a.double(), b.double()
        if not bool(torch.isfinite(b64).all()) and bool(torch.isfinite(a64).all()):
            chk.impl_failure(cj, f"{what}: '{k}' becomes non-finite ({b64.reshape(-1)[:4].tolist()}): a masked value propagated")
            continue
        same = (a64 == b64) | (torch.isnan(a64) & torch.isnan(b64))
        if bitwise or k in ("n_obs", "n_obs_per_ft"):
            ok = bool(same.all())
        else:
            fin = a64[torch.isfinite(a64)]      # a nan / inf present on BOTH sides (same position) must not poison the envelope
            scale = fin.abs().max() if fin.numel() else torch.zeros((), dtype=torch.float64)
            ok = bool((same | ((a64 - b64).abs() <= 2e-5 * (a64.abs() + scale) + 1e-30)).all())
        if not ok:
            d = float(torch.nan_to_num((a64 - b64).abs(), nan=0.0).max())
            chk.impl_failure(cj, f"{what}: '{k}' differs (max abs diff {d:.3g}; original {a64.reshape(-1)[:3].tolist()}, modified {b64.reshape(-1)[:3].tolist()})")


def metamorphic_case(env, chk, case):
    torch = env.torch
    try:
        with core.quiet():
            df, D, model, n_nonnan = build_dataset(env, case)
    except Exception as e:  # noqa
        chk.tag("build", err_class(e))
        chk.case(("build-failed", repr(sorted(case.items()))), nontrivial=False)
        return
    cj = dict(case)
    nv = D.values.shape[1]
    # counts: exact
    if D.n_observations != n_nonnan or int(D.mask.sum()) != n_nonnan:
        chk.impl_failure(cj, f"Dataset.n_observations={D.n_observations}, mask sum={int(D.mask.sum())}, non-missing cells in the table={n_nonnan}")
    if not torch.equal(D.n_observations_per_ft.long(), D.mask.sum(dim=(0, 1)).long()):
        chk.impl_failure(cj, "Dataset.n_observations_per_ft != per-feature number of observed cells")
    whole_missing = bool((~(D.mask > 0).any(dim=-1) & (torch.arange(nv)[None, :] < torch.tensor(D.n_visits_per_individual)[:, None])).any())
    inside = bool(((D.mask.sum(dim=2) > 0) & (D.mask.sum(dim=2) < D.mask.shape[2])).any())
    try:
        with core.quiet():
            base = observables(env, case, model, D, nv)
    except Exception as e:  # noqa
        chk.impl_failure(cj, f"state-level evaluation on the clean dataset raises {err_class(e)}: {str(e)[:200]}")
        chk.case(("meta", repr(sorted(case.items()))), nontrivial=False)
        return
    # counts used by the model
    for k, want in (("n_obs", D.mask.sum()), ("n_obs_per_ft", D.mask.sum(dim=(0, 1)))):
        if k in base and not torch.equal(base[k].double().reshape(-1), want.double().reshape(-1)):
            chk.impl_failure(cj, f"{k}={base[k].tolist()} != number of observed entries {want.tolist()}")
    # model is exactly 0 where no feature of the visit is observed (so that unweighted reductions cannot see padding)
    if float(base["model@unobserved_visits.abs.sum"]) != 0.0:
        chk.impl_failure(cj, "model value is not 0 at a visit without any observed feature (padding or wholly missing visit)")
    # noise estimate = RMS residual over observed entries only
    if "_rms2" in base:
        got = base["param[noise_std]"].double().reshape(-1) ** 2
        tol = 64 * EPS32 * base["_rms2_mag"] + 1e-30
        if not bool(((got - base["_rms2"]).abs() <= tol).all()):
            chk.impl_failure(dict(cj, variant="clean"),
                             f"noise_std**2 {got.tolist()} is not the mean squared residual over observed entries {base['_rms2'].tolist()}",
                             finding="F3" if (case["noise"] == "scalar" and inside) else None)
    vr = random.Random(case["var_seed"])
    for kind in ("fill", "pad", "both", "fill"):
        Dp, pad = variant(env, D, kind, vr)
        cjv = dict(cj, variant=kind, pad=pad)
        try:
            with core.quiet():
                oth = observables(env, case, model, Dp, nv)
        except Exception as e:  # noqa
            chk.impl_failure(cjv, f"state-level evaluation raises {err_class(e)} with the modified dataset: {str(e)[:200]}")
            continue
        compare_obs(env, chk, cjv, base, oth, bitwise=(kind == "fill"), what=f"[{kind}{'+' + str(pad) if pad else ''}]")
        chk.tag("variant", kind)
    # short real fits and personalisations: garbage under the mask must give bitwise identical results
    try:
        fit_and_personalize(env, chk, case, cj, D, vr)
    except Exception as e:  # noqa
        chk.impl_failure(cj, f"fit / personalize comparison raised {err_class(e)}: {str(e)[:300]}")
    chk.case(("meta", case["model"], case["noise"], case["data_seed"], case["var_seed"]),
             nontrivial=bool((D.mask == 0).any()),
             sample=dict(cj, table_head=df.head(4).round(4).values.tolist()) if len(chk.samples) < 4 else None,
             tags={"part": "metamorphic", "model": case["model"], "noise": case["noise"], "whole_visit_missing": whole_missing,
                   "missing_inside_visit": inside, "padded": len(set(D.n_visits_per_individual)) > 1})


@contextlib.contextmanager
def noise_monitor(env, chk, cj, D):
    """Call-through on the real maximisation step of a fit: after every step the noise estimate must be the root-mean-square
    residual over OBSERVED entries of the statistics in force (own float64 accumulation with the documented schedule:
    memory-less up to n_burn_in + 1, then R <- R + e (r - R), e = (k - n_burn_in)^-power)."""
    torch = env.torch
    from leaspy.algo.fit.mcmc_saem import TensorMcmcSaemAlgorithm as A
    orig = A._maximization_step
    mem = {"R": None, "M": None, "reported": False}
    y, w = D.values.double(), (D.mask > 0).double()
    yy = torch.where(w > 0, y, torch.zeros_like(y))

    def wrapped(self, model, state):
        mod = state["model"]
        mod = (mod.weighted_value if isinstance(mod, env.WT) else mod).double()
        r = (w * (yy - mod) ** 2)
        mag = (w * (yy ** 2 + 2 * (yy * mod).abs() + mod ** 2))
        k, nb = self.current_iteration, self.algo_parameters["n_burn_in_iter"]
        if mem["R"] is None or k <= nb + 1:
            mem["R"], mem["M"] = r, mag
        else:
            e = float(k - nb) ** (-self.algo_parameters["burn_in_step_power"])
            mem["R"] = mem["R"] * (1.0 - e) + e * r
            mem["M"] = mem["M"] * (1.0 - e) + e * mag
        out = orig(self, model, state)
        try:
            if "noise_std" in state.dag and not mem["reported"]:
                got = state["noise_std"].double().reshape(-1) ** 2
                dims = (0, 1, 2) if got.numel() == 1 else (0, 1)
                want = (mem["R"].sum(dim=dims) / w.sum(dim=dims)).reshape(-1)
                tol = 256 * EPS32 * (mem["M"].sum(dim=dims) / w.sum(dim=dims)).reshape(-1) + 1e-30
                if bool(torch.isfinite(want).all()) and not bool(((got - want).abs() <= tol).all()):
                    mem["reported"] = True
                    phase = "memory-less" if k <= nb + 1 else f"averaged (iteration {k}, n_burn_in {nb})"
                    chk.impl_failure(dict(cj, iteration=k),
                                     f"fit iteration {k} [{phase}]: noise_std**2 {got.tolist()} is not the mean squared residual over "
                                     f"observed entries of the statistics in force {want.tolist()}")
                chk.tag("fit_noise_monitor", "memory-less" if k <= nb + 1 else "averaged")
        except Exception as e:  # noqa  — monitor problems must not hide the fit
            chk.tag("fit_noise_monitor", f"skipped:{type(e).__name__}")
        return out

    A._maximization_step = wrapped
    try:
        yield
    finally:
        A._maximization_step = orig


def fresh_model(env, case, D):
    kw = dict(dimension=case["n_ft"], source_dimension=case["src"])
    if case["noise"] in ("scalar", "diagonal"):
        kw["obs_models"] = "gaussian-" + case["noise"]
    m = env.model_factory(case["model"], **kw)
    m.initialize(D)
    return m


def fit_and_personalize(env, chk, case, cj, D, vr):
    torch = env.torch
    results = []
    variants = [("clean", D, 0)]
    # API-level runs read the ages of existing visits through `Dataset.to_pandas` (joint: initial tau = first age;
    # scipy_minimize: one table per individual), so the age of an existing visit is data even when all its features are
    # missing: here only the padding slots of `timepoints` hold garbage (the state-level comparison above also overwrites
    # the ages of wholly missing visits, which `put_data_variables` weights by 0).
    Dp, _ = variant(env, D, "fill", vr, t_whole=False)
    variants.append(("fill", Dp, 0))
    Dq, padq = variant(env, D, "both", vr, t_whole=False)
    variants.append(("both", Dq, padq))
    for name, Dv, pad in variants:
        out = {}
        try:
            with core.quiet():
                m = fresh_model(env, case, D)   # initialisation always from the clean dataset
                with noise_monitor(env, chk, dict(cj, variant=f"fit-{name}", pad=pad), Dv):
                    m.fit(Dv, "mcmc_saem", n_iter=case["n_iter"], n_burn_in_iter=case["n_burn"], seed=case["seed"], progress_bar=False)
            for p, v in m.parameters.items():
                out[f"fit[{p}]"] = v.detach().clone()
        except Exception as e:  # noqa
            out["fit"] = err_class(e)
        if "fit" not in out:
            for algo, kws in (("scipy_minimize", dict(seed=0, progress_bar=False, use_jacobian=False)),
                              ("mode_posterior", dict(seed=0, progress_bar=False, n_iter=12, n_burn_in_iter=6)),
                              ("mean_posterior", dict(seed=0, progress_bar=False, n_iter=12, n_burn_in_iter=6))):
                if algo != "scipy_minimize" and name == "both":
                    continue  # MCMC decisions may flip when sums are re-ordered by the padding: not comparable
                Dpers = Dv
                try:
                    with core.quiet():
                        ips = m.personalize(Dpers, algo, **kws)
                    _, d = ips.to_pytorch()
                    for k, v in d.items():
                        out[f"{algo}[{k}]"] = v.detach().clone()
                except Exception as e:  # noqa
                    out[algo] = err_class(e)
        results.append((name, pad, out))
    base = results[0][2]
    for name, pad, out in results[1:]:
        cjv = dict(cj, variant=f"fit-{name}", pad=pad)
        if name == "fill":
            compare_obs(env, chk, cjv, base, out, bitwise=True, what="[fit+personalize, garbage under the mask]")
        else:
            # padding + garbage: only the deterministic optimiser on per-individual data must agree (bitwise);
            # the first MCMC-SAEM iterations may legitimately diverge after a re-ordered float32 sum
            sub_a = {k: v for k, v in base.items() if k.startswith("scipy_minimize")}
            sub_b = {k: v for k, v in out.items() if k.startswith("scipy_minimize")}
            fa = {k: v for k, v in base.items() if k.startswith("fit")}
            fb = {k: v for k, v in out.items() if k.startswith("fit")}
            same_fit = (set(fa) == set(fb)) and all(
                (isinstance(fa[k], str) and fa[k] == fb[k]) or (not isinstance(fa[k], str) and not isinstance(fb[k], str) and torch.equal(fa[k], fb[k]))
                for k in fa)
            if same_fit:
                compare_obs(env, chk, cjv, sub_a, sub_b, bitwise=True, what="[personalize scipy_minimize, padding + garbage]")
            else:
                chk.tag("fit_diverged_after_padding", "yes")
                for k in fb:
                    v = fb[k]
                    if not isinstance(v, str) and not bool(torch.isfinite(v).all()):
                        chk.impl_failure(cjv, f"fit on the padded dataset gives non-finite {k}")
        chk.tag("fit_variant", name)


def meta_cases(chk):
    rng = chk.rng
    combos = [("logistic", "scalar"), ("logistic", "diagonal"), ("linear", "diagonal"), ("linear", "scalar"),
              ("shared_speed_logistic", "diagonal"), ("joint", "diagonal")]
    reps = 1 if chk.tier == "quick" else 10
    out = [dict(gen_case(random.Random(606), "quick", "logistic", "scalar"), whole_visit=True)]
    for _ in range(reps):
        for model, noise in combos:
            out.append(gen_case(rng, chk.tier, model, noise))
    return out


def run(chk: core.Check):
    env = _imports()
    chk.rule = ("(A) random float64 tensors of shape <= 3x3x2 with dyadic values k/4, nan/inf/2^100 under the masks (and a few unmasked specials), "
                "11 fixed compositions (y_x_model, model_x_model, y_L2_per_ft, nll_attach_ind, nll_attach, model, noise sums) plus random "
                "compositions of depth <= 4, and wsum_dim with random fill values, evaluated with the real WeightedTensor code and the "
                "Lean model, compared exactly; (B) generated cohorts (3-6 subjects, 2-5 visits, 2-3 features, missing cells, whole "
                "missing visits) per model kind: dataset vs copies with garbage under the mask / 1-5 extra padded visits. Non-trivial: "
                "at least one masked cell; distinct by configuration.")
    tensor_part(env, chk)
    corpus = [c for c in core.load_corpus(PROP) if isinstance(c, dict) and c.get("model")]
    for case in corpus + meta_cases(chk):
        case = {k: v for k, v in case.items() if k not in ("variant", "pad", "table_head")}
        metamorphic_case(env, chk, case)
    for f in chk.findings:
        if f.get("id") == "F3" and f.get("status") == "finding":
            bad = [x for x in chk.impl_failures if x.get("finding") == "F3"]
            if bad:
                chk.known_finding_reproduces("F3", bad[0]["what"][:300])
            else:
                chk.note("finding F3 no longer reproduces")
    chk.exhaustive = False


def replay(chk: core.Check, payload):
    env = _imports()
    case = payload.get("case") or (payload.get("disagreements") or [{}])[0].get("case")
    if not case:
        chk.note("replay file has no case")
        return
    if case.get("kind") == "tensor":
        shape = tuple(case["shape"])
        vars_ = [(v, m) for v, m in case["vars"]]
        p = case["prog"]
        try:
            r = canon_impl(env, impl_eval(env, shape, vars_, p))
        except NotImplementedError:
            r = ("err:weights", None, None)
        except Exception as e:  # noqa
            r = (f"err:other:{type(e).__name__}", None, None)
        ktab = keys_tables(shape) + [([0] * shape[0], 1)]
        head = f"nvars={len(vars_)} " + " ".join(
            f"v{i}={core.fmt_list(vals)} w{i}={'none' if m is None else (''.join('1' if b else '0' for b in m) or '_')}"
            for i, (vals, m) in enumerate(vars_))
        khead = "nkeys=4 " + " ".join(f"keys{j}={core.fmt_list(k)} n{j}={n}" for j, (k, n) in enumerate(ktab))
        resp = chk.model([f"eval {head} {khead} prog={';'.join(p)}"])[0]
        if not same_result(r, parse_model(resp)):
            chk.disagree(case, list(r), resp[:300], "expression result")
        if case.get("vars_refilled"):
            try:
                r2 = canon_impl(env, impl_eval(env, shape, [(v, m) for v, m in case["vars_refilled"]], p))
            except NotImplementedError:
                r2 = ("err:weights", None, None)
            except Exception as e:  # noqa
                r2 = (f"err:other:{type(e).__name__}", None, None)
            if not same_result(r, r2):
                chk.impl_failure(case, f"result changes when only the values under the masks change: {list(r)[:2]} vs {list(r2)[:2]}"[:600])
        chk.case(("tensor-replay",), sample=case)
        return
    if case.get("kind") == "wsum":
        shape = tuple(case["shape"])
        t = env.torch.tensor([tofloat(v) for v in case["vals"]], dtype=env.torch.float64).reshape(shape)
        wt = env.WT(t, env.torch.tensor(case["mask"], dtype=env.torch.bool).reshape(shape))
        j = case["but"]
        kw = [dict(but_dim=0), dict(but_dim=-1), dict()][j]
        s, c = env.wsum_dim(wt, fill_value=tofloat(case["fill"]), **kw)
        r = ([xtok(float(x)) for x in s.reshape(-1).tolist()], [int(x) for x in c.reshape(-1).tolist()])
        k, n = keys_tables(shape)[j]
        pred_wsum(chk, case, r, k, n)
        chk.model([f"wsum fill={case['fill']} keys={core.fmt_list(k)} n={n} vals={core.fmt_list(case['vals'])} w={''.join('1' if b else '0' for b in case['mask'])}"])
        chk.case(("wsum-replay",), sample=case)
        return
    case = {k: v for k, v in case.items() if k not in ("variant", "pad", "table_head")}
    metamorphic_case(env, chk, case)
    chk.model(["wsum fill=0 keys=0 n=1 vals=1 w=1"])
