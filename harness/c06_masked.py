"""C06 — missing and padded observations never influence any result.

(A) Correspondence: the real `WeightedTensor` classes (`_apply_operation`, `filled`, `weighted_value`, `wsum`,
    `sum_dim`, `wsum_dim`, `factory_weighted_tensor_unary_operator`) against `Model/Masked.lean` through
    `drivers/C06.lean`, on random small tensors with exact (dyadic) values, `nan` / `inf` / `2**100` under the
    masks, and random compositions of the expression language; compared exactly.
(B) The property itself on the real code (metamorphic): a `leaspy.io.data.Dataset` D against copies D' whose
    `values` / `timepoints` hold garbage under the mask and / or carry 1-5 extra padded visits; likelihood terms,
    sufficient statistics, updated parameters, trajectories, short fits and personalisations are compared
    (bitwise for fill changes, float32 rounding envelope for padding changes); observation counts exactly.
(C) Recorded programs: the torch operations executed by the real code from the Dataset tensors to the attachment terms, the
    sufficient statistics, the inputs of the noise update, the updated parameters and the model values are recorded (tracer of
    C07), sent to `drivers/C06.lean` and analysed by the positional taint analysis of `Model/Taint.lean`: every element of every
    C06 quantity must be independent of what is stored at the masked positions (`taint_sound`); the translation is validated by
    evaluating it in Lean against the real tensors, on the loader's zeros and on copies with nan / inf / 1e30 under the masks.
"""
from __future__ import annotations

import contextlib
import copy
import math
import random
import warnings
from fractions import Fraction

from . import core
from .core import fmt_rat
from . import c04_mstep as c04
from . import trace_c07 as tr

PROP = "C06"
LEAN = dict(
    props="LeaspyVerif.Props.C06",
    driver="drivers/C06.lean",
    harness="c06_masked.py",
    extra_modules=["LeaspyVerif.Model.Masked", "LeaspyVerif.Lemmas.Masked", "LeaspyVerif.Model.Trace", "LeaspyVerif.Model.Taint",
                   "LeaspyVerif.Lemmas.Taint"],
    theorems=["wsum_mask_irrelevant", "wsumDim_mask_irrelevant", "wsum_only_unmasked", "wsum_padding_irrelevant",
              "wsumDim_padding_irrelevant", "xsum_perm", "nonfinite_never_propagates", "weightedValue_masked_zero",
              "binop_weight_table", "nonInterference", "sums_equal", "counts_equal", "eval_observed", "observedOnly",
              "noise_update_observedOnly", "scalarNoiseOld_counterexample", "eval_padding", "padding_irrelevant",
              "taint_sound", "taint_sound_masked", "padding_content_irrelevant_partial", "exFilledSum_clean",
              "unfilled_weighted_sum_counterexample", "unmasked_sum_counterexample"],
    trusted_extra=[
        "values of the Lean model are exact rationals + {inf,-inf,nan} with IEEE rules for the specials; rounding and signed "
        "zeros are not modelled: the tensor-level correspondence uses small dyadic values in float64 tensors, on which the arithmetic is exact (results not representable in float64 are counted and excluded)",
        "broadcasting is done by the harness before the model is called (all operands of one expression share one shape)",
        "real-code metamorphic runs (part B) are a search for counterexamples of the property, not a proof about torch",
        "recorded programs (part C): the torch operations the real code executes from the Dataset tensors to the C06 quantities are "
        "recorded on every run (tracer of C07, harness/trace_c07.py), translated to a gather program (Taint.toGather: per output "
        "element the list of input elements it is computed from) and analysed in Lean; taint_sound holds for every interpretation of the "
        "scalar operations and every content of the garbage positions. Trusted, validated on every run and not proved: the tracer's "
        "dataflow reconstruction and the translation tables — the gather evaluation on doubles must reproduce every recorded real tensor "
        "(also on recordings with nan / inf / 1e30 actually stored under the masks) and must equal Trace.fnApply's evaluation node by node",
        "recorded programs — scope: executed paths only; the premise (which cells are garbage) is supplied by the harness: cells of "
        "Dataset.values with mask 0, ages of visits without any observed feature; a WeightedTensor output may hold garbage where its own "
        "weight is 0; one recorded program has one padding amount (programs of re-padded copies are compared up to shapes; the amount "
        "itself is covered by padding_irrelevant for the expression language and by part B); fits and personalisations are not recorded",
    ],
    assumptions=[
        "state level (put_data_variables): the age of a visit whose features are all missing is weighted 0 and is overwritten with garbage too; API level (fit / personalize read ages through Dataset.to_pandas): only padding slots of `timepoints` are overwritten",
        "padding-amount changes reorder float32 sums: compared with a relative envelope of 2e-5; multi-iteration MCMC runs are "
        "compared only for fill changes (bitwise), where every intermediate sum must be bitwise identical",
        "scalar noise rule is modelled after repair F3 (fixes/F3.patch)",
    ],
)

EPS32 = 2.0 ** -23


def _imports():
    env = c04._imports()
    from leaspy.utils.weighted_tensor import (factory_weighted_tensor_unary_operator, sum_dim, wsum_dim)
    from leaspy.variables.specs import LatentVariableInitType
    env.unary = factory_weighted_tensor_unary_operator
    env.sum_dim, env.wsum_dim = sum_dim, wsum_dim
    env.LVInit = LatentVariableInitType
    return env


err_class = c04.err_class

# =====================================================================================================
# (A) tensor-level correspondence with the Lean model
# =====================================================================================================
SPECIALS = ["nan", "inf", "-inf"]


def xtok(v):
    """canonical token of a python float"""
    if isinstance(v, str):
        return v
    if math.isnan(v):
        return "nan"
    if math.isinf(v):
        return "inf" if v > 0 else "-inf"
    return fmt_rat(Fraction(float(v)))


def tofloat(tok):
    return {"nan": float("nan"), "inf": float("inf"), "-inf": float("-inf")}.get(tok) if tok in SPECIALS else float(Fraction(tok))


def rand_val(rng, masked):
    u = rng.random()
    if masked:
        if u < 0.25:
            return "nan"
        if u < 0.4:
            return rng.choice(["inf", "-inf"])
        if u < 0.55:
            return xtok(float(2 ** 100) * rng.choice([1, -1]))
        if u < 0.7:
            return "0"
    elif u < 0.04:
        return rng.choice(SPECIALS)
    return fmt_rat(Fraction(rng.randint(-8, 8), 4))


def gen_tensor_case(rng):
    ni, nt, nf = rng.randint(1, 3), rng.randint(1, 3), rng.randint(1, 2)
    shape = (ni, nt, nf)
    n = ni * nt * nf
    mask_y = [rng.random() < 0.65 for _ in range(n)]
    # visit-level mask (any feature), broadcast over the features
    mask_t = []
    for i in range(ni):
        for t in range(nt):
            anyf = any(mask_y[(i * nt + t) * nf + f] for f in range(nf))
            mask_t += [anyf] * nf
    mask_z = [rng.random() < 0.5 for _ in range(n)]
    if rng.random() < 0.3:
        mask_z = list(mask_y)
    vars_ = []
    for kind, mask in (("wt", mask_y), ("wt", mask_t), ("plain", None), ("plain", None), ("wt", mask_z)):
        if kind == "wt":
            vals = [rand_val(rng, not m) for m in mask]
        else:
            vals = [rand_val(rng, False) for _ in range(n)]
        vars_.append((vals, mask))
    # variable 5: a scale tensor of powers of two (divisor), variable 6: all-masked weighted tensor
    vars_.append(([fmt_rat(Fraction(rng.choice([1, 2, 4, 1]), rng.choice([1, 2, 4]))) for _ in range(n)], None))
    vars_.append(([rand_val(rng, True) for _ in range(n)], [False] * n))
    return shape, vars_


UN = ["neg:none", "sqr:none", "ext0:0", "ext1:0", "ext2:none", "ext1:none", "ext0:3/2", "ext2:nan"]


def gen_prog(rng, depth):
    """random postfix program (sum-free body)"""
    if depth == 0 or rng.random() < 0.25:
        return [f"v{rng.choice([0, 0, 1, 2, 3, 4, 6])}"]
    u = rng.random()
    if u < 0.5:
        op = rng.choice(["add", "sub", "mul", "mul"])
        return gen_prog(rng, depth - 1) + gen_prog(rng, depth - 1) + [op]
    if u < 0.58:
        return gen_prog(rng, depth - 1) + ["v5", "div"]
    if u < 0.8:
        return gen_prog(rng, depth - 1) + [rng.choice(UN)]
    if u < 0.9:
        return gen_prog(rng, depth - 1) + ["wv"]
    return gen_prog(rng, depth - 1) + gen_prog(rng, depth - 1) + ["rw"]


FIXED_PROGS = [
    ["v0", "v2", "mul"],                                                   # y_x_model
    ["v2", "sqr:none"],                                                    # model_x_model
    ["v0", "sqr:none", "sum1"],                                            # y_L2_per_ft
    ["v0", "v2", "sub", "v5", "div", "sqr:none", "v3", "add", "sum0"],     # nll_attach_ind (up to constants)
    ["v0", "v2", "sub", "v5", "div", "sqr:none", "v3", "add", "sum0", "sum3"],  # nll_attach
    ["v3", "v1", "mul", "v2", "add", "ext1:0", "wv"],                      # model = weighted_value(f(filled(a*t+b, 0)))
    ["v2", "sqr:none", "v0", "v2", "mul", "rw", "sum2"],                   # repaired scalar s2
    ["v2", "sqr:none", "sum2"],                                            # old scalar s2
    ["v0", "v2", "mul", "v2", "sqr:none", "add", "sum1"],                  # diagonal numerator part
    ["v0", "v4", "add"],                                                   # weights differ
    ["v6", "sqr:none", "sum0"],                                            # all-masked aggregates
]


def keys_tables(shape):
    ni, nt, nf = shape
    n = ni * nt * nf
    k_ind = [i for i in range(ni) for _ in range(nt * nf)]
    k_ft = [f for _ in range(ni * nt) for f in range(nf)]
    return [(k_ind, ni), (k_ft, nf), ([0] * n, 1)]


def impl_eval(env, shape, vars_, prog):
    """evaluate the postfix program with the real classes"""
    torch, WT = env.torch, env.WT
    tv = []
    for vals, mask in vars_:
        t = torch.tensor([tofloat(v) for v in vals], dtype=torch.float64).reshape(shape)
        tv.append(WT(t, torch.tensor(mask, dtype=torch.bool).reshape(shape)) if mask is not None else t)
    ext = [lambda x: x.clone(), lambda x: 0.5 * x + 0.25, torch.abs]
    st = []
    summed = 0
    for tok in prog:
        if tok[0] == "v":
            st.append(tv[int(tok[1:])])
        elif tok in ("add", "sub", "mul", "div"):
            b, a = st.pop(), st.pop()
            st.append({"add": lambda: a + b, "sub": lambda: a - b, "mul": lambda: a * b, "div": lambda: a / b}[tok]())
        elif tok == "wv":
            a = st.pop()
            st.append(a.weighted_value if isinstance(a, WT) else a)
        elif tok == "rw":
            b, a = st.pop(), st.pop()
            st.append(WT(a, b.weight) if (not isinstance(a, WT) and isinstance(b, WT)) else a)
        elif tok.startswith("sum"):
            j = int(tok[3:])
            a = st.pop()
            kw = [dict(but_dim=0), dict(but_dim=-1), dict(), dict()][j]
            st.append(env.sum_dim(a, **kw))
            summed += 1
        else:
            name, f = tok.split(":")
            a = st.pop()
            if name == "neg":
                st.append(-a)
            else:
                fill = None if f == "none" else tofloat(f)
                fn = torch.square if name == "sqr" else ext[int(name[3:])]
                st.append(env.unary(fn, fill_value=fill)(a))
    assert len(st) == 1
    return st[0]


def canon_impl(env, r):
    if isinstance(r, env.WT):
        vals = [xtok(float(v)) for v in r.value.reshape(-1).tolist()]
        if r.weight is None:
            return ("plain", vals, None)
        w = [bool(b) for b in r.weight.reshape(-1).tolist()]
        return ("wt", vals, w)
    return ("plain", [xtok(float(v)) for v in r.reshape(-1).tolist()], None)


def parse_model(resp):
    if resp.startswith("err") or resp == "bad-request":
        return (resp, None, None)
    parts = resp.split(":")
    if parts[0] == "plain":
        return ("plain", core.split_ne(parts[1]), None)
    return ("wt", core.split_ne(parts[1]), [c == "1" for c in ("" if parts[2] == "_" else parts[2])])


def representable(tok):
    """is the exact value a float64?  (otherwise the implementation necessarily rounded: not comparable exactly)"""
    if tok in SPECIALS:
        return True
    q = Fraction(tok)
    n, d = abs(q.numerator), q.denominator
    while n and n % 2 == 0:
        n //= 2
    return n < 2 ** 53 and d & (d - 1) == 0 and d <= 2 ** 1000


def same_result(a, b):
    """observational equality: kind, weights, and values wherever the weight is non-zero (all values for regular tensors)"""
    if a[0] != b[0]:
        return False
    if a[0] not in ("plain", "wt"):
        return True
    if len(a[1]) != len(b[1]) or a[2] != b[2]:
        return False
    for i, (x, y) in enumerate(zip(a[1], b[1])):
        if a[2] is not None and not a[2][i]:
            continue
        if x != y and not (x in SPECIALS or y in SPECIALS) and Fraction(x) != Fraction(y):
            return False
        if (x in SPECIALS or y in SPECIALS) and x != y:
            return False
    return True


def tensor_part(env, chk):
    rng = chk.rng
    n_cases = 60 if chk.tier == "quick" else 600
    lines, metas = [], []
    for ci in range(n_cases):
        shape, vars_ = gen_tensor_case(rng)
        ktab = keys_tables(shape)
        ni = shape[0]
        progs = [list(p) for p in FIXED_PROGS] if ci % 4 == 0 else []
        for _ in range(6):
            p = gen_prog(rng, rng.randint(1, 4))
            u = rng.random()
            if u < 0.3:
                p = p + [f"sum{rng.randint(0, 2)}"]
            elif u < 0.4:
                p = p + ["sum0", "sum3"]
            progs.append(p)
        head = f"nvars={len(vars_)} " + " ".join(
            f"v{i}={core.fmt_list(vals)} w{i}={'none' if m is None else (''.join('1' if b else '0' for b in m) or '_')}"
            for i, (vals, m) in enumerate(vars_))
        # keys3: full sum of the per-individual vector
        ktab4 = ktab + [([0] * ni, 1)]
        vars2 = [(vals if m is None else [v if b else rand_val(rng, True) for v, b in zip(vals, m)], m) for vals, m in vars_]
        khead = f"nkeys=4 " + " ".join(f"keys{j}={core.fmt_list(k)} n{j}={n}" for j, (k, n) in enumerate(ktab4))
        for p in progs:
            case = {"kind": "tensor", "shape": list(shape), "vars": [[v, m] for v, m in vars_], "prog": p}
            try:
                r = canon_impl(env, impl_eval(env, shape, vars_, p))
            except NotImplementedError:
                r = ("err:weights", None, None)
            except Exception as e:  # noqa
                r = (f"err:other:{type(e).__name__}", None, None)
            lines.append(f"eval {head} {khead} prog={';'.join(p)}")
            metas.append(("eval", case, r))
            # the property on the real classes, independent of the model: re-randomise what sits under the masks
            try:
                r2 = canon_impl(env, impl_eval(env, shape, vars2, p))
            except NotImplementedError:
                r2 = ("err:weights", None, None)
            except Exception as e:  # noqa
                r2 = (f"err:other:{type(e).__name__}", None, None)
            if not same_result(r, r2):
                chk.impl_failure(dict(case, vars_refilled=[[v, m] for v, m in vars2]),
                                 f"result changes when only the values under the masks change: {list(r)[:2]} vs {list(r2)[:2]}"[:600])
            has_sum = any(t.startswith("sum") for t in p)
            chk.case(("tensor", ci, tuple(p)), nontrivial=any(m is not None and not all(m) for _, m in vars_[:2]),
                     sample=case if len(chk.samples) < 2 and has_sum else None,
                     tags={"part": "tensor", "impl_kind": r[0], "has_sum": has_sum})
        # wsum_dim with a random fill value on a weighted variable
        for vi in (0, 1, 6):
            vals, m = vars_[vi]
            j = rng.randint(0, 2)
            fill = rng.choice(["0", "7/2", "nan", "-1"])
            t = env.torch.tensor([tofloat(v) for v in vals], dtype=env.torch.float64).reshape(shape)
            wt = env.WT(t, env.torch.tensor(m, dtype=env.torch.bool).reshape(shape))
            kw = [dict(but_dim=0), dict(but_dim=-1), dict()][j]
            case = {"kind": "wsum", "shape": list(shape), "vals": vals, "mask": m, "but": j, "fill": fill}
            try:
                s, c = env.wsum_dim(wt, fill_value=tofloat(fill), **kw)
                r = ([xtok(float(x)) for x in s.reshape(-1).tolist()], [int(x) for x in c.reshape(-1).tolist()])
            except Exception as e:  # noqa
                r = (f"err:other:{type(e).__name__}", None)
            k, n = ktab[j]
            lines.append(f"wsum fill={fill} keys={core.fmt_list(k)} n={n} vals={core.fmt_list(vals)} w={''.join('1' if b else '0' for b in m)}")
            metas.append(("wsum", case, r))
            # predicate on the implementation: the sum is the exact sum of the unmasked cells / fill if none
            pred_wsum(chk, case, r, k, n)
            chk.case(("wsum", ci, vi), nontrivial=not all(m), tags={"part": "wsum"})
    out = chk.model(lines)
    for (kind, case, r), resp in zip(metas, out):
        if kind == "eval":
            m = parse_model(resp)
            if not same_result(r, m):
                if m[0] in ("plain", "wt") and not all(representable(t) for t in m[1]):
                    chk.tag("excluded_not_exact_in_float64", 1)
                    continue
                chk.disagree(case, list(r), resp[:300], "expression result (kind / weights / unmasked values)")
        else:
            try:
                parts = dict(t.split("=", 1) for t in resp.split(" "))
                ms, mc = core.split_ne(parts["sums"]), [int(x) for x in core.split_ne(parts["counts"])]
            except Exception:
                chk.disagree(case, list(r), resp[:300], "unparsable wsum response")
                continue
            ok = r[1] == mc and r[0] is not None and len(r[0]) == len(ms) and all(
                (a == b) if (a in SPECIALS or b in SPECIALS) else Fraction(a) == Fraction(b) for a, b in zip(r[0], ms))
            if not ok:
                chk.disagree(case, list(r), resp[:300], "wsum_dim (weighted sums, sums of weights)")


def pred_wsum(chk, case, r, keys, n):
    """property on the real wsum: depends on unmasked cells only; non-finite masked cells never propagate"""
    if r[1] is None:
        chk.impl_failure(case, f"wsum_dim raised {r[0]}")
        return
    vals, mask, fill = case["vals"], case["mask"], case["fill"]
    for k in range(n):
        cells = [v for v, m, kk in zip(vals, mask, keys) if m and kk == k]
        cnt = len(cells)
        if r[1][k] != cnt:
            chk.impl_failure(case, f"sum of weights {r[1][k]} != number of unmasked cells {cnt} (output {k})")
        if cnt == 0:
            want = fill
            if r[0][k] != want and not (want not in SPECIALS and r[0][k] not in SPECIALS and Fraction(r[0][k]) == Fraction(want)):
                chk.impl_failure(case, f"aggregate {k} has no unmasked cell but is {r[0][k]} instead of fill_value={fill}")
            continue
        elif any(c in SPECIALS for c in cells):
            continue  # unmasked specials: IEEE outcome compared through the model only
        else:
            want = fmt_rat(sum(Fraction(c) for c in cells))
        got = r[0][k]
        if got != want and not (got not in SPECIALS and want not in SPECIALS and Fraction(got) == Fraction(want)):
            chk.impl_failure(case, f"weighted sum of output {k} is {got}, the sum of its unmasked cells is {want}")


# =====================================================================================================
# (A2) the rest of the public surface of WeightedTensor, on the real classes only (no model): every operation, in every
#      weight dtype the class accepts, with broadcasting operands - the result may not depend on what sits under the mask
# =====================================================================================================
API_GARBAGE = [float("nan"), float("inf"), float("-inf"), 1e30, -1e30, 3.4028234663852886e38, 2e19, 0.83, -7.0, 0.0, 1e-40]


def api_ops(env, shape):
    """[(name, function(x: WeightedTensor, aux) -> result, expected weights: "same" | "expand" | None)]"""
    torch, WT = env.torch, env.WT
    ni, nt, nf = shape
    ops = [
        ("x[0]", lambda x, a: x[0], None), ("x[:, -1]", lambda x, a: x[:, -1], None), ("x[..., 0]", lambda x, a: x[..., 0], None),
        ("x[idx]", lambda x, a: x[a["idx"]], None), ("x[boolrows]", lambda x, a: x[a["rows"]], None),
        ("x.view(-1)", lambda x, a: x.view(-1), None), ("x.view(ni,-1)", lambda x, a: x.view(ni, nt * nf), None),
        ("x[..., :1].expand", lambda x, a: x[..., :1].expand(ni, nt, 3), None),
        ("x**2", lambda x, a: x ** 2, "same"), ("x**3", lambda x, a: x ** 3, "same"), ("abs(x)", lambda x, a: abs(x), "same"),
        ("x.abs()", lambda x, a: x.abs(), "same"), ("-x", lambda x, a: -x, "same"),
        ("x<c", lambda x, a: x < 0.25, "same"), ("x<=c", lambda x, a: x <= 0.25, "same"), ("x>c", lambda x, a: x > 0.25, "same"),
        ("x>=c", lambda x, a: x >= 0.25, "same"), ("x==c", lambda x, a: x == 0.5, "same"), ("x!=c", lambda x, a: x != 0.5, "same"),
        ("x<t", lambda x, a: x < a["full"], "same"),
        ("c+x", lambda x, a: 1.5 + x, "same"), ("c-x", lambda x, a: 1.5 - x, "same"), ("c*x", lambda x, a: 2.0 * x, "same"),
        ("c/x", lambda x, a: 1.0 / x, "same"), ("x/c", lambda x, a: x / 4.0, "same"),
        ("t+x", lambda x, a: a["full"] + x, "same"), ("t-x", lambda x, a: a["full"] - x, "same"), ("t/x", lambda x, a: a["full"] / x, "same"),
        ("x+0d", lambda x, a: x + a["zero_d"], "same"), ("x*ft", lambda x, a: x * a["per_ft"], "same"),
        ("x-ind", lambda x, a: x - a["per_ind"], "same"),
        ("x[..., :1]+t  (weights expand)", lambda x, a: x[..., :1] + a["full"], "expand"),
        ("x[..., :1]*t  (weights expand)", lambda x, a: x[..., :1] * a["full"], "expand"),
        ("t - x[:, :1]  (weights expand)", lambda x, a: a["full"] - x[:, :1], "expand1"),
        ("x+x", lambda x, a: x + x, "same"), ("x*x2", lambda x, a: x * a["x2"](x), "same"),
        ("filled(0)", lambda x, a: x.filled(0.0), None), ("filled(7/2)", lambda x, a: x.filled(3.5), None),
        ("weighted_value", lambda x, a: x.weighted_value, None),
        ("wsum()", lambda x, a: x.wsum(), None), ("wsum(dim=1)", lambda x, a: x.wsum(dim=1), None),
        ("wsum(dim=(1,2),fill=-1)", lambda x, a: x.wsum(dim=(1, 2), fill_value=-1.0), None),
        ("sum()", lambda x, a: x.sum(), None), ("sum(dim=0)", lambda x, a: x.sum(dim=0), None),
        ("sum(dim=-1,keepdim)", lambda x, a: x.sum(dim=-1, keepdim=True), None), ("sum(fill=2,dim=2)", lambda x, a: x.sum(fill_value=2.0, dim=2), None),
        ("sum_dim(but 0)", lambda x, a: env.sum_dim(x, but_dim=0), None), ("sum_dim(but -1)", lambda x, a: env.sum_dim(x, but_dim=-1), None),
        ("sum_dim()", lambda x, a: env.sum_dim(x), None), ("sum_dim(but (0,2))", lambda x, a: env.sum_dim(x, but_dim=(0, 2)), None),
        ("wsum_dim(but 1)", lambda x, a: env.wsum_dim(x, but_dim=1), None),
        ("wsum_only", lambda x, a: a["wsum_only"](x, but_dim=-1), None), ("weights_only", lambda x, a: a["weights_only"](x, but_dim=0), None),
        ("index_put", lambda x, a: x.index_put((a["idx"],), a["put"]), "same"),
        ("index_put(acc)", lambda x, a: x.index_put((a["idx"],), a["put"], accumulate=True), "same"),
        ("map(exp)", lambda x, a: x.map(torch.exp), "same"), ("map(clamp)", lambda x, a: x.map(torch.clamp, min=-1.0, max=1.0), "same"),
        ("map_both(flatten)", lambda x, a: x.map_both(torch.Tensor.flatten), None),
        ("valued", lambda x, a: x.valued(a["full"]), "same"), ("cpu()", lambda x, a: x.cpu(), "same"),
        ("to(cpu)", lambda x, a: x.to(device=torch.device("cpu")), "same"),
        ("filled-and-weight", lambda x, a: WT.get_filled_value_and_weight(x, fill_value=0.0), None),
        ("unary(sq,fill 0)", lambda x, a: env.unary(torch.square, fill_value=0.0)(x), "same"),
        ("unary(exp)", lambda x, a: env.unary(torch.exp)(x), "same"),
    ]
    return ops


def api_canon(env, r):
    """result -> list of (kind, tensor, weight or None)"""
    torch, WT = env.torch, env.WT
    if isinstance(r, WT):
        return [("wt", r.value, r.weight)]
    if isinstance(r, torch.Tensor):
        return [("plain", r, None)]
    if isinstance(r, (tuple, list)):
        out = []
        for x in r:
            out += api_canon(env, x) if x is not None else [("none", None, None)]
        return out
    return [("py", torch.tensor(float(r)), None)]


def api_same(env, a, b):
    torch = env.torch
    if len(a) != len(b):
        return "number of results"
    for (ka, va, wa), (kb, vb, wb) in zip(a, b):
        if ka != kb:
            return f"kind {ka} vs {kb}"
        if va is None:
            continue
        if va.shape != vb.shape or va.dtype != vb.dtype:
            return f"shape / dtype {tuple(va.shape)} {va.dtype} vs {tuple(vb.shape)} {vb.dtype}"
        if (wa is None) != (wb is None):
            return "weights present / absent"
        same = nan_same(env, va, vb) if va.dtype != torch.bool else (va == vb)
        if wa is not None:
            if wa.shape != wb.shape or not bool((wa == wb).all()):
                return "weights"
            same = same | (wa == 0)
        if not bool(same.all()):
            i = (~same).nonzero()[0].tolist()
            return f"value at {i}: {va[tuple(i)].item()!r} vs {vb[tuple(i)].item()!r}"
    return None


def api_part(env, chk):
    n_cases = 12 if chk.tier == "quick" else 120
    for ci in range(n_cases):
        seed = chk.rng.randrange(10 ** 9)
        try:
            api_case(env, chk, ci, seed)
        except Exception as e:  # noqa  (building a weighted tensor of the table failed: a failure, not an infrastructure error)
            chk.impl_failure({"kind": "api", "op": "<construction>", "ci": ci, "case_seed": seed},
                             f"WeightedTensor case {ci} could not be built / evaluated: {type(e).__name__}: {str(e)[:200]}")


def api_case(env, chk, ci, case_seed, only_op=None):
    """one random weighted tensor (everything drawn from `case_seed`: a failing case is replayed from (ci, case_seed, op))"""
    torch, WT = env.torch, env.WT
    from leaspy.utils.weighted_tensor import wsum_dim_return_sum_of_weights_only, wsum_dim_return_weighted_sum_only
    rng = random.Random(case_seed)
    wdtypes = [torch.bool, torch.uint8, torch.int64, torch.float32, torch.float64, "relative"]
    if True:
        shape = (rng.randint(2, 3), rng.randint(2, 4), rng.randint(2, 3))
        ni, nt, nf = shape
        n = ni * nt * nf
        vdt = rng.choice([torch.float32, torch.float64])
        wdt = wdtypes[ci % len(wdtypes)]
        mask = [rng.random() < 0.6 for _ in range(n)]
        if ci % 5 == 0:
            for q in range(nt * nf):          # one individual wholly masked
                mask[q] = False
        vals = [rng.randint(-8, 8) / 4 for _ in range(n)]
        fills = [[rng.choice(API_GARBAGE) for _ in range(n)] for _ in range(2)] + [[g] * n for g in rng.sample(API_GARBAGE, 2)]
        if wdt == "relative":
            w = torch.tensor([rng.choice([0.5, 1.0, 2.0, 0.25]) if m else 0.0 for m in mask], dtype=torch.float64).reshape(shape)
        else:
            w = torch.tensor([1 if m else 0 for m in mask]).to(wdt).reshape(shape)
        aux = {"idx": torch.tensor([ni - 1, 0]), "rows": torch.tensor([i % 2 == 0 for i in range(ni)]),
               "full": torch.tensor([rng.randint(-6, 6) / 2 for _ in range(n)], dtype=vdt).reshape(shape),
               "zero_d": torch.tensor(0.75, dtype=vdt), "per_ft": torch.tensor([rng.randint(1, 4) / 2 for _ in range(nf)], dtype=vdt),
               "per_ind": torch.tensor([rng.randint(-4, 4) / 2 for _ in range(ni)], dtype=vdt).reshape(ni, 1, 1),
               "put": torch.tensor([rng.randint(-4, 4) / 2 for _ in range(2 * nt * nf)], dtype=vdt).reshape(2, nt, nf),
               "x2": lambda x: WT(x.value * 0.5 + 1.0, x.weight.clone()),
               "wsum_only": wsum_dim_return_weighted_sum_only, "weights_only": wsum_dim_return_sum_of_weights_only}
        tm = torch.tensor(mask).reshape(shape)

        def make(fill):
            v = torch.where(tm, torch.tensor(vals, dtype=vdt).reshape(shape), torch.tensor(fill, dtype=vdt).reshape(shape))
            return WT(v, w.clone())
        for name, fn, wexp in api_ops(env, shape):
            if only_op is not None and name != only_op:
                continue
            case = {"kind": "api", "op": name, "ci": ci, "case_seed": case_seed, "shape": list(shape), "value_dtype": str(vdt),
                    "weight_dtype": str(wdt), "vals": vals, "mask": mask}
            res = []
            for fill in fills:
                try:
                    res.append(api_canon(env, fn(make(fill), aux)))
                except Exception as e:  # noqa
                    res.append(f"err:{type(e).__name__}")
            r0 = res[0]
            if isinstance(r0, str):
                # (every operation of this table is defined for every tensor of the table: a refusal is a failure by itself)
                chk.impl_failure(dict(case, fills=[f[:6] for f in fills]),
                                 (f"WeightedTensor `{name}` ({vdt}, weights {wdt}) raises {r0}" if all(r == r0 for r in res) else
                                  f"WeightedTensor `{name}`: raises or not depending on the values under the mask: {res[:4]}")[:400])
                chk.tag("api_op", f"{name}:{r0}")
                chk.case(("api", ci, name), nontrivial=False, tags={"part": "api"})
                continue
            for fill, r in zip(fills[1:], res[1:]):
                why = "raises " + r if isinstance(r, str) else api_same(env, r0, r)
                if why:
                    chk.impl_failure(dict(case, fill_a=fills[0][:8], fill_b=fill[:8]),
                                     f"WeightedTensor `{name}` ({vdt}, weights {wdt}): the result changes when only the values under the mask "
                                     f"change: {why}"[:500])
                    break
            # weights of an elementwise result: those of the operand (expanded to the shape of the result)
            if wexp and r0[0][0] == "wt":
                rw = r0[0][2]
                want = {"same": w, "expand": w[..., :1].expand(shape), "expand1": w[:, :1].expand(shape)}[wexp]
                if rw is None or rw.shape != r0[0][1].shape or not bool((rw.double() == want.double()).all()):
                    chk.impl_failure(case, f"WeightedTensor `{name}`: the weights of the result are not the operand's weights (expanded to the result)")
            # a reduction: the sum is the sum over the cells of non-zero weight (float64 reference, float32 envelope)
            if name in ("sum()", "sum_dim()") and r0[0][0] in ("plain", "py"):
                want = float((w.double() * torch.where(tm, torch.tensor(vals, dtype=torch.float64).reshape(shape), torch.zeros(shape, dtype=torch.float64))).sum())
                got = float(r0[0][1])
                if not abs(got - want) <= 1e-5 * (1 + abs(want)):
                    chk.impl_failure(case, f"WeightedTensor `{name}`: {got!r} is not the weighted sum of the unmasked cells {want!r}")
            chk.tag("api_weight_dtype", str(wdt))
            chk.case(("api", ci, name), nontrivial=not all(mask), tags={"part": "api"})


# =====================================================================================================
# (B) metamorphic runs on the real code
# =====================================================================================================
GARBAGE = [0.0, 1e30, -1e30, float("nan"), float("inf"), float("-inf"), 123.456, -7.0]
# widened: the largest float32, a value whose square overflows float32 only just (sqrt(3.4e38) = 1.84e19), an ordinary value inside
# the range of the outcomes, a denormal, minus zero
GARBAGE_WIDE = GARBAGE + [3.4028234663852886e38, -3.4028234663852886e38, 2e19, 0.83, 1e-40, -0.0, 0.5, 1.0]


def gen_case(rng, tier, model, noise, **over):
    c = dict(model=model, noise=noise, n_ind=rng.randint(3, 6), n_ft=rng.choice([2, 2, 3]), src=1,
             miss=rng.choice([0.15, 0.3, 0.45]), data_seed=rng.randrange(10 ** 6), seed=rng.randrange(1000),
             whole_visit=rng.random() < 0.6, n_iter=rng.randint(2, 4), n_burn=rng.randint(0, 2),
             var_seed=rng.randrange(10 ** 6))
    c.update(over)
    return c


def model_kw(case):
    kw = dict(dimension=case["n_ft"], source_dimension=case["src"])
    if case["noise"] in ("scalar", "diagonal"):
        kw["obs_models"] = "gaussian-" + case["noise"]
    elif case["noise"] == "bernoulli":
        kw["obs_models"] = "bernoulli"
    if case["model"] == "mixture_logistic":
        kw["n_clusters"] = case.get("n_clusters", 2)
    return kw


def table_to_dataset(env, case, df):
    if case["model"] == "joint":
        data = env.Data.from_dataframe(df, "joint", drop_full_nan=False)
    else:
        data = env.Data.from_dataframe(df, drop_full_nan=False)
    return env.Dataset(data)


def build_dataset(env, case):
    """clean Dataset D (optionally with visits whose features are all missing) and an initialised model"""
    df = c04.gen_table(env, case)
    fts = [c for c in df.columns if c.startswith("Y")]
    r = random.Random(case["data_seed"] + 1)
    if case["whole_visit"]:
        # blank one whole visit of up to two subjects (never their only visits with data)
        for sid in r.sample(sorted(df["ID"].unique()), k=min(2, df["ID"].nunique())):
            idx = list(df.index[df["ID"] == sid])
            if len(idx) >= 3:
                j = r.choice(idx)
                old = df.loc[j, fts].copy()
                df.loc[j, fts] = float("nan")
                if not all((df.groupby("ID")[f].count() >= 2).sum() >= 2 for f in fts):
                    df.loc[j, fts] = old
    if case["noise"] == "bernoulli":
        for f in fts:
            df[f] = (df[f] > df[f].median()).astype(float).where(df[f].notna())
    dataset = table_to_dataset(env, case, df)
    model = env.model_factory(case["model"], **model_kw(case))
    model.initialize(dataset)
    n_nonnan = int(df[fts].notna().sum().sum())
    return df, dataset, model, n_nonnan


def variant(env, D, kind, rng, t_whole=True, garbage=None, uniform=None, pad=None):
    """D' : garbage under the masks ('fill'), extra padded visits ('pad'), or both.
    `t_whole=False`: the times of existing visits whose features are all missing are kept (only padding slots get garbage).
    `garbage`: the pool of values (default GARBAGE); `uniform`: one value for every masked position; `pad`: the number of extra
    visits (default 1-5)."""
    torch = env.torch
    Dp = copy.deepcopy(D)
    if pad is None:
        pad = rng.randint(1, 5) if kind in ("pad", "both") else 0
    if pad:
        ni, nv, nf = Dp.values.shape
        Dp.values = torch.cat([Dp.values, torch.zeros(ni, pad, nf)], dim=1)
        Dp.mask = torch.cat([Dp.mask, torch.zeros(ni, pad, nf)], dim=1)
        Dp.timepoints = torch.cat([Dp.timepoints, torch.zeros(ni, pad)], dim=1)
        Dp.n_visits_max = nv + pad
    if kind in ("fill", "both"):
        g = [x for x in (garbage or GARBAGE)] if uniform is None else [uniform]
        mv = (Dp.mask == 0)
        garb = torch.tensor([rng.choice(g) for _ in range(Dp.values.numel())], dtype=torch.float32).reshape(Dp.values.shape)
        Dp.values = torch.where(mv, garb, Dp.values)
        mt = ~(Dp.mask > 0).any(dim=-1)
        if not t_whole:
            mt = torch.arange(Dp.timepoints.shape[1])[None, :] >= torch.tensor(Dp.n_visits_per_individual)[:, None]
        garbt = torch.tensor([rng.choice(g) for _ in range(Dp.timepoints.numel())], dtype=torch.float32).reshape(Dp.timepoints.shape)
        Dp.timepoints = torch.where(mt, garbt, Dp.timepoints)
    return Dp, pad


def put_latents(env, case, model, st, D):
    """The individual variables of the state: a seeded draw from the prior (historical).  Mixture model: sampling its prior
    fails for some shapes (torch MixtureSameFamily), so fixed seeded values are assigned - they depend on the seed and the number of
    individuals only, never on what the dataset holds."""
    torch = env.torch
    n = D.n_individuals
    if case["model"] != "mixture_logistic":
        torch.manual_seed(case["seed"])
        st.put_individual_latent_variables(env.LVInit.PRIOR_SAMPLES, n_individuals=n)
        return
    g = torch.Generator().manual_seed(case["seed"])
    with st.auto_fork(None):
        for k in st.dag.sorted_variables_by_type[env.IndLV]:
            d = case["src"] if k == "sources" else 1
            z = torch.randn((n, d), generator=g)
            st[k] = (70 + 4 * z) if k == "tau" else (0.4 * z if k == "xi" else z)


def observables(env, case, model, D, nv_real):
    """state-level quantities for dataset D from a clone of the initialised model state (fixed latent draw)."""
    torch, WT = env.torch, env.WT
    st = model.state.clone(disable_auto_fork=True)
    model.put_data_variables(st, D)
    put_latents(env, case, model, st, D)
    obs = {}
    attach_ind = [k for k in st.dag if k.startswith("nll_attach") and k.endswith("_ind")]
    for k in attach_ind + [k for k in ("nll_attach", "nll_attach_y", "nll_attach_event", "nll_regul_ind_sum") if k in st.dag]:
        obs[k] = tens_val(env, st[k])
    m = st["model"]
    m = m.weighted_value if isinstance(m, WT) else m
    obs["model@real"] = m[:, :nv_real, :]
    unobs = ~(D.mask > 0).any(dim=-1)
    obs["model@unobserved_visits.abs.sum"] = torch.where(unobs[..., None].expand_as(m), m, torch.zeros_like(m)).abs().sum().reshape(1)
    obs["model.visit_sums"] = m.sum(dim=1)
    for k in ("n_obs", "n_obs_per_ft"):
        if k in st.dag:
            obs[k] = st[k].clone()
    for k in ("y_L2", "y_L2_per_ft"):
        if k in st.dag:
            obs[k] = st[k].clone()
    S = type(model).compute_sufficient_statistics(st)
    for k, v in S.items():
        if isinstance(v, WT):
            wv = v.weighted_value
            obs[f"S[{k}]@real"] = wv[:, :nv_real, ...] if wv.ndim >= 2 and wv.shape[1] == D.values.shape[1] else wv
        elif v.ndim == 3 and v.shape[1] == D.values.shape[1]:
            obs[f"S[{k}]@real"] = v[:, :nv_real, :]
            obs[f"S[{k}].visit_sums"] = v.sum(dim=1)
        else:
            obs[f"S[{k}]"] = v.clone()
    for burn in (True, False):
        w = st.clone(disable_auto_fork=True)
        try:
            type(model).update_parameters(w, S, burn_in=burn)
            for p in w.dag.sorted_variables_by_type[env.MP]:
                obs[f"param[{p}]{'burn' if burn else ''}"] = w[p].detach().clone()
        except Exception as e:  # noqa
            obs[f"update{'burn' if burn else ''}"] = err_class(e)
    # noise estimate against the RMS residual over observed entries (fresh statistics), see C04
    if "noise_std" in st.dag and "param[noise_std]" in obs:
        y, wm = D.values.double(), D.mask.double()
        mm = m.double()
        scalar = obs["param[noise_std]"].numel() == 1
        dims = (0, 1, 2) if scalar else (0, 1)
        yy = torch.where(wm > 0, y, torch.zeros_like(y))
        num = (wm * (yy - mm) ** 2).sum(dim=dims)
        obs["_rms2"] = (num / wm.sum(dim=dims)).reshape(-1)
        obs["_rms2_mag"] = ((wm * (yy ** 2 + 2 * (yy * mm).abs() + mm ** 2)).sum(dim=dims) / wm.sum(dim=dims)).reshape(-1)
    return obs


def tens_val(env, v):
    return (v.weighted_value if isinstance(v, env.WT) else v).detach().clone()


def compare_obs(env, chk, cj, base, other, bitwise, what, extra_scale=None):
    """`extra_scale` (optional, name -> tensor): magnitude of the summed terms when it exceeds the magnitude of the sums themselves
    (terms of both signs), added to the base of the relative envelope."""
    torch = env.torch
    for k, a in base.items():
        if k.startswith("_"):
            continue
        b = other.get(k)
        if isinstance(a, str) or isinstance(b, str) or b is None:
            if a is not b and not (isinstance(a, str) and a == b):
                chk.impl_failure(cj, f"{what}: '{k}' is {b if isinstance(b, str) else 'a value'} with the modified dataset, "
                                     f"{a if isinstance(a, str) else 'a value'} with the original")
            continue
        if a.shape != b.shape:
            chk.impl_failure(cj, f"{what}: '{k}' changes shape {tuple(a.shape)} -> {tuple(b.shape)}")
            continue
        a64, b64 = a.double(), b.double()
        if not bool(torch.isfinite(b64).all()) and bool(torch.isfinite(a64).all()):
            chk.impl_failure(cj, f"{what}: '{k}' becomes non-finite ({b64.reshape(-1)[:4].tolist()}): a masked value propagated")
            continue
        same = (a64 == b64) | (torch.isnan(a64) & torch.isnan(b64))
        if bitwise or k in ("n_obs", "n_obs_per_ft"):
            ok = bool(same.all())
        else:
            fin = a64[torch.isfinite(a64)]      # a nan / inf present on BOTH sides (same position) must not poison the envelope
            scale = fin.abs().max() if fin.numel() else torch.zeros((), dtype=torch.float64)
            if extra_scale is not None and k in extra_scale:
                scale = scale + extra_scale[k].double()
            ok = bool((same | ((a64 - b64).abs() <= 2e-5 * (a64.abs() + scale) + 1e-30)).all())
        if not ok:
            d = float(torch.nan_to_num((a64 - b64).abs(), nan=0.0).max())
            chk.impl_failure(cj, f"{what}: '{k}' differs (max abs diff {d:.3g}; original {a64.reshape(-1)[:3].tolist()}, modified {b64.reshape(-1)[:3].tolist()})")


# ----------------------------------------------------------------------------------------------------- widened clauses of (B)
UNIFORM_FILLS = [float("nan"), float("inf"), float("-inf"), 3.4028234663852886e38, 2e19, -1e30, 0.83, 1e-40]


def check_dataset_against_table(env, chk, cj, df, D):
    """The premise of everything else, recomputed from the table (never trust the mask the implementation computed): per
    individual (order of appearance) and visit (ascending age), `mask` is 1 exactly on the non-missing cells, `values` holds the
    float32 of the cell there and 0 elsewhere, `timepoints` the ages, and everything beyond an individual's visits is 0."""
    torch, np = env.torch, env.np
    fts = [c for c in df.columns if c.startswith("Y")]
    ids = list(dict.fromkeys(df["ID"].tolist()))
    if [str(i) for i in D.indices] != [str(i) for i in ids]:
        chk.impl_failure(cj, f"Dataset.indices {D.indices[:4]} are not the individuals of the table in their order {ids[:4]}")
        return
    nv_max = max(int((df["ID"] == i).sum()) for i in ids)
    want_v = np.zeros((len(ids), nv_max, len(fts)), dtype=np.float32)
    want_m = np.zeros_like(want_v)
    want_t = np.zeros((len(ids), nv_max), dtype=np.float32)
    nvs = []
    for a, i in enumerate(ids):
        rows = df[df["ID"] == i].sort_values("TIME")
        nvs.append(len(rows))
        x = rows[fts].to_numpy(dtype=float)
        want_m[a, :len(rows)] = ~np.isnan(x)
        want_v[a, :len(rows)] = np.nan_to_num(x, nan=0.0).astype(np.float32)
        want_t[a, :len(rows)] = rows["TIME"].to_numpy(dtype=float).astype(np.float32)
    if list(D.n_visits_per_individual) != nvs:
        chk.impl_failure(cj, f"Dataset.n_visits_per_individual {list(D.n_visits_per_individual)} != visits per individual of the table {nvs}")
        return
    for name, got, want in (("mask", D.mask, want_m), ("values", D.values, want_v), ("timepoints", D.timepoints, want_t)):
        g = got.numpy()
        if g.shape != want.shape or not bool((g == want).all()):
            where = "shape" if g.shape != want.shape else str(np.argwhere(g != want)[0].tolist())
            chk.impl_failure(cj, f"Dataset.{name} differs from the table at {where}: mask must be 1 exactly on the present cells, values / "
                                 f"times zero-filled elsewhere")
    chk.tag("dataset_vs_table", "checked")


def frames_equal(env, a, b):
    if list(a.columns) != list(b.columns) or len(a) != len(b) or not a.index.equals(b.index):
        return False
    x, y = a.to_numpy(dtype=float), b.to_numpy(dtype=float)
    return bool(((x == y) | (env.np.isnan(x) & env.np.isnan(y))).all())


def check_exports(env, chk, cj, D, Dp, what):
    """What the Dataset hands out per individual / as a table (the way scipy_minimize and the joint initialisation read it) does
    not show what is stored under the mask nor the padding."""
    torch = env.torch
    try:
        if not frames_equal(env, D.to_pandas(), Dp.to_pandas()):
            chk.impl_failure(cj, f"{what}: Dataset.to_pandas() differs between the dataset and its copy (masked content or padding exported)")
        for i in range(D.n_individuals):
            a, b = D.get_values_patient(i), Dp.get_values_patient(i)
            if a.shape != b.shape or not bool(nan_same(env, a, b).all()):
                chk.impl_failure(cj, f"{what}: Dataset.get_values_patient({i}) differs ({b.reshape(-1)[:4].tolist()} vs {a.reshape(-1)[:4].tolist()})")
                break
            if not torch.equal(D.get_times_patient(i), Dp.get_times_patient(i)):
                chk.impl_failure(cj, f"{what}: Dataset.get_times_patient({i}) differs")
                break
        chk.tag("exports", "checked")
    except Exception as e:  # noqa
        chk.impl_failure(cj, f"{what}: exporting the modified dataset raises {err_class(e)}: {str(e)[:160]}")


def per_individual(env, case, model, D, lat=None, rows=None):
    """Per-individual quantities of dataset D for GIVEN latent values (`lat`: name -> tensor over the individuals of the full
    cohort, `rows`: the positions of D's individuals in it); without `lat`: a seeded prior draw, returned for re-use."""
    torch, WT = env.torch, env.WT
    st = model.state.clone(disable_auto_fork=True)
    model.put_data_variables(st, D)
    if lat is None:
        put_latents(env, case, model, st, D)
        lat = {k: st[k].detach().clone() for k in st.dag.sorted_variables_by_type[env.IndLV]}
    else:
        with st.auto_fork(None):
            for k, v in lat.items():
                st[k] = v[rows].clone()
    out = {}
    for k in [k for k in st.dag if k.startswith("nll_attach") and k.endswith("_ind")] + ["nll_regul_ind_sum_ind"]:
        if k in st.dag:
            out[k] = tens_val(env, st[k])
    m = st["model"]
    out["model"] = (m.weighted_value if isinstance(m, WT) else m).detach().clone()
    return out, lat


def check_less_padding(env, chk, cj, case, model, df, D, rng, n_single, n_subsets):
    """The padding REMOVED: an individual evaluated alone (a Dataset of his own visits, no padding at all) or in a sub-cohort
    that needs less padding gives the same individual terms and the same trajectory at his real visits as in the batch."""
    torch = env.torch
    ids = list(dict.fromkeys(df["ID"].tolist()))
    try:
        with core.quiet():
            base, lat = per_individual(env, case, model, D)
    except Exception as e:  # noqa
        chk.tag("less_padding", f"skipped:{type(e).__name__}")
        return
    nvs = list(D.n_visits_per_individual)
    longest = max(range(len(ids)), key=lambda i: nvs[i])
    # an individual's attachment term sums terms of both signs (0.5 z^2 >= 0 and log(noise_std) < 0, log-hazards ...): the
    # rounding of a re-ordered float32 sum is relative to the sum of their magnitudes, bounded here per individual by
    # (number of observed cells) * (max |log noise_std| + 1) (+ 20 for the event term of the joint model)
    try:
        ns = model.state["noise_std"].double().abs().log().abs().max() if "noise_std" in model.state.dag else torch.zeros(())
    except Exception:  # noqa
        ns = torch.zeros(())
    cells = (D.mask > 0).double().sum(dim=(1, 2))
    term_mag = cells * (ns + 1.0) + (20.0 if case["model"] == "joint" else 0.0)
    subsets = [[i] for i in rng.sample(range(len(ids)), min(n_single, len(ids)))]
    for _ in range(n_subsets):
        pool = [i for i in range(len(ids)) if i != longest]
        if len(pool) >= 2:
            subsets.append(sorted(rng.sample(pool, rng.randint(2, len(pool)))))
    for rows in subsets:
        cjs = dict(cj, variant="less-padding", individuals=[ids[i] for i in rows])
        try:
            with core.quiet():
                sub_df = df[df["ID"].isin([ids[i] for i in rows])].reset_index(drop=True)
                Ds = table_to_dataset(env, case, sub_df)
                oth, _ = per_individual(env, case, model, Ds, lat=lat, rows=rows)
        except Exception as e:  # noqa
            if case["model"] == "joint" and err_class(e) == "err:data" and not bool((sub_df["EVENT_BOOL"] != 0).any()):
                chk.tag("less_padding", "refused:no-observed-event-in-the-sub-cohort")   # announced by the reader of the joint layout
                continue
            chk.impl_failure(cjs, f"evaluating the individuals {cjs['individuals']} on their own raises {err_class(e)}: {str(e)[:160]}")
            continue
        for k, a in base.items():
            b = oth.get(k)
            if b is None:
                continue
            a = a[rows]
            if k == "model":
                nv = min(a.shape[1], b.shape[1])
                keep = torch.arange(nv)[None, :] < torch.tensor([nvs[i] for i in rows])[:, None]
                a = torch.where(keep[..., None], a[:, :nv], torch.zeros_like(a[:, :nv]))
                b = torch.where(keep[..., None], b[:, :nv], torch.zeros_like(b[:, :nv]))
            compare_obs(env, chk, cjs, {k: a}, {k: b}, bitwise=False,
                        what=f"[individuals {cjs['individuals']} alone: {Ds.n_visits_max} visits instead of {D.n_visits_max}]",
                        extra_scale=({k: term_mag[rows].reshape([-1] + [1] * (a.ndim - 1))} if k.startswith("nll_attach") else None))
        chk.tag("less_padding", "single" if len(rows) == 1 else "sub-cohort")


def check_state_reuse(env, chk, cj, case, model, D, variants, base):
    """ONE state object receiving the datasets one after the other (as a model re-used on another cohort): after the copies with
    garbage / more padding, the original dataset must give exactly the first results again."""
    torch = env.torch
    try:
        with core.quiet():
            st = model.state.clone(disable_auto_fork=True)
            for Dv in variants + [D]:
                model.put_data_variables(st, Dv)
                put_latents(env, case, model, st, Dv)
                for k in st.dag:
                    if k.startswith("nll_attach") or k in ("n_obs", "n_obs_per_ft", "y_L2", "y_L2_per_ft"):
                        st[k]
            got = {k: tens_val(env, st[k]) for k in st.dag if (k.startswith("nll_attach") or k in ("n_obs", "n_obs_per_ft", "y_L2", "y_L2_per_ft"))}
    except Exception as e:  # noqa
        chk.impl_failure(dict(cj, variant="state-reuse"), f"re-using one state for several datasets raises {err_class(e)}: {str(e)[:160]}")
        return
    sub = {k: v for k, v in base.items() if k in got}
    compare_obs(env, chk, dict(cj, variant="state-reuse"), sub, got, bitwise=True, what="[one state re-used: dataset, modified copies, dataset again]")
    chk.tag("state_reuse", "checked")


def widened_variants(env, chk, cj, case, model, df, D, base, nv, vr):
    """More of the quantifier: every kind of fill value alone at every masked position (quick: two of them, thorough: all), the
    boundary values of float32 mixed in, much more padding, the padding removed, one state re-used."""
    quick = chk.tier == "quick"
    plans = [("fill", dict(garbage=GARBAGE_WIDE)), ("both", dict(garbage=GARBAGE_WIDE, pad=vr.choice([8, 17, 40]))),
             ("pad", dict(pad=vr.choice([6, 23, 64])))]
    fills = vr.sample(UNIFORM_FILLS, 2) if quick else list(UNIFORM_FILLS)
    plans += [("fill", dict(uniform=u)) for u in fills]
    made = []
    for kind, kw in plans:
        Dp, pad = variant(env, D, kind, vr, **kw)
        label = kind + ("=" + repr(kw["uniform"]) if "uniform" in kw else "") + (f"+{pad}" if pad else "")
        cjv = dict(cj, variant=kind, pad=pad, wide=True, **({"uniform": repr(kw["uniform"])} if "uniform" in kw else {}))
        try:
            with core.quiet():
                oth = observables(env, case, model, Dp, nv)
        except Exception as e:  # noqa
            chk.impl_failure(cjv, f"state-level evaluation raises {err_class(e)} with the modified dataset [{label}]: {str(e)[:200]}")
            continue
        compare_obs(env, chk, cjv, base, oth, bitwise=(kind == "fill"), what=f"[{label}]")
        chk.tag("variant_wide", kind + ("-uniform" if "uniform" in kw else ""))
        made.append(Dp)
        if len(made) <= 2:
            # exports: ages of existing visits are data for them, only the padding slots of the ages hold garbage
            Dq, _ = variant(env, D, kind, vr, t_whole=False, **kw)
            check_exports(env, chk, cjv, D, Dq, f"[{label}]")
    check_state_reuse(env, chk, cj, case, model, D, made[:3], base)
    check_less_padding(env, chk, cj, case, model, df, D, vr, n_single=(2 if quick else 6), n_subsets=(1 if quick else 3))


def metamorphic_case(env, chk, case):
    torch = env.torch
    try:
        with core.quiet():
            df, D, model, n_nonnan = build_dataset(env, case)
    except Exception as e:  # noqa
        chk.tag("build", err_class(e))
        chk.case(("build-failed", repr(sorted(case.items()))), nontrivial=False)
        return
    cj = dict(case)
    nv = D.values.shape[1]
    # counts: exact
    if D.n_observations != n_nonnan or int(D.mask.sum()) != n_nonnan:
        chk.impl_failure(cj, f"Dataset.n_observations={D.n_observations}, mask sum={int(D.mask.sum())}, non-missing cells in the table={n_nonnan}")
    if not torch.equal(D.n_observations_per_ft.long(), D.mask.sum(dim=(0, 1)).long()):
        chk.impl_failure(cj, "Dataset.n_observations_per_ft != per-feature number of observed cells")
    whole_missing = bool((~(D.mask > 0).any(dim=-1) & (torch.arange(nv)[None, :] < torch.tensor(D.n_visits_per_individual)[:, None])).any())
    inside = bool(((D.mask.sum(dim=2) > 0) & (D.mask.sum(dim=2) < D.mask.shape[2])).any())
    try:
        with core.quiet():
            base = observables(env, case, model, D, nv)
    except Exception as e:  # noqa
        chk.impl_failure(cj, f"state-level evaluation on the clean dataset raises {err_class(e)}: {str(e)[:200]}")
        chk.case(("meta", repr(sorted(case.items()))), nontrivial=False)
        return
    # counts used by the model
    for k, want in (("n_obs", D.mask.sum()), ("n_obs_per_ft", D.mask.sum(dim=(0, 1)))):
        if k in base and not torch.equal(base[k].double().reshape(-1), want.double().reshape(-1)):
            chk.impl_failure(cj, f"{k}={base[k].tolist()} != number of observed entries {want.tolist()}")
    # model is exactly 0 where no feature of the visit is observed (so that unweighted reductions cannot see padding)
    if float(base["model@unobserved_visits.abs.sum"]) != 0.0:
        chk.impl_failure(cj, "model value is not 0 at a visit without any observed feature (padding or wholly missing visit)")
    # an individual without any observed entry: his longitudinal likelihood term is the empty sum, exactly 0 (not nan, not a fill)
    empty = ~(D.mask > 0).any(dim=2).any(dim=1)
    if bool(empty.any()):
        for k in ("nll_attach_y_ind", "nll_attach_ind"):
            if k in base and not (case["model"] == "joint" and k == "nll_attach_ind"):
                v = base[k].double().reshape(D.n_individuals, -1)[empty]
                if not bool((v == 0).all()):
                    chk.impl_failure(cj, f"'{k}' of an individual without any observed entry is {v.reshape(-1)[:3].tolist()}, the empty sum is 0")
                chk.tag("individual_without_observation", k)
                break
    # noise estimate = RMS residual over observed entries only
    if "_rms2" in base:
        got = base["param[noise_std]"].double().reshape(-1) ** 2
        tol = 64 * EPS32 * base["_rms2_mag"] + 1e-30
        if not bool(((got - base["_rms2"]).abs() <= tol).all()):
            chk.impl_failure(dict(cj, variant="clean"),
                             f"noise_std**2 {got.tolist()} is not the mean squared residual over observed entries {base['_rms2'].tolist()}",
                             finding="F3" if (case["noise"] == "scalar" and inside) else None)
    vr = random.Random(case["var_seed"])
    for kind in ("fill", "pad", "both", "fill"):
        Dp, pad = variant(env, D, kind, vr)
        cjv = dict(cj, variant=kind, pad=pad)
        try:
            with core.quiet():
                oth = observables(env, case, model, Dp, nv)
        except Exception as e:  # noqa
            chk.impl_failure(cjv, f"state-level evaluation raises {err_class(e)} with the modified dataset: {str(e)[:200]}")
            continue
        compare_obs(env, chk, cjv, base, oth, bitwise=(kind == "fill"), what=f"[{kind}{'+' + str(pad) if pad else ''}]")
        chk.tag("variant", kind)
    try:
        check_dataset_against_table(env, chk, cj, df, D)
    except Exception as e:  # noqa
        chk.impl_failure(cj, f"the Dataset could not be compared with its table: {type(e).__name__}: {str(e)[:200]}")
    try:
        widened_variants(env, chk, cj, case, model, df, D, base, nv, random.Random(case["var_seed"] + 99))
    except Exception as e:  # noqa
        chk.impl_failure(cj, f"widened comparisons raised {err_class(e)}: {type(e).__name__}: {str(e)[:300]}")
    # short real fits and personalisations: garbage under the mask must give bitwise identical results
    try:
        if case.get("fits", True):
            fit_and_personalize(env, chk, case, cj, D, vr)
    except Exception as e:  # noqa
        chk.impl_failure(cj, f"fit / personalize comparison raised {err_class(e)}: {str(e)[:300]}")
    chk.case(("meta", case["model"], case["noise"], case["data_seed"], case["var_seed"]),
             nontrivial=bool((D.mask == 0).any()),
             sample=dict(cj, table_head=df.head(4).round(4).values.tolist()) if len(chk.samples) < 4 else None,
             tags={"part": "metamorphic", "model": case["model"], "noise": case["noise"], "whole_visit_missing": whole_missing,
                   "missing_inside_visit": inside, "padded": len(set(D.n_visits_per_individual)) > 1})


@contextlib.contextmanager
def noise_monitor(env, chk, cj, D):
    """Call-through on the real maximisation step of a fit: after every step the noise estimate must be the root-mean-square
    residual over OBSERVED entries of the statistics in force (own float64 accumulation with the documented schedule:
    memory-less up to n_burn_in + 1, then R <- R + e (r - R), e = (k - n_burn_in)^-power)."""
    torch = env.torch
    from leaspy.algo.fit.mcmc_saem import TensorMcmcSaemAlgorithm as A
    orig = A._maximization_step
    mem = {"R": None, "M": None, "reported": False}
    y, w = D.values.double(), (D.mask > 0).double()
    yy = torch.where(w > 0, y, torch.zeros_like(y))

    def wrapped(self, model, state):
        def model_values():
            m = state["model"]
            return (m.weighted_value if isinstance(m, env.WT) else m).double()
        snap = {"mod": model_values()}
        # the model values AT THE MOMENT THE STATISTICS ARE COLLECTED: collecting them may move the latent values first (re-centring;
        # the mixture model also re-centres its sources, which changes the model values)
        orig_css = model.compute_sufficient_statistics

        def css(st, *a, **kw):
            res = orig_css(st, *a, **kw)
            if st is state:
                snap["mod"] = model_values()
            return res
        try:
            model.compute_sufficient_statistics = css
            hooked = True
        except Exception:  # noqa
            hooked = False
        try:
            out = orig(self, model, state)
        finally:
            if hooked:
                try:
                    del model.compute_sufficient_statistics
                except Exception:  # noqa
                    pass
        mod = snap["mod"]
        r = (w * (yy - mod) ** 2)
        mag = (w * (yy ** 2 + 2 * (yy * mod).abs() + mod ** 2))
        k, nb = self.current_iteration, self.algo_parameters["n_burn_in_iter"]
        if mem["R"] is None or k <= nb + 1:
            mem["R"], mem["M"] = r, mag
        else:
            e = float(k - nb) ** (-self.algo_parameters["burn_in_step_power"])
            mem["R"] = mem["R"] * (1.0 - e) + e * r
            mem["M"] = mem["M"] * (1.0 - e) + e * mag
        try:
            if "noise_std" in state.dag and not mem["reported"]:
                got = state["noise_std"].double().reshape(-1) ** 2
                dims = (0, 1, 2) if got.numel() == 1 else (0, 1)
                want = (mem["R"].sum(dim=dims) / w.sum(dim=dims)).reshape(-1)
                tol = 256 * EPS32 * (mem["M"].sum(dim=dims) / w.sum(dim=dims)).reshape(-1) + 1e-30
                if bool(torch.isfinite(want).all()) and not bool(((got - want).abs() <= tol).all()):
                    mem["reported"] = True
                    phase = "memory-less" if k <= nb + 1 else f"averaged (iteration {k}, n_burn_in {nb})"
                    chk.impl_failure(dict(cj, iteration=k),
                                     f"fit iteration {k} [{phase}]: noise_std**2 {got.tolist()} is not the mean squared residual over "
                                     f"observed entries of the statistics in force {want.tolist()}")
                chk.tag("fit_noise_monitor", "memory-less" if k <= nb + 1 else "averaged")
        except Exception as e:  # noqa  — monitor problems must not hide the fit
            chk.tag("fit_noise_monitor", f"skipped:{type(e).__name__}")
        return out

    A._maximization_step = wrapped
    try:
        yield
    finally:
        A._maximization_step = orig


def fresh_model(env, case, D):
    m = env.model_factory(case["model"], **model_kw(case))
    m.initialize(D)
    return m


def fit_and_personalize(env, chk, case, cj, D, vr):
    torch = env.torch
    results = []
    variants = [("clean", D, 0)]
    # API-level runs read the ages of existing visits through `Dataset.to_pandas` (joint: initial tau = first age;
    # scipy_minimize: one table per individual), so the age of an existing visit is data even when all its features are
    # missing: here only the padding slots of `timepoints` hold garbage (the state-level comparison above also overwrites
    # the ages of wholly missing visits, which `put_data_variables` weights by 0).
    Dp, _ = variant(env, D, "fill", vr, t_whole=False)
    variants.append(("fill", Dp, 0))
    Dq, padq = variant(env, D, "both", vr, t_whole=False)
    variants.append(("both", Dq, padq))
    for name, Dv, pad in variants:
        out = {}
        try:
            with core.quiet():
                m = fresh_model(env, case, D)   # the fits below all start from the clean dataset's initialisation
                if name != "clean":
                    # ... and a model initialised on the modified dataset itself (first `fit` of a fresh model) starts from
                    # the very same parameters: data-derived initial values read observed entries and real visits only
                    try:
                        mi = env.model_factory(case["model"], **model_kw(case))
                        mi.initialize(Dv)
                        pa, pb = dict(m.parameters), dict(mi.parameters)
                        badp = [k for k in pa if k not in pb or pa[k].shape != pb[k].shape
                                or not bool(torch.equal(torch.nan_to_num(pa[k].double(), nan=-7.25), torch.nan_to_num(pb[k].double(), nan=-7.25)))]
                        if badp:
                            k0 = badp[0]
                            chk.impl_failure(dict(cj, variant=f"initialize-{name}", pad=pad),
                                             f"[initialize on the modified dataset] initial '{k0}' is {pb.get(k0).reshape(-1)[:3].tolist() if k0 in pb else None}, "
                                             f"on the original dataset {pa[k0].reshape(-1)[:3].tolist()}")
                        chk.tag("initialize_variant", name)
                    except Exception as e:  # noqa
                        chk.impl_failure(dict(cj, variant=f"initialize-{name}", pad=pad),
                                         f"initialisation raises {err_class(e)} on the modified dataset: {str(e)[:150]}")
                with noise_monitor(env, chk, dict(cj, variant=f"fit-{name}", pad=pad), Dv):
                    m.fit(Dv, "mcmc_saem", n_iter=case["n_iter"], n_burn_in_iter=case["n_burn"], seed=case["seed"], progress_bar=False)
            for p, v in m.parameters.items():
                out[f"fit[{p}]"] = v.detach().clone()
        except Exception as e:  # noqa
            out["fit"] = err_class(e)
        if "fit" not in out:
            for algo, kws in (("scipy_minimize", dict(seed=0, progress_bar=False, use_jacobian=False)),
                              ("mode_posterior", dict(seed=0, progress_bar=False, n_iter=12, n_burn_in_iter=6)),
                              ("mean_posterior", dict(seed=0, progress_bar=False, n_iter=12, n_burn_in_iter=6))):
                if algo != "scipy_minimize" and name == "both":
                    continue  # MCMC decisions may flip when sums are re-ordered by the padding: not comparable
                if case.get("pers") is not None and algo not in case["pers"]:
                    continue
                Dpers = Dv
                try:
                    with core.quiet():
                        ips = m.personalize(Dpers, algo, **kws)
                    _, d = ips.to_pytorch()
                    for k, v in d.items():
                        out[f"{algo}[{k}]"] = v.detach().clone()
                except Exception as e:  # noqa
                    out[algo] = err_class(e)
        results.append((name, pad, out))
    base = results[0][2]
    for name, pad, out in results[1:]:
        cjv = dict(cj, variant=f"fit-{name}", pad=pad)
        if name == "fill":
            compare_obs(env, chk, cjv, base, out, bitwise=True, what="[fit+personalize, garbage under the mask]")
        else:
            # padding + garbage: only the deterministic optimiser on per-individual data must agree (bitwise);
            # the first MCMC-SAEM iterations may legitimately diverge after a re-ordered float32 sum
            sub_a = {k: v for k, v in base.items() if k.startswith("scipy_minimize")}
            sub_b = {k: v for k, v in out.items() if k.startswith("scipy_minimize")}
            fa = {k: v for k, v in base.items() if k.startswith("fit")}
            fb = {k: v for k, v in out.items() if k.startswith("fit")}
            same_fit = (set(fa) == set(fb)) and all(
                (isinstance(fa[k], str) and fa[k] == fb[k]) or (not isinstance(fa[k], str) and not isinstance(fb[k], str) and torch.equal(fa[k], fb[k]))
                for k in fa)
            if same_fit:
                compare_obs(env, chk, cjv, sub_a, sub_b, bitwise=True, what="[personalize scipy_minimize, padding + garbage]")
            else:
                chk.tag("fit_diverged_after_padding", "yes")
                for k in fb:
                    v = fb[k]
                    if not isinstance(v, str) and not bool(torch.isfinite(v).all()):
                        if case["model"] == "mixture_logistic":
                            # a very short mixture fit on a handful of subjects may collapse a cluster (dispersion 0 -> nan at the
                            # next step: no collapse guard in the mixture rules, DESIGN 10.2 C04) on either chain once the padding
                            # has re-ordered one float32 sum; that is the mixture model's matter, not the mask's
                            chk.tag("mixture_fit_collapsed_after_padding", k)
                            continue
                        chk.impl_failure(cjv, f"fit on the padded dataset gives non-finite {k}")
        chk.tag("fit_variant", name)



# =====================================================================================================
# (C) recorded programs: positional taint analysis in Lean (`Model/Taint.lean`)
# =====================================================================================================
TR_RTOL = 2e-4
F31 = "F31"


def dataset_leaves(env, D):
    """Every tensor held by the Dataset: the inputs of the recorded program."""
    return [(k, v) for k, v in vars(D).items() if isinstance(v, env.torch.Tensor)]


def garbage_roles(env, D, T):
    """The premise of the property, per data input of the recorded program (in the tracer's order): the mask is a known
    constant; cells of `values` with mask 0 and ages of visits without any observed feature are garbage; the rest is clean."""
    roles = []
    for nd in T.nodes:
        if nd.kind not in "IJ":
            continue
        if nd.name == "mask":
            roles.append("k")
        elif nd.name == "values":
            roles.append("d" + "".join("1" if b else "0" for b in (D.mask == 0).reshape(-1).tolist()))
        elif nd.name == "timepoints":
            roles.append("d" + "".join("1" if b else "0" for b in (~(D.mask > 0).any(dim=-1)).reshape(-1).tolist()))
        else:
            roles.append("c")
    return ";".join(roles) if roles else "_"


def c06_quantities(env, case, model, D, st=None):
    """The quantities C06 names, computed by the real code from the Dataset `D`: every State variable that depends on the
    data, the sufficient statistics, the parameters after `update_parameters` (burn-in and not).  Returns
    [(label, tensor, weight tensor or None)]: for a WeightedTensor the value is required clean only where its weight is not 0."""
    torch, WT = env.torch, env.WT
    from leaspy.variables.specs import DataVariable
    st = model.state.clone(disable_auto_fork=True) if st is None else st
    model.put_data_variables(st, D)
    put_latents(env, case, model, st, D)
    dag = st.dag
    roots = {n for n in dag if isinstance(dag[n], DataVariable)}
    names = [n for n in dag if n not in roots and set(dag.sorted_ancestors[n]) & roots]
    out = []

    def add(label, v):
        if isinstance(v, WT):
            out.append((label + ".value", v.value, v.weight))
            if v.weight is not None:
                out.append((label + ".weight", v.weight, None))
        elif isinstance(v, torch.Tensor):
            out.append((label, v, None))
    for n in names:
        add(n, st[n])
    S = type(model).compute_sufficient_statistics(st)
    for k, v in S.items():
        add(f"S[{k}]", v)
    for burn in (True, False):
        w = st.clone(disable_auto_fork=True)
        type(model).update_parameters(w, S, burn_in=burn)
        for p_ in w.dag.sorted_variables_by_type[env.MP]:
            add(f"param[{p_}]{'@burn' if burn else ''}", w[p_])
    return out


def record_quantities(env, case, model, D):
    leafmap, keep = {}, []
    for k, v in dataset_leaves(env, D):
        leafmap[id(v)] = ("I", k)
        keep.append(v)
    T = tr.Tracer(-1, leafmap, keep)      # no batch axis here: every tensor outside the Dataset is population-level ("clean")
    with T:
        q = c06_quantities(env, case, model, D)
    outs = [(lab, T.out_node(t), t, None if w is None else T.out_node(w), w) for (lab, t, w) in q]
    return T, outs


OBS_ONLY_LABELS = ("param[noise_std]", "nll_attach")


def prepared_state(env, case, model, D, patch_model=None):
    """State with the data and a fixed latent draw; `model` is evaluated (and optionally overwritten at the cells of `y` that
    are not observed) before anything downstream of it."""
    torch = env.torch
    st = model.state.clone(disable_auto_fork=True)
    model.put_data_variables(st, D)
    put_latents(env, case, model, st, D)
    m = st["model"]
    if patch_model is not None:
        m = torch.where(D.mask == 0, patch_model, m)
        st._values["model"] = m       # (the cached value of the linked variable: what every statistic reads)
    return st, m


def downstream_of_model(env, st, model):
    out = []
    for n in [k for k in st.dag if k.startswith("nll_attach")]:
        v = st[n]
        out.append((n, v.weighted_value if isinstance(v, env.WT) else v, None))
    S = type(model).compute_sufficient_statistics(st)
    for burn in (True, False):
        w = st.clone(disable_auto_fork=True)
        type(model).update_parameters(w, S, burn_in=burn)
        if "noise_std" in w.dag:
            out.append((f"param[noise_std]{'@burn' if burn else ''}", w["noise_std"], None))
    return out


def record_observed_only(env, case, model, D):
    """Second premise ("noise estimates and attachment use observed entries only"): the model values at the cells of `y` that are
    not observed (missing inside a visit, wholly missing visits, padding) are declared garbage, together with `y` under its mask;
    recorded: everything downstream of `model` up to the attachment terms and the updated noise_std."""
    st, m = prepared_state(env, case, model, D)
    y = st["y"]
    leafmap = {id(m): ("I", "model"), id(y.value): ("I", "values"), id(y.weight): ("I", "mask")}
    T = tr.Tracer(-1, leafmap, [m, y.value, y.weight])
    T.preload([m, y.value, y.weight])
    with T:
        q = downstream_of_model(env, st, model)
    outs = [(lab, T.out_node(t), t, None, None) for (lab, t, w) in q]
    roles = []
    for nd in T.nodes:
        if nd.kind in "IJ":
            roles.append("k" if nd.name == "mask" else "d" + "".join("1" if b else "0" for b in (D.mask == 0).reshape(-1).tolist()))
    return T, outs, ";".join(roles)


def search_observed_only(env, case, model, D, labels, rng):
    """Failing-input search for the second premise: the model values at unobserved cells are replaced (finite values: they stand
    for another trajectory at entries nobody observed) and the attachment terms / noise estimates are recomputed."""
    torch = env.torch
    with core.quiet():
        st, _ = prepared_state(env, case, model, D)
        base = {lab: t.detach().clone() for lab, t, _ in downstream_of_model(env, st, model)}
    for trial, g in enumerate((0.5, -3.0, 10.0, None, None)):
        patch = torch.full_like(D.values, g) if g is not None else torch.tensor(
            [rng.uniform(-2, 2) for _ in range(D.values.numel())], dtype=torch.float32).reshape(D.values.shape)
        with core.quiet():
            st2, _ = prepared_state(env, case, model, D, patch_model=patch)
            oth = {lab: t.detach().clone() for lab, t, _ in downstream_of_model(env, st2, model)}
        for lab in labels:
            if lab in base and lab in oth and not bool(nan_same(env, base[lab], oth[lab]).all()):
                return (f"'{lab}' is {base[lab].reshape(-1)[:3].tolist()} and becomes {oth[lab].reshape(-1)[:3].tolist()} when only the model values "
                        f"at the cells of y that are NOT observed change (set to {g if g is not None else 'random values'})",
                        {"search": "model-at-unobserved-cells", "value": g, "label": lab})
    return None


def nan_same(env, a, b):
    torch = env.torch
    a, b = a.double(), b.double()
    return (a == b) | (torch.isnan(a) & torch.isnan(b))


def search_fill(env, case, model, D, labels, rng):
    """Targeted failing-input search for outputs the analysis rejected: every masked cell of `values` / garbage age of
    `timepoints` set to one garbage value at a time (finite, huge, nan, +inf, -inf), then random mixtures; the offending
    outputs are compared bitwise (where their weight is not 0).  Returns (description, details) or None."""
    torch = env.torch
    with core.quiet():
        base = {lab: (t.detach().clone(), None if w is None else w.detach().clone()) for lab, t, w in c06_quantities(env, case, model, D)}
    mv = (D.mask == 0)
    mt = ~(D.mask > 0).any(dim=-1)
    trials = [("all=" + repr(g), g) for g in (float("nan"), float("inf"), float("-inf"), 1e30, -7.0, 123.456)] + [("mixed", None)] * 3
    for name, g in trials:
        Dp = copy.deepcopy(D)
        if g is None:
            gv = torch.tensor([rng.choice(GARBAGE) for _ in range(Dp.values.numel())], dtype=torch.float32).reshape(Dp.values.shape)
            gt = torch.tensor([rng.choice(GARBAGE) for _ in range(Dp.timepoints.numel())], dtype=torch.float32).reshape(Dp.timepoints.shape)
        else:
            gv, gt = torch.full_like(Dp.values, g), torch.full_like(Dp.timepoints, g)
        Dp.values = torch.where(mv, gv, Dp.values)
        Dp.timepoints = torch.where(mt, gt, Dp.timepoints)
        try:
            with core.quiet():
                oth = {lab: (t.detach().clone(), w) for lab, t, w in c06_quantities(env, case, model, Dp)}
        except Exception as e:  # noqa
            return (f"with {name} under the masks the evaluation raises {err_class(e)}: {str(e)[:160]}", {"fill": name})
        for lab in labels:
            if lab not in base or lab not in oth:
                continue
            a, w = base[lab]
            b = oth[lab][0]
            if a.shape != b.shape:
                return (f"'{lab}' changes shape with {name} under the masks", {"fill": name, "label": lab})
            same = nan_same(env, a, b)
            if w is not None:
                same = same | (w == 0)
            if not bool(same.all()):
                idx = (~same).nonzero()[0].tolist()
                return (f"'{lab}'{idx} is {float(a[tuple(idx)])!r} with the loader's zeros and {float(b[tuple(idx)])!r} with {name} at the masked "
                        f"cells of Dataset.values / the ages of visits without observed feature", {"fill": name, "label": lab, "index": idx})
    return None


def taint_case(env, chk, case, lines, expect):
    """(C) record the C06 quantities on the dataset, on a copy with garbage (nan / inf included) under the masks and on a
    re-padded copy; queue the Lean requests."""
    torch = env.torch
    cj = dict(case, kind="taint")
    try:
        with core.quiet():
            df, D, model, _ = build_dataset(env, case)
    except Exception as e:  # noqa
        chk.tag("build", err_class(e))
        return
    vr = random.Random(case["var_seed"] + 17)
    recs = []
    try:
        variants = [("clean", D)]
        Df, _ = variant(env, D, "fill", vr)
        variants.append(("fill", Df))
        Dp, pad = variant(env, D, "both", vr)
        variants.append((f"pad+{pad}", Dp))
        for vname, Dv in variants:
            with core.quiet():
                T, outs = record_quantities(env, case, model, Dv)
            recs.append((vname, Dv, T, outs))
    except Exception as e:  # noqa
        f31 = case["noise"] == "bernoulli" and len(recs) >= 1 and "within the support" in str(e)
        chk.impl_failure(dict(cj, variant="fill"), f"evaluating the quantities on the copy with garbage under the masks raises {err_class(e)}: "
                         f"{type(e).__name__}: {str(e)[:200]}" if recs else
                         f"recording the quantities failed: {err_class(e)}: {type(e).__name__}: {str(e)[:200]}", finding=F31 if f31 else None)
        if not recs:
            chk.case(("taint", repr(sorted(case.items()))), nontrivial=False)
            return
    try:
        with core.quiet():
            T2, outs2, roles2 = record_observed_only(env, case, model, D)
        lines.append("taint " + T2.program([o[1] for o in outs2]) + f" roles={roles2} " + T2.leaf_data())
        expect.append({"case": dict(cj, variant="observed-only"), "D": D, "T": T2, "outs": outs2, "model": model, "base_case": case,
                       "observed_only": True})
    except Exception as e:  # noqa
        chk.impl_failure(dict(cj, variant="observed-only"), f"recording the noise update failed: {err_class(e)}: {type(e).__name__}: {str(e)[:200]}")
    sk0 = recs[0][2].skeleton()
    for vname, Dv, T, outs in recs:
        info = {"case": dict(cj, variant=vname), "D": Dv, "T": T, "outs": outs, "model": model, "base_case": case}
        if T.skeleton() != sk0:
            sk = T.skeleton()
            k = next((q for q, (x, y) in enumerate(zip(sk0, sk)) if x != y), min(len(sk0), len(sk)))
            info["skeleton_diff"] = f"first difference at node {k}: `{sk0[k] if k < len(sk0) else '-'}` (clean dataset) vs `{sk[k] if k < len(sk) else '-'}` ({vname})"
        chk.tag("taint_programs_across_variants", "identical-up-to-shapes" if T.skeleton() == sk0 else "DIFFERENT")
        for k_, c in T.unknown_ops.items():
            chk.tag("taint_unknown_op", k_, c)
        lines.append("taint " + T.program([o[1] for o in outs] + [o[3] for o in outs if o[3] is not None][:0]) +
                     f" roles={garbage_roles(env, Dv, T)} " + T.leaf_data())
        expect.append(info)
        chk.tag("taint_nodes", f"{50 * (len(T.nodes) // 50)}+")
    chk.case(("taint", case["model"], case["noise"], case["data_seed"], case["var_seed"]), nontrivial=bool((D.mask == 0).any()),
             tags={"part": "taint", "model": case["model"], "noise": case["noise"]})


def handle_taint(env, chk, resp, info, line):
    cj, T, outs, D = info["case"], info["T"], info["outs"], info["D"]
    torch = env.torch
    if resp.startswith("err") or resp == "bad-request":
        chk.disagree(cj, "ran", resp, "model refuses the taint request")
        return
    parts = dict(p.split("=", 1) for p in resp.split(" "))
    flags = dict(it.split(":", 1) for it in parts["flags"].split(";"))
    vals = {}
    for it in parts["vals"].split(";"):
        o, sh, d = it.split(":")
        vals[o] = (sh, d)
    chk.tag("taint_xcheck_fnApply", {"1": "agrees", "na": "not-applicable(operation outside the table)"}.get(parts.get("xcheck"), "DIFFERS"))
    if parts.get("xcheck") not in ("1", "na"):
        chk.disagree(cj, "Trace.fnApply", parts.get("xcheck"), "the gather translation of a node disagrees with Trace.fnApply on the recorded inputs")
    # ---- the verdict: every output element that matters must not be dirty
    offending = []
    for lab, nd, t, wnd, w in outs:
        f = flags.get(str(nd), "")
        if len(f) != t.numel():
            chk.disagree(cj, t.numel(), len(f), f"number of flags of {lab}")
            continue
        bad = [q for q, c in enumerate(f) if c == "d"]
        if w is not None:
            wz = (w == 0).reshape(-1).tolist()
            under = [q for q in bad if wz[q]]
            bad = [q for q in bad if not wz[q]]
            chk.tag("taint_cells", "dirty-under-weight-0(allowed)", len(under))
        chk.tag("taint_cells", "known", f.count("k"))
        chk.tag("taint_cells", "clean", f.count("c"))
        if bad:
            offending.append((lab, nd, bad))
    reasons = []
    if parts.get("unsupported", "_") != "_":
        reasons.append("operations outside the table: " + ", ".join(T.nodes[int(k)].text()[:80] for k in parts["unsupported"].split(",")[:3]))
    desc = [int(k) for k in parts.get("dirtyesc", "_").split(",") if k != "_"]
    if info.get("observed_only"):
        # under this premise the "garbage" are genuine model values: an assertion on them (torch.distributions' argument
        # validation, WeightedTensor's weight check) can not fire differently
        desc = [k for k in desc if not T.nodes[k].is_assert]
    if desc:
        k = desc[0]
        reasons.append(f"a value that depends on a masked cell is turned into a python value at {T.nodes[k].site}")
        offending.append((f"<escape at {T.nodes[k].site}>", k, [0]))
    if "skeleton_diff" in info:
        reasons.append("the recorded program depends on what is under the mask: " + info["skeleton_diff"])
    chk.tag("taint_verdict" + ("_observed_only" if info.get("observed_only") else ""), "all-clean" if not (offending or reasons) else "REJECTED")
    if offending or reasons:
        lab, nd, bad = offending[0] if offending else ("<program>", None, [])
        path_txt = ""
        if nd is not None and not lab.startswith("<escape"):
            pr = chk.model([line.replace("taint ", "taintpath ", 1) + f" out={nd} pos={bad[0]}"])[0]
            if pr.startswith("path="):
                ids = [int(x.split(":")[0]) for x in pr[5:].split(",") if x != "_"]
                path_txt = " <- ".join(T.nodes[i].text().split("|")[1] if T.nodes[i].kind == "O" else f"{T.nodes[i].kind}:{T.nodes[i].name}" for i in ids[:12])
        what = (f"recorded program ({cj['variant']}): {len(offending)} output(s) may depend on masked cells; first: '{lab}' element {bad[:3]}"
                f"{' via ' + path_txt if path_txt else ''}{'; ' + '; '.join(reasons) if reasons else ''}")
        found = None
        try:
            labs = [o[0] for o in offending if not o[0].startswith("<")] or [o[0] for o in outs]
            if info.get("observed_only"):
                found = search_observed_only(env, info["base_case"], info["model"], D, labs, random.Random(info["base_case"]["var_seed"] + 6))
            else:
                found = search_fill(env, info["base_case"], info["model"], D, labs, random.Random(info["base_case"]["var_seed"] + 5))
        except Exception as e:  # noqa
            chk.note(f"targeted search failed: {type(e).__name__}: {str(e)[:100]}")
        # F31 region: Bernoulli observation model, the only offence is torch's support validation reading the masked cells
        f31 = (info["base_case"]["noise"] == "bernoulli" and all(o[0].startswith("<escape") and "_validate_sample" in o[0] for o in offending)
               and not [r for r in reasons if not r.startswith("a value that depends")])
        if found:
            chk.impl_failure(dict(cj, **found[1]), f"{what}; concrete failing input: {found[0]}", finding=F31 if f31 else None)
        else:
            chk.disagree(cj, "every C06 output clean", (lab, bad[:3], path_txt), what)
        return
    # ---- validation of the translation: the gather evaluation reproduces the real tensors (where they are not garbage)
    worst = None
    for lab, nd, t, wnd, w in outs:
        sh, d = vals.get(str(nd), ("?", "_"))
        if sh != tr.shp(t.shape):
            worst = f"{lab}: shape {sh} vs torch {tr.shp(t.shape)}"
            break
        lv = torch.tensor([core.parse_float(x) for x in core.split_ne(d)], dtype=torch.float64).reshape(t.shape)
        tv = t.detach().double()
        ok = ((lv - tv).abs() <= TR_RTOL * (1 + tv.abs())) | nan_same(env, lv, tv)
        f = flags[str(nd)]
        dirty = torch.tensor([c == "d" for c in f], dtype=torch.bool).reshape(t.shape)
        ok = ok | dirty
        if not bool(ok.all()):
            idx = (~ok).nonzero()[0].tolist()
            worst = f"{lab}{idx}: lean {float(lv[tuple(idx)])!r} vs torch {float(tv[tuple(idx)])!r}"
            break
    chk.tag("taint_eval", "agrees" if worst is None else "DIFFERS")
    if worst is not None:
        chk.disagree(cj, "real tensors", worst, "the Lean evaluation of the gather program does not reproduce the real tensors (tracer or translation wrong)")


def f31_probe(env, chk, case):
    """Witness of F31 on every run: a binary dataset, nan at the masked cells of Dataset.values, the attachment term."""
    torch = env.torch
    try:
        with core.quiet():
            df, D, model, _ = build_dataset(env, case)
            Dp = copy.deepcopy(D)
            Dp.values = torch.where(D.mask == 0, torch.full_like(D.values, float("nan")), D.values)
            st = model.state.clone(disable_auto_fork=True)
            model.put_data_variables(st, Dp)
            torch.manual_seed(case["seed"])
            st.put_individual_latent_variables(env.LVInit.PRIOR_SAMPLES, n_individuals=D.n_individuals)
            try:
                st["nll_attach_ind"]
                raised = None
            except ValueError as e:
                raised = str(e)[:160]
    except Exception as e:  # noqa
        chk.note(f"F31 probe could not run: {type(e).__name__}: {str(e)[:100]}")
        return
    listed = [f for f in chk.findings if f.get("id") == F31 and f.get("status") == "finding"]
    if raised:
        if listed:
            chk.known_finding_reproduces(F31, f"Bernoulli model, nan at {int((D.mask == 0).sum())} masked cells of Dataset.values: nll_attach_ind raises ValueError: {raised}")
        else:
            chk.impl_failure(dict(case, kind="taint", variant="f31-probe"), f"Bernoulli model, nan at the masked cells of Dataset.values: nll_attach_ind raises ValueError: {raised}")
    elif listed:
        chk.note("finding F31 no longer reproduces")


def taint_part(env, chk, cases):
    lines, expect = [], []
    for case in cases:
        taint_case(env, chk, case, lines, expect)
    out = chk.model(lines)
    for resp, info, line in zip(out, expect, lines):
        try:
            handle_taint(env, chk, resp, info, line)
        except Exception as e:  # noqa
            chk.disagree(info["case"], "?", resp[:200], f"unparsable taint response ({type(e).__name__}: {str(e)[:80]})")


TAINT_WIDE = ("joint-scalar", "mixture", "univariate", "no-source", "two-sources", "feature-missing-for-a-subject", "subject-without-observation", "single-visits")


def taint_wide_cases(chk, cases):
    """the widened classes whose recorded programs are analysed too (one case per class)"""
    seen, out = set(), []
    for c in cases:
        if c.get("cls") in TAINT_WIDE and c["cls"] not in seen:
            seen.add(c["cls"])
            out.append(c)
    return out


def meta_cases(chk):
    rng = chk.rng
    combos = [("logistic", "scalar"), ("logistic", "diagonal"), ("linear", "diagonal"), ("linear", "scalar"),
              ("shared_speed_logistic", "diagonal"), ("joint", "diagonal")]
    reps = 1 if chk.tier == "quick" else 10
    out = [dict(gen_case(random.Random(606), "quick", "logistic", "scalar"), whole_visit=True)]
    for _ in range(reps):
        for model, noise in combos:
            out.append(gen_case(rng, chk.tier, model, noise))
    return out + wide_meta_cases(chk)


STRIP_KEYS = ("variant", "pad", "table_head", "kind", "fill", "label", "index", "wide", "uniform", "individuals", "iteration", "search", "value")


def wide_meta_cases(chk):
    """Beyond the historical grid: the other model kinds and noise structures (mixture, joint with a common noise, binary outcomes,
    univariate, no source, several sources), the missing-data patterns the quantifier names (a feature wholly missing for an
    individual, an individual without any observation, single-visit individuals, a cohort that needs no padding at all)."""
    rng = chk.rng
    nonmix = ["logistic", "linear", "shared_speed_logistic"]
    gens = [
        lambda: gen_case(rng, chk.tier, "joint", "scalar", cls="joint-scalar"),
        lambda: gen_case(rng, chk.tier, "mixture_logistic", rng.choice(["diagonal", "scalar"]), n_ft=3, n_ind=rng.randint(6, 8),
                         src=rng.choice([1, 2]), cls="mixture", **({"pers": ["mode_posterior"]} if chk.tier == "quick" else {})),
        lambda: gen_case(rng, chk.tier, "logistic", "bernoulli", cls="bernoulli"),
        # (one case per implementation of the model without sources: logistic / linear share one, shared-speed and joint have theirs)
        lambda: gen_case(rng, chk.tier, rng.choice(["logistic", "linear"]), "scalar", n_ft=1, src=0, whole_visit=True, nv_min=3, cls="univariate"),
        lambda: gen_case(rng, chk.tier, "shared_speed_logistic", "scalar", n_ft=1, src=0, whole_visit=True, nv_min=3, cls="univariate", fits=False),
        lambda: gen_case(rng, chk.tier, "joint", "scalar", n_ft=1, src=0, whole_visit=True, nv_min=3, cls="univariate", fits=(chk.tier != "quick")),
        lambda: gen_case(rng, chk.tier, rng.choice(["logistic", "linear"]), rng.choice(["scalar", "diagonal"]), n_ft=rng.choice([3, 4]), src=0,
                         cls="no-source", fits=False),
        lambda: gen_case(rng, chk.tier, "shared_speed_logistic", rng.choice(["scalar", "diagonal"]), n_ft=rng.choice([2, 3]), src=0,
                         cls="no-source", fits=False),
        lambda: gen_case(rng, chk.tier, rng.choice(nonmix), rng.choice(["scalar", "diagonal"]), n_ft=rng.choice([3, 4]), src=2,
                         cls="two-sources", fits=False),
        lambda: gen_case(rng, chk.tier, rng.choice(nonmix + ["joint"]), "diagonal", blank=["feature_one", "feature_one"], keep_nan=True,
                         cls="feature-missing-for-a-subject", fits=(chk.tier != "quick")),
        lambda: gen_case(rng, chk.tier, rng.choice(nonmix), rng.choice(["scalar", "diagonal"]), blank=["individual"], keep_nan=True,
                         n_ind=rng.randint(4, 6), cls="subject-without-observation", fits=(chk.tier != "quick")),
        lambda: gen_case(rng, chk.tier, rng.choice(nonmix), rng.choice(["scalar", "diagonal"]), nv_min=1, nv_max=3, n_ind=rng.randint(4, 7),
                         whole_visit=False, cls="single-visits", fits=False),
        lambda: gen_case(rng, chk.tier, rng.choice(nonmix), rng.choice(["scalar", "diagonal"]), nv_min=3, nv_max=3, whole_visit=False,
                         cls="no-padding-needed", fits=False),
    ]
    out = []
    for _ in range(1 if chk.tier == "quick" else 4):
        out += [g() for g in gens]
    return out


def run(chk: core.Check):
    env = _imports()
    chk.rule = ("(A) random float64 tensors of shape <= 3x3x2 with dyadic values k/4, nan/inf/2^100 under the masks (and a few unmasked specials), "
                "11 fixed compositions (y_x_model, model_x_model, y_L2_per_ft, nll_attach_ind, nll_attach, model, noise sums) plus random "
                "compositions of depth <= 4, and wsum_dim with random fill values, evaluated with the real WeightedTensor code and the "
                "Lean model, compared exactly; (B) generated cohorts (3-6 subjects, 2-5 visits, 2-3 features, missing cells, whole "
                "missing visits) per model kind: dataset vs copies with garbage under the mask / 1-5 extra padded visits. Non-trivial: "
                "at least one masked cell; distinct by configuration. Widened: (A2) every other public operation of WeightedTensor "
                "(indexing, view / expand, powers, abs, comparisons, reflected operators, broadcasting operands whose weights must be "
                "expanded, filled / weighted_value / wsum / sum / sum_dim / wsum_dim with dims and fill values, index_put, map, valued, "
                "cpu / to) on float32 and float64 tensors with weights of dtype bool / uint8 / int64 / float32 / float64 and relative "
                "(non 0/1) weights: four fillings of the masked cells (two random, two uniform) must give the same result, the weights "
                "of an elementwise result are the operand's; (B) also mixture, joint with a common noise, binary outcomes, univariate "
                "(one case per implementation of the model without sources), no source, two sources, a feature wholly missing for a "
                "subject, a subject without any observation (whose term must be the empty sum 0), single-visit subjects, a cohort "
                "that needs no padding; per case: the Dataset tensors recomputed from the table, fill values at the edge of float32 "
                "(largest float32, 2e19 whose square just overflows, a denormal, -0.0, values inside the outcome range), each kind of "
                "fill alone at every masked position, 6-64 extra padded visits, the padding REMOVED (single individuals and "
                "sub-cohorts evaluated on their own with the same latent values), one state re-used for the dataset, its copies and the "
                "dataset again, what the Dataset exports (to_pandas, values / ages of an individual).")
    tensor_part(env, chk)
    api_part(env, chk)
    corpus = [c for c in core.load_corpus(PROP) if isinstance(c, dict) and c.get("model")]
    cases = [{k: v for k, v in case.items() if k not in STRIP_KEYS} for case in corpus + meta_cases(chk)]
    bern = gen_case(random.Random(707), "quick", "logistic", "bernoulli")
    hist = [c for c in cases if "cls" not in c]
    taint_part(env, chk, (hist if chk.tier == "quick" else hist[: 1 + 3 * 6]) + [bern] + taint_wide_cases(chk, cases))
    f31_probe(env, chk, bern)
    for case in cases:
        metamorphic_case(env, chk, case)
    for f in chk.findings:
        if f.get("id") == "F3" and f.get("status") == "finding":
            bad = [x for x in chk.impl_failures if x.get("finding") == "F3"]
            if bad:
                chk.known_finding_reproduces("F3", bad[0]["what"][:300])
            else:
                chk.note("finding F3 no longer reproduces")
    chk.exhaustive = False


def replay(chk: core.Check, payload):
    env = _imports()
    case = payload.get("case") or (payload.get("disagreements") or [{}])[0].get("case")
    if not case:
        chk.note("replay file has no case")
        return
    if case.get("kind") == "tensor":
        shape = tuple(case["shape"])
        vars_ = [(v, m) for v, m in case["vars"]]
        p = case["prog"]
        try:
            r = canon_impl(env, impl_eval(env, shape, vars_, p))
        except NotImplementedError:
            r = ("err:weights", None, None)
        except Exception as e:  # noqa
            r = (f"err:other:{type(e).__name__}", None, None)
        ktab = keys_tables(shape) + [([0] * shape[0], 1)]
        head = f"nvars={len(vars_)} " + " ".join(
            f"v{i}={core.fmt_list(vals)} w{i}={'none' if m is None else (''.join('1' if b else '0' for b in m) or '_')}"
            for i, (vals, m) in enumerate(vars_))
        khead = "nkeys=4 " + " ".join(f"keys{j}={core.fmt_list(k)} n{j}={n}" for j, (k, n) in enumerate(ktab))
        resp = chk.model([f"eval {head} {khead} prog={';'.join(p)}"])[0]
        if not same_result(r, parse_model(resp)):
            chk.disagree(case, list(r), resp[:300], "expression result")
        if case.get("vars_refilled"):
            try:
                r2 = canon_impl(env, impl_eval(env, shape, [(v, m) for v, m in case["vars_refilled"]], p))
            except NotImplementedError:
                r2 = ("err:weights", None, None)
            except Exception as e:  # noqa
                r2 = (f"err:other:{type(e).__name__}", None, None)
            if not same_result(r, r2):
                chk.impl_failure(case, f"result changes when only the values under the masks change: {list(r)[:2]} vs {list(r2)[:2]}"[:600])
        chk.case(("tensor-replay",), sample=case)
        return
    if case.get("kind") == "wsum":
        shape = tuple(case["shape"])
        t = env.torch.tensor([tofloat(v) for v in case["vals"]], dtype=env.torch.float64).reshape(shape)
        wt = env.WT(t, env.torch.tensor(case["mask"], dtype=env.torch.bool).reshape(shape))
        j = case["but"]
        kw = [dict(but_dim=0), dict(but_dim=-1), dict()][j]
        s, c = env.wsum_dim(wt, fill_value=tofloat(case["fill"]), **kw)
        r = ([xtok(float(x)) for x in s.reshape(-1).tolist()], [int(x) for x in c.reshape(-1).tolist()])
        k, n = keys_tables(shape)[j]
        pred_wsum(chk, case, r, k, n)
        chk.model([f"wsum fill={case['fill']} keys={core.fmt_list(k)} n={n} vals={core.fmt_list(case['vals'])} w={''.join('1' if b else '0' for b in case['mask'])}"])
        chk.case(("wsum-replay",), sample=case)
        return
    if case.get("kind") == "api":
        api_case(env, chk, case.get("ci", 0), case["case_seed"], only_op=case["op"])
        chk.model(["wsum fill=0 keys=0 n=1 vals=1 w=1"])
        return
    is_taint = case.get("kind") == "taint"
    case = {k: v for k, v in case.items() if k not in STRIP_KEYS}
    if is_taint:
        taint_part(env, chk, [case])
        return
    metamorphic_case(env, chk, case)
    chk.model(["wsum fill=0 keys=0 n=1 vals=1 w=1"])
