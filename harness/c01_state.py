"""C01 — values read from the lazily cached variable graph are never stale.

(1) shadow graphs (random toy DAGs and the graph structure of every shipped model kind) run through the
    REAL `State`/`VariablesDAG`/`LinkedVariable` classes with exact int64 node functions; every op's
    output and the None-pattern of `_values` are compared with `Model/State.lean` (drivers/C01.lean, whose
    graph tables come from the C15 model);
(2) the property predicate is evaluated on the implementation with an independent pure-python
    from-scratch evaluator;
(3) real-tensor oracle: histories on real model states, every read compared bitwise with a
    from-scratch evaluation on a fresh State (extreme / non-finite proposals included);
(4) read spy: the reads that fit / personalize / estimate themselves perform on real models, same comparison.
"""
from __future__ import annotations

from . import core
from . import state_common as sc

PROP = "C01"
LEAN = dict(
    props="LeaspyVerif.Props.C01",
    driver="drivers/C01.lean",
    harness="c01_state.py + state_common.py",
    extra_modules=["LeaspyVerif.Model.State", "LeaspyVerif.Model.Dag", "LeaspyVerif.Props.C15"],
    theorems=["inv_init", "inv_step", "get_refines", "get_unknown", "run_refines", "set_abs", "set_refused", "wf_of_build",
              "spec_total", "get_total", "get_idempotent", "step_other_states_untouched",
              "readOK_unique", "reads_depend_on_independent_values_only", "clone_reads_agree",
              ],
    trusted_extra=[
        "values are abstract in the theorems (any type, so tensors with inf/nan are covered: reverts select, they do not compute); "
        "the executable instance uses integer matrices mod 1000003",
        "aliasing between a state, its clones and by-reference forks is not expressible in the pure model; it is covered by interleaving "
        "operations on clones in the correspondence and by the real-tensor oracle",
        "determinism of torch recomputation (same inputs, same shapes, same memory layout -> same bits on CPU) is assumed by the "
        "real-tensor oracle and the read spy; once an independent value was held in a non-contiguous layout, a read that is not bitwise "
        "equal is accepted within 16 float32 ulp (state_common.LayoutEnvelope) and counted",
    ],
    assumptions=["partial reverts are generated only when the documented precondition holds (checked on the real state's cache pattern)"],
)

MODEL_KINDS = [
    ("logistic", dict(dimension=3, source_dimension=2)),
    ("logistic", dict(dimension=3, source_dimension=2, obs_models="gaussian-scalar")),
    ("logistic", dict(dimension=1)),
    ("linear", dict(dimension=3, source_dimension=2)),
    ("shared_speed_logistic", dict(dimension=3, source_dimension=2)),
    ("joint", dict(dimension=1)),
    ("mixture_logistic", dict(dimension=3, source_dimension=2, n_clusters=2)),
]


def run_histories(chk, env, shadows, n_hist, length, maker):
    lines, impl, cases = [], [], []
    for h in range(n_hist):
        tag, sh = shadows[h % len(shadows)] if shadows else ("toy", None)
        if sh is None:
            sh = sc.random_toy(chk.rng)
        try:
            rn = sc.Runner(env, sh, chk.rng)
        except Exception as e:  # noqa  — the real classes refuse (or cannot build) a graph the generator knows to be valid
            chk.impl_failure({"kind": "shadow-build", "family": tag, "nodes": sh.line_nodes()},
                             f"valid variable definitions (every derived variable a function of keyword-only parameters, a third of them "
                             f"declaring their last dependency with a default) cannot be built into a graph / state: {type(e).__name__}: {str(e)[:160]}")
            chk.case(("shadow-build", h, tag), nontrivial=True, tags={"family": tag, "build": "refused"})
            continue
        try:
            maker(rn, length)
        except Exception as e:  # noqa  — every call into leaspy is wrapped (Runner.call): this is a harness bug
            raise core.Infra(f"harness error while driving a history: {type(e).__name__}: {e}")
        line = rn.request_line()
        cj = {"kind": "shadow", "family": tag, "line": line, "picks": rn.picks}
        for f in rn.fails[:3]:
            chk.impl_failure(cj, f)
        lines.append(line)
        impl.append(";".join(rn.outs))
        cases.append(cj)
        nontriv = rn.tags.get("revert", 0) + rn.tags.get("revert-partial", 0) >= 1 and rn.tags.get("get", 0) >= 2
        chk.case(line, nontrivial=nontriv, sample=(cj if len(rn.ops) < 40 else None), tags={"family": tag})
        for k, v in rn.tags.items():
            chk.tag("ops", k, v)
    out = chk.model(lines)
    for cj, a, b in zip(cases, impl, out):
        if a != b:
            # locate first differing op for the report
            A, B = a.split(";"), b.split(";")
            idx = next((i for i, (x, y) in enumerate(zip(A, B)) if x != y), min(len(A), len(B)))
            chk.disagree(cj, A[idx] if idx < len(A) else None, B[idx] if idx < len(B) else None,
                         f"op #{idx} ({cj['line'].split('ops=')[1].split(';')[idx] if idx < len(A) else '?'})")


def model_shadows(chk, env):
    out = []
    # the first table always; of the other kinds (no sources, one source, binary outcomes, three clusters, joint with sources)
    # all in the thorough tier, two per quick run
    more = sc.REAL_KINDS_MORE[1:] if chk.tier == "thorough" else chk.rng.sample(sc.REAL_KINDS_MORE[1:], 2)
    for name, kw in MODEL_KINDS + more:
        try:
            sh, exact = sc.shadow_of_model(env, name, kw, nind=3, d=chk.rng.choice([1, 2]))
            out.append((f"model-{name}" + ("" if exact else "-types"), sh))
            chk.tag("shadow_model_kinds", f"{name} {kw}", 1)
        except Exception as e:  # noqa
            chk.note(f"shadow graph of model kind {name} {kw} unavailable: {type(e).__name__}: {e}")
    return out


def run_one_real(chk, env, name, kw, cohort, key, steps, ambient):
    import random
    torch = env["torch"]
    prev = torch.get_default_dtype()
    try:
        if ambient:
            torch.set_default_dtype(getattr(torch, ambient))
        try:
            orc = sc.RealOracle(env, name, kw, random.Random(key), cohort)
        except Exception as e:  # noqa
            chk.note(f"real-tensor oracle: model kind {name} {kw} ({cohort}, {ambient}) unavailable: {type(e).__name__}: {e}")
            return None
        orc.run(steps)
        return orc
    finally:
        torch.set_default_dtype(prev)


def real_oracle(chk, env, steps):
    rng = chk.rng
    if chk.tier == "thorough":
        plan = [(n, kw, co) for n, kw in sc.REAL_KINDS + sc.REAL_KINDS_MORE for co in ("full", "one", "two-reversed", "missing")]
    else:
        # every kind of the first table on its whole cohort or on a reduced / altered one, plus a sample of the other kinds
        plan = [(n, kw, rng.choice(sc.COHORTS)) for n, kw in sc.REAL_KINDS]
        plan += [(n, kw, rng.choice(sc.COHORTS)) for n, kw in rng.sample(sc.REAL_KINDS_MORE, 4)]
    import random
    for i, (name, kw, cohort) in enumerate(plan):
        key = f"{PROP}-real:{chk.seed}:{chk.tier}:{i}:{name}:{cohort}"      # own stream per oracle: a replay re-creates exactly this run
        # process state: a third of the kinds without sources live (construction included) under another ambient default dtype,
        # as left behind by earlier code of the caller (the kinds with sources can not be initialised under it at all)
        ambient = "float64" if (kw.get("source_dimension", 0) == 0 and rng.random() < 0.35) else None
        orc = run_one_real(chk, env, name, kw, cohort, key, steps, ambient)
        if orc is None:
            continue
        cj = {"kind": "real", "model": name, "kw": kw, "cohort": cohort, "seed": chk.seed, "steps": steps, "rng_key": key,
              "ambient": ambient, "log": orc.log[-5:]}
        for f in orc.fails[:3]:
            chk.impl_failure(cj, f)
        chk.case(("real", name, str(kw), cohort, chk.seed), nontrivial=True,
                 tags={"family": "real-" + name, "cohort": cohort, "ambient_default_dtype": ambient or "float32"})
        chk.tag("real_reads", name, orc.reads)
        if orc.envelope_reads:
            chk.tag("real_reads_within_layout_envelope", name, orc.envelope_reads)
        for k, v in orc.kinds_done.items():
            chk.tag("real_steps", k, v)


def api_spy(chk, env):
    """(4) the reads the public API itself performs - fit, personalisation, estimation - checked by a call-through wrapper"""
    import random
    kinds = sc.REAL_KINDS + [k for k in sc.REAL_KINDS_MORE if k[1].get("n_clusters") != 3]   # (3 clusters: not initialisable here)
    if chk.tier == "thorough":
        plan = [(n, kw, co, 3) for n, kw in kinds for co in ("full", "missing", "two-reversed")]
    else:
        plan = [(n, kw, chk.rng.choice(["full", "full", "missing", "two-reversed"]), 5) for n, kw in chk.rng.sample(kinds, 6)]
    for i, (name, kw, cohort, stride) in enumerate(plan):
        key = f"{PROP}-api:{chk.seed}:{chk.tier}:{i}:{name}:{cohort}"
        run_api_case(chk, env, {"kind": "api", "model": name, "kw": kw, "cohort": cohort, "stride": stride, "rng_key": key, "seed": chk.seed})


def run_api_case(chk, env, cj):
    import random
    try:
        fails, stats = sc.api_read_spy(env, random.Random(cj["rng_key"]), cj["model"], cj["kw"], cj["cohort"], cj["stride"])
    except Exception as e:  # noqa
        chk.note(f"API read spy: {cj['model']} {cj['kw']} ({cj['cohort']}) unavailable: {type(e).__name__}: {e}")
        return
    for f in fails[:3]:
        chk.impl_failure(cj, f)
    chk.case(("api", cj["model"], str(cj["kw"]), cj["cohort"], cj["seed"]), nontrivial=stats["checked"] > 0,
             tags={"family": "api-" + cj["model"]})
    chk.tag("api_reads", "seen", stats["reads"])
    chk.tag("api_reads", "checked", stats["checked"])
    chk.tag("api_reads", "within_layout_envelope", stats["within_layout_envelope"])
    for k in ("did_not_converge", "aborted"):
        if k in stats:
            chk.tag("api_runs_cut_short", f"{cj['model']}: {stats[k]}"[:160], 1)


def run(chk: core.Check):
    env = sc.imports()
    chk.rule = ("random histories (10-60 ops over set [item / put / Mapping.update; a value, the same numbers again, None] / "
                "put(indices as lists, arrays, tensors, plain integers, a partial row index; accumulate or not) / read [item, "
                "get_tensor_value(s), list export, Mapping.get with a default, setdefault, items()] / is-set / are-set / `in` / revert / "
                "partial revert [mask dtypes bool..float32; layouts flat, strided, column, full shape, 0-d; right and left "
                "broadcasting] / clone(+-flags) / deepcopy / fork-mode switches by attribute and by the auto_fork context manager "
                "(also left by an exception) / precompute / clear / to_device / refused deletion / names that are not variables, "
                "on a state and up to 3 clones) on random toy DAGs (3-12 nodes + forced children, 1-6 individuals, 1-3 columns) and on "
                "shadow graphs with the structure of every shipped model kind (with / without sources, one source, scalar / diagonal / "
                "binary noise, 2-3 clusters, joint with sources); real-tensor histories on real model states (11 further step kinds "
                "through the model's and the state's helper entry points; cohorts of 1, 2, 5 or 17 individuals, values missing inside "
                "visits; a third of the source-free kinds under an ambient float64 default dtype); the reads fit / personalize / "
                "estimate perform themselves (call-through spy). Non-trivial = the history contains at least one (partial) revert and "
                "two reads; distinct by the full request line / (kind, cohort, seed).")
    for c in core.load_corpus(PROP):
        if c.get("kind") == "shadow":
            replay_line(chk, env, c)
    thorough = chk.tier == "thorough"
    run_histories(chk, env, [], 1500 if thorough else 160, None, lambda rn, _: sc.random_history(rn, rn.rng.randrange(10, 60)))
    ms = model_shadows(chk, env)
    if ms:
        run_histories(chk, env, ms, 700 if thorough else 54, None, lambda rn, _: sc.random_history(rn, rn.rng.randrange(20, 60)))
    real_oracle(chk, env, 60 if thorough else 30)
    api_spy(chk, env)


def replay_line(chk, env, case):
    """Re-run a recorded request line on the real classes (ops are replayed literally)."""
    line = case["line"]
    args = dict(a.split("=", 1) for a in line.split(" ")[1:])
    nind, d = int(args["nind"]), int(args["d"])
    nodes = []
    specs = args["nodes"].split(";")
    names = [f"n{j:03d}" for j in range(len(specs))]
    for nm, sp in zip(names, specs):
        k, lv, c0, ps, cs = sp.split(":")
        ps = [] if ps == "_" else [names[int(x)] for x in ps.split(",")]
        cs = [] if cs == "_" else [int(x) for x in cs.split(",")]
        nodes.append(sc.Node(nm, k, lv if lv != "-" else "-", int(c0), ps, cs))
    sh = sc.Shadow(nodes, nind, d)
    rn = sc.Runner(env, sh, chk.rng)
    rn.forced = case.get("picks")     # same accessors / containers / layouts as in the recorded run (absent in old replay files)
    parse = lambda s: [[int(x) for x in r.split(",")] for r in s.split("/")]  # noqa
    nm = lambda r: names[int(r)] if int(r) < len(names) else sc.UNKNOWN  # noqa  (a rank outside the graph = not a variable)
    for op in ([] if args["ops"] in ("_", "") else args["ops"].split(";")):
        f = op.split(":")
        try:
            if f[0] == "g":
                rn.op_get(int(f[1]), nm(f[2]))
            elif f[0] == "q":
                rn.op_isset(int(f[1]), nm(f[2]))
            elif f[0] == "s":
                rn.op_set(int(f[1]), nm(f[2]), None if f[3] == "none" else parse(f[3]))
            elif f[0] == "r":
                rn.op_revert(int(f[1]))
            elif f[0] == "rp":
                rn.op_revert(int(f[1]), [c == "1" for c in f[2]])
            elif f[0] == "c":
                rn.op_clone(int(f[1]), int(f[2]), f[3] == "1", f[4] == "1")
            elif f[0] == "pc":
                rn.op_precompute(int(f[1]))
            elif f[0] == "m":
                rn.op_mode(int(f[1]), int(f[2]))
            elif f[0] == "cl":
                rn.op_clear(int(f[1]))
            elif f[0] == "pa":
                rn.op_put_acc(int(f[1]), names[int(f[2])] if int(f[2]) < len(names) else sc.UNKNOWN, parse(f[3]))
            elif f[0] == "p":
                rn.do_put_idx(int(f[1]), names[int(f[2])], f[3] == "1", [int(x) for x in f[4].split(",")],
                              [int(x) for x in f[5].split(",")], [int(x) for x in f[6].split(",")])
        except Exception as e:  # noqa
            rn.fails.append(f"replay aborted at {op}: {type(e).__name__}: {e}")
            break
    cj = {"kind": "shadow", "family": case.get("family", "replay"), "line": line, "picks": rn.picks}
    for fl in rn.fails[:3]:
        chk.impl_failure(cj, fl)
    out = chk.model([rn.request_line()])
    a = ";".join(rn.outs)
    if out[0] != a:
        A, B = a.split(";"), out[0].split(";")
        idx = next((i for i, (x, y) in enumerate(zip(A, B)) if x != y), min(len(A), len(B)))
        chk.disagree(cj, A[idx] if idx < len(A) else None, B[idx] if idx < len(B) else None, f"op #{idx}")
    chk.case(line, sample=cj)


def replay(chk: core.Check, payload):
    env = sc.imports()
    case = payload.get("case") or (payload.get("disagreements") or [{}])[0].get("case")
    if not case:
        chk.note("replay file has no case")
        return
    if case.get("kind") == "shadow":
        replay_line(chk, env, case)
    elif case.get("kind") == "api":
        run_api_case(chk, env, case)
    elif case.get("kind") == "real":
        import random
        chk.rng = random.Random(f"{PROP}:{case['seed']}")
        chk.note("real-tensor cases are replayed by re-running the seeded oracle of that model kind and cohort")
        orc = run_one_real(chk, env, case["model"], case["kw"], case.get("cohort", "full"),
                           case.get("rng_key", f"{PROP}:{case['seed']}"), case["steps"], case.get("ambient"))
        for f in (orc.fails[:3] if orc else []):
            chk.impl_failure(case, f)
        chk.case(("real", case["model"]), sample=case)
