"""C01 — values read from the lazily cached variable graph are never stale.

(1) shadow graphs (random toy DAGs and the graph structure of every shipped model kind) run through the
    REAL `State`/`VariablesDAG`/`LinkedVariable` classes with exact int64 node functions; every op's
    output and the None-pattern of `_values` are compared with `Model/State.lean` (drivers/C01.lean, whose
    graph tables come from the C15 model);
(2) the property predicate is evaluated on the implementation with an independent pure-python
    from-scratch evaluator;
(3) real-tensor oracle: histories on real model states, every read compared bitwise with a
    from-scratch evaluation on a fresh State (extreme / non-finite proposals included).
"""
from __future__ import annotations

from . import core
from . import state_common as sc

PROP = "C01"
LEAN = dict(
    props="LeaspyVerif.Props.C01",
    driver="drivers/C01.lean",
    harness="c01_state.py + state_common.py",
    extra_modules=["LeaspyVerif.Model.State", "LeaspyVerif.Model.Dag", "LeaspyVerif.Props.C15"],
    theorems=["inv_init", "inv_step", "get_refines", "get_unknown", "run_refines", "set_abs", "set_refused", "wf_of_build",
              "spec_total", "get_total", "get_idempotent", "step_other_states_untouched",
              ],
    trusted_extra=[
        "values are abstract in the theorems (any type, so tensors with inf/nan are covered: reverts select, they do not compute); "
        "the executable instance uses integer matrices mod 1000003",
        "aliasing between a state, its clones and by-reference forks is not expressible in the pure model; it is covered by interleaving "
        "operations on clones in the correspondence and by the real-tensor oracle",
        "determinism of torch recomputation (same inputs, same shapes -> same bits on CPU) is assumed by the real-tensor oracle",
    ],
    assumptions=["partial reverts are generated only when the documented precondition holds (checked on the real state's cache pattern)"],
)

MODEL_KINDS = [
    ("logistic", dict(dimension=3, source_dimension=2)),
    ("logistic", dict(dimension=3, source_dimension=2, obs_models="gaussian-scalar")),
    ("logistic", dict(dimension=1)),
    ("linear", dict(dimension=3, source_dimension=2)),
    ("shared_speed_logistic", dict(dimension=3, source_dimension=2)),
    ("joint", dict(dimension=1)),
    ("mixture_logistic", dict(dimension=3, source_dimension=2, n_clusters=2)),
]


def run_histories(chk, env, shadows, n_hist, length, maker):
    lines, impl, cases = [], [], []
    for h in range(n_hist):
        tag, sh = shadows[h % len(shadows)] if shadows else ("toy", None)
        if sh is None:
            sh = sc.random_toy(chk.rng)
        rn = sc.Runner(env, sh, chk.rng)
        try:
            maker(rn, length)
        except Exception as e:  # noqa  — every call into leaspy is wrapped (Runner.call): this is a harness bug
            raise core.Infra(f"harness error while driving a history: {type(e).__name__}: {e}")
        line = rn.request_line()
        cj = {"kind": "shadow", "family": tag, "line": line}
        for f in rn.fails[:3]:
            chk.impl_failure(cj, f)
        lines.append(line)
        impl.append(";".join(rn.outs))
        cases.append(cj)
        nontriv = rn.tags.get("revert", 0) + rn.tags.get("revert-partial", 0) >= 1 and rn.tags.get("get", 0) >= 2
        chk.case(line, nontrivial=nontriv, sample=(cj if len(rn.ops) < 40 else None), tags={"family": tag})
        for k, v in rn.tags.items():
            chk.tag("ops", k, v)
    out = chk.model(lines)
    for cj, a, b in zip(cases, impl, out):
        if a != b:
            # locate first differing op for the report
            A, B = a.split(";"), b.split(";")
            idx = next((i for i, (x, y) in enumerate(zip(A, B)) if x != y), min(len(A), len(B)))
            chk.disagree(cj, A[idx] if idx < len(A) else None, B[idx] if idx < len(B) else None,
                         f"op #{idx} ({cj['line'].split('ops=')[1].split(';')[idx] if idx < len(A) else '?'})")


def model_shadows(chk, env):
    out = []
    for name, kw in MODEL_KINDS:
        try:
            sh, exact = sc.shadow_of_model(env, name, kw, nind=3, d=chk.rng.choice([1, 2]))
            out.append((f"model-{name}" + ("" if exact else "-types"), sh))
        except Exception as e:  # noqa
            chk.note(f"shadow graph of model kind {name} {kw} unavailable: {type(e).__name__}: {e}")
    return out


def real_oracle(chk, env, steps):
    for name, kw in sc.REAL_KINDS:
        try:
            orc = sc.RealOracle(env, name, kw, chk.rng)
        except Exception as e:  # noqa
            chk.note(f"real-tensor oracle: model kind {name} {kw} unavailable: {type(e).__name__}: {e}")
            continue
        orc.run(steps)
        cj = {"kind": "real", "model": name, "kw": kw, "seed": chk.seed, "steps": steps, "log": orc.log[-5:]}
        for f in orc.fails[:3]:
            chk.impl_failure(cj, f)
        chk.case(("real", name, str(kw), chk.seed), nontrivial=True, tags={"family": "real-" + name})
        chk.tag("real_reads", name, orc.reads)


def run(chk: core.Check):
    env = sc.imports()
    chk.rule = ("random histories (10-60 ops over set / set None / put(indices, accumulate) / read / is-set / revert / partial revert / "
                "clone(+-flags) / fork-mode switches / precompute / clear, on a state and up to 3 clones) on random toy DAGs "
                "(3-12 nodes + forced children) and on shadow graphs with the structure of every shipped model kind; plus real-tensor "
                "histories on real model states. Non-trivial = the history contains at least one (partial) revert and two reads; "
                "distinct by the full request line.")
    for c in core.load_corpus(PROP):
        if c.get("kind") == "shadow":
            replay_line(chk, env, c)
    thorough = chk.tier == "thorough"
    run_histories(chk, env, [], 1500 if thorough else 120, None, lambda rn, _: sc.random_history(rn, rn.rng.randrange(10, 60)))
    ms = model_shadows(chk, env)
    if ms:
        run_histories(chk, env, ms, 600 if thorough else 42, None, lambda rn, _: sc.random_history(rn, rn.rng.randrange(20, 60)))
    real_oracle(chk, env, 120 if thorough else 25)


def replay_line(chk, env, case):
    """Re-run a recorded request line on the real classes (ops are replayed literally)."""
    line = case["line"]
    args = dict(a.split("=", 1) for a in line.split(" ")[1:])
    nind, d = int(args["nind"]), int(args["d"])
    nodes = []
    specs = args["nodes"].split(";")
    names = [f"n{j:03d}" for j in range(len(specs))]
    for nm, sp in zip(names, specs):
        k, lv, c0, ps, cs = sp.split(":")
        ps = [] if ps == "_" else [names[int(x)] for x in ps.split(",")]
        cs = [] if cs == "_" else [int(x) for x in cs.split(",")]
        nodes.append(sc.Node(nm, k, lv if lv != "-" else "-", int(c0), ps, cs))
    sh = sc.Shadow(nodes, nind, d)
    rn = sc.Runner(env, sh, chk.rng)
    parse = lambda s: [[int(x) for x in r.split(",")] for r in s.split("/")]  # noqa
    for op in ([] if args["ops"] in ("_", "") else args["ops"].split(";")):
        f = op.split(":")
        try:
            if f[0] == "g":
                rn.op_get(int(f[1]), names[int(f[2])])
            elif f[0] == "q":
                rn.op_isset(int(f[1]), names[int(f[2])])
            elif f[0] == "s":
                rn.op_set(int(f[1]), names[int(f[2])], None if f[3] == "none" else parse(f[3]))
            elif f[0] == "r":
                rn.op_revert(int(f[1]))
            elif f[0] == "rp":
                rn.op_revert(int(f[1]), [c == "1" for c in f[2]])
            elif f[0] == "c":
                rn.op_clone(int(f[1]), int(f[2]), f[3] == "1", f[4] == "1")
            elif f[0] == "pc":
                rn.op_precompute(int(f[1]))
            elif f[0] == "m":
                rn.op_mode(int(f[1]), int(f[2]))
            elif f[0] == "cl":
                rn.op_clear(int(f[1]))
            elif f[0] == "pa":
                torch = env["torch"]
                name = names[int(f[2])]
                rows = parse(f[3])
                st = rn.states[int(f[1])]
                status, _ = rn.call(lambda: st.put(name, sc.rows_tensor(torch, rows, sh.level[name]), accumulate=True))
                rn.record(op, int(f[1]), status)
            elif f[0] == "p":
                torch = env["torch"]
                name = names[int(f[2])]
                st = rn.states[int(f[1])]
                rows_i = [int(x) for x in f[4].split(",")]
                cols_i = [int(x) for x in f[5].split(",")]
                vals = [int(x) for x in f[6].split(",")]
                indices = (rows_i, cols_i) if sh.level[name] == "i" else (cols_i,)
                status, _ = rn.call(lambda: st.put(name, torch.tensor(vals, dtype=torch.int64), indices=indices, accumulate=f[3] == "1"))
                rn.record(op, int(f[1]), status)
        except Exception as e:  # noqa
            rn.fails.append(f"replay aborted at {op}: {type(e).__name__}: {e}")
            break
    cj = {"kind": "shadow", "family": case.get("family", "replay"), "line": line}
    for fl in rn.fails[:3]:
        chk.impl_failure(cj, fl)
    out = chk.model([rn.request_line()])
    a = ";".join(rn.outs)
    if out[0] != a:
        A, B = a.split(";"), out[0].split(";")
        idx = next((i for i, (x, y) in enumerate(zip(A, B)) if x != y), min(len(A), len(B)))
        chk.disagree(cj, A[idx] if idx < len(A) else None, B[idx] if idx < len(B) else None, f"op #{idx}")
    chk.case(line, sample=cj)


def replay(chk: core.Check, payload):
    env = sc.imports()
    case = payload.get("case") or (payload.get("disagreements") or [{}])[0].get("case")
    if not case:
        chk.note("replay file has no case")
        return
    if case.get("kind") == "shadow":
        replay_line(chk, env, case)
    elif case.get("kind") == "real":
        import random
        chk.rng = random.Random(f"{PROP}:{case['seed']}")
        chk.note("real-tensor cases are replayed by re-running the seeded oracle of that model kind")
        orc = sc.RealOracle(env, case["model"], case["kw"], chk.rng)
        orc.run(case["steps"])
        for f in orc.fails[:3]:
            chk.impl_failure(case, f)
        chk.case(("real", case["model"]), sample=case)
