"""C16 — individual-parameter containers convert losslessly.

Correspondence: the real `IndividualParameters` (additions, dataframe / tensor / CSV / JSON conversions, files in a
temporary directory) against `Model/IndParams.lean` through `drivers/C16.lean`; exact comparison on rationals
(python numbers as exact fractions; float32 rounding reproduced by the driver with IEEE single precision).
The property predicate (loss-less round trip, rejection rule) is evaluated on the implementation independently of
the model.
"""
from __future__ import annotations

import os
import shutil
import tempfile
import warnings
from fractions import Fraction

from . import core
from .core import fmt_rat

PROP = "C16"
LEAN = dict(
    props="LeaspyVerif.Props.C16",
    driver="drivers/C16.lean",
    harness="c16_indparams.py",
    extra_modules=["LeaspyVerif.Model.IndParams", "LeaspyVerif.Lemmas.IndParams"],
    theorems=["checkVal_none_iff", "add_rejects_iff", "add_error_is_input", "add_ok_appends",
              "add_preserves_consistent", "empty_consistent",
              "json_roundtrip", "json_refuses_iff_empty", "json_roundtrip_file",
              "toTable_total", "table_roundtrip_partial", "csv_roundtrip_partial", "csv_refuses_iff_empty",
              "torch_roundtrip_vec", "torch_roundtrip_vec_exact", "normalize_lookup", "normalize_eq_of_aligned",
              "table_roundtrip_scalar_counterexample", "torch_roundtrip_scalar_counterexample",
              "table_roundtrip_underscore_counterexample", "table_roundtrip_underscore_counterexample_merge"],
    trusted_extra=[
        "pandas (DataFrame construction, label selection, to_csv / read_csv), json, torch.tensor are exercised, not modelled; "
        "the model's label selection on duplicated column labels was fitted to pandas' behaviour and is compared on every run",
        "float32 rounding in the driver: Lean Float -> Float32 conversion (round-to-nearest-even), compared exactly with torch",
        "theorems hold for any value type; the driver runs on exact rationals (python ints / floats as fractions)",
    ],
    assumptions=[
        "cases compared with the Lean model hold finite python / numpy ints and floats inside the float32 range (exact rationals); "
        "non-finite values, values beyond the float32 range and sub-normal doubles go through the implementation-only wide block "
        "(exact comparison, nan is nan, float32 rounding / overflow reproduced with numpy)",
        "python ints beyond 2**53 are not generated: a table row is a float64 row as soon as one column holds floats, so the table / CSV "
        "forms cannot hold them (JSON does); identifiers containing a bare carriage return / line feed are not generated on the CSV path "
        "(pandas' writer does not quote a lone \\r): text layer of the file format, not modelled",
        "numpy float32 scalars are not generated on the CSV path: pandas writes an all-float32 column with 9 significant digits, "
        "which identifies the float32 but not its expansion as a double (the value comes back equal to single precision only); "
        "numpy int32 beyond 2**24 is not generated: pandas infers float32 for a column mixing np.int32 and np.float32",
        "int vs float type of a value is not part of the comparison (70 == 70.0), the numeric value is",
        "the empty container is refused by save() (documented) and raises AttributeError in to_dataframe / to_pytorch: "
        "modelled as such, not counted as a property failure",
    ],
)

F11 = "F11"
F12 = "F12"


# ------------------------------------------------------------------ environment
def _imports():
    warnings.filterwarnings("ignore")
    import leaspy.models  # noqa: F401  (must precede leaspy.variables)
    import numpy as np
    import pandas as pd
    import torch
    from leaspy.exceptions import LeaspyIndividualParamsInputError
    from leaspy.io.outputs import IndividualParameters
    return dict(np=np, pd=pd, torch=torch, IP=IndividualParameters, IPErr=LeaspyIndividualParamsInputError)


def err_class(env, e):
    if isinstance(e, env["IPErr"]):
        return "err:input"
    if isinstance(e, AttributeError):
        return "err:attr"
    return f"err:other:{type(e).__name__}"


# ------------------------------------------------------------------ lexical helpers (see drivers/C16.lean)
def hx(s: str) -> str:
    return s.encode("utf-8").hex()


def fid(i) -> str:
    return "s" + hx(i) if isinstance(i, str) else "n"


def fname(n) -> str:
    return "x" + hx(n) if isinstance(n, str) else "?"


def frac(env, v):
    np = env["np"]
    if isinstance(v, bool):
        return None
    if isinstance(v, (int, np.integer)):
        return Fraction(int(v))
    if isinstance(v, (float, np.floating)):
        v = float(v)
        return Fraction(v) if v == v and abs(v) != float("inf") else None      # (non-finite: wide block only, printed as "?")
    return None


def fnum(env, v) -> str:
    f = frac(env, v)
    return "?" if f is None else fmt_rat(f)


def fval(env, v) -> str:
    if isinstance(v, list):
        return "l" + ":".join(fnum(env, x) for x in v)
    return "q" + fnum(env, v)


def fshape(s) -> str:
    s = tuple(s)
    return "s" if len(s) == 0 else "d" + ":".join(str(int(x)) for x in s)


def flist(xs, sep=","):
    xs = list(xs)
    return sep.join(xs) if xs else "_"


def canon_container(env, ip) -> str:
    shapes = ip._parameters_shape
    sh = "none" if shapes is None else "&".join(f"{fname(k)}~{fshape(v)}" for k, v in shapes.items())
    params = flist((f"{fid(i)}@" + "&".join(f"{fname(k)}~{fval(env, v)}" for k, v in d.items())
                    for i, d in ip._individual_parameters.items()), "|")
    return f"ids={flist(fid(i) for i in ip._indices)};shapes={sh};params={params}"


def frow(env, xs) -> str:
    xs = list(xs)
    return ":".join(fnum(env, x) for x in xs) if xs else "e"


def canon_table(env, df) -> str:
    rows = []
    for r in range(df.shape[0]):
        rows.append(f"{fid(df.index[r])}@" + frow(env, [df.iloc[r, c] for c in range(df.shape[1])]))
    return f"cols={flist(fname(c) for c in df.columns)};rows={flist(rows, '|')}"


def canon_tensors(env, ids, d) -> str:
    ts = []
    for k, t in d.items():
        if t.ndim == 1:
            ts.append(f"{fname(k)}~1~{frow(env, t.tolist())}")
        else:
            ts.append(f"{fname(k)}~2~" + flist((frow(env, r) for r in t.tolist()), ";"))
    return f"ids={flist(fid(i) for i in ids)};t={flist(ts, '&')}"


def canon_json(env, j) -> str:
    sh = "&".join(f"{fname(k)}~{fshape(v)}" for k, v in j["parameters_shape"].items())
    ipar = flist((f"{fid(i)}@" + "&".join(f"{fname(k)}~{fval(env, v)}" for k, v in d.items())
                  for i, d in j["individual_parameters"].items()), "|")
    return f"indices={flist(fid(i) for i in j['indices'])};shape={sh};ip={ipar}"


# ------------------------------------------------------------------ case representation
# id      : ["s", "<text>"] | ["n", "int"|"float"|"none"]
# params  : "notdict" | [[name, value], …]
# value   : ["num", "<p/q>", <type tag>] | ["bad", kind] | ["list", [elem…], <container tag>]
# elem    : ["num", "<p/q>", tag] | ["bad", kind]
NUM_TAGS = ["int", "float", "f32", "f64", "i32", "i64"]


def mk_num(env, q, tag):
    np = env["np"]
    f = Fraction(q)
    if tag == "int":
        return int(f)
    if tag == "i32":
        return np.int32(int(f))
    if tag == "i64":
        return np.int64(int(f))
    if tag == "f32":
        return np.float32(float(f))
    if tag == "f64":
        return np.float64(float(f))
    return float(f)


def mk_bad(env, kind):
    np = env["np"]
    if kind == "tensor":
        return env["torch"].tensor([1.0, 2.0])
    return {"str": "a", "bool": True, "none": None, "dict": {}, "nested": [1.0], "nd2": np.zeros((1, 2)),
            "complex": 1j, "tuple": (1.0, 2.0), "set": {1.0}, "npbool": np.bool_(True), "f16": np.float16(0.5), "decimal": Fraction(1, 2),
            "nd_bool": np.array([True, False]), "nd_str": np.array(["a"]), "nd_obj": np.array([None, 1.0], dtype=object),
            "nd21": np.zeros((2, 1))}[kind]


def mk_value(env, v):
    np = env["np"]
    if v[0] == "num":
        x = mk_num(env, v[1], v[2])
        # a scalar handed over as a 0-d numpy array (`tolist()` makes it the python number again)
        return np.array(x) if len(v) > 3 and v[3] == "nd0" else x
    if v[0] == "bad":
        return mk_bad(env, v[1])
    elems = [mk_num(env, e[1], e[2]) if e[0] == "num" else mk_bad(env, e[1]) for e in v[1]]
    if v[2] == "ndarray":
        return np.array(elems)
    return elems


def mk_id(i):
    if i[0] == "s":
        return i[1]
    return {"int": 3, "float": float("nan"), "none": None}[i[1]]


def lean_value(v) -> str:
    if v[0] == "num":
        return "q" + fmt_rat(Fraction(v[1]))
    if v[0] == "bad":
        # a 2-D array is `tolist()`-ed into a list of lists, an array of booleans / strings / objects into a list of those
        return "lb" if v[1] in ("nd2", "nd21", "nd_bool", "nd_str", "nd_obj") else "b"
    return "l" + ":".join(fmt_rat(Fraction(e[1])) if e[0] == "num" else "b" for e in v[1])


def lean_adds(adds) -> str:
    out = []
    for i, p in adds:
        li = "s" + hx(i[1]) if i[0] == "s" else "n"
        lp = "N" if p == "notdict" else "D" + "&".join(f"x{hx(k)}~{lean_value(v)}" for k, v in p)
        out.append(f"{li}@{lp}")
    return flist(out, "|")


def value_supported(v) -> bool:
    """The property's own rule: a supported scalar, or a non-empty list of supported scalars."""
    if v[0] == "num":
        return True
    if v[0] == "bad":
        return False
    return len(v[1]) > 0 and all(e[0] == "num" for e in v[1])


def shape_of(v):
    return () if v[0] == "num" else (len(v[1]),)


def expected_container(adds):
    """(ids, {id: {name: (shape, [fractions])}}) the property says the container must hold after these additions: exactly the
    accepted ones, in order, with the numbers that were handed over (from the case description, not from the implementation)."""
    rej = set(expected_rejections(adds))
    ids, vals = [], {}
    for k, (i, p) in enumerate(adds):
        if k in rej:
            continue
        ids.append(i[1])
        vals[i[1]] = {n: (shape_of(v), [Fraction(v[1])] if v[0] == "num" else [Fraction(e[1]) for e in v[1]]) for n, v in p}
    return ids, vals


def expected_rejections(adds):
    """Indices of the additions the property says must be refused (independent of the Lean model)."""
    seen, shapes, rej = [], None, []
    for k, (i, p) in enumerate(adds):
        ok = i[0] == "s" and i[1] not in seen and p != "notdict" and all(value_supported(v) for _, v in p)
        if ok:
            sh = {n: shape_of(v) for n, v in p}
            if shapes is None:
                shapes = sh
            elif shapes != sh:
                ok = False
        if ok:
            seen.append(i[1])
        else:
            rej.append(k)
    return rej


# ------------------------------------------------------------------ running the implementation
def build_impl(env, adds):
    """All additions in order; returns (container, ['k:class', …], [failures of 'a refusal leaves no trace'])."""
    ip = env["IP"]()
    rej, fails = [], []
    buf = {}
    for k, (i, p) in enumerate(adds):
        before = canon_container(env, ip)
        pid = mk_id(i)
        par = [1.0] if p == "notdict" else {n: mk_value(env, v) for n, v in p}
        if isinstance(par, dict) and k % 3 == 1:
            # the caller fills ONE dictionary object again and again (a row buffer) and adds it for each individual
            buf.clear()
            buf.update(par)
            par = buf
        try:
            ip.add_individual_parameters(pid, par)
            if isinstance(par, dict):
                # ... and goes on using its dictionary afterwards: the container holds its own values
                held = canon_container(env, ip)
                for n in list(par):
                    v = par[n]
                    if isinstance(v, list):
                        # (a list value itself is kept by reference upstream: only the dictionary is re-used here)
                        par[n] = [x + 5 if isinstance(x, (int, float)) and not isinstance(x, bool) else x for x in v] + [99.0]
                    elif isinstance(v, (int, float)) and not isinstance(v, bool):
                        par[n] = v + 5
                    elif hasattr(v, "dtype") and getattr(v, "size", 0) and v.dtype.kind in "fiu" and getattr(v, "flags", None) is not None and v.flags.writeable:
                        v += 5
                par["__added_later__"] = 1.0
                if canon_container(env, ip) != held:
                    fails.append(f"addition #{k}: the container follows later changes of the dictionary the caller handed over")
                par.pop("__added_later__", None)
        except Exception as e:  # noqa
            rej.append(f"{k}:{err_class(env, e)[4:]}")
            if canon_container(env, ip) != before:
                fails.append(f"refused addition #{k} modified the container")
        if k in (0, len(adds) // 2) and len(adds) > 1:
            # every conversion is also requested while the container is still being filled (results discarded): a conversion
            # asked again later must describe the container as it is then, not as it was
            for conv in (lambda: ip.to_dataframe(), lambda: ip.to_pytorch(), lambda: ip.to_dict() if hasattr(ip, "to_dict") else None):
                try:
                    conv()
                except Exception:  # noqa  (empty container, F11/F12 regions: judged on the final conversion only)
                    pass
    return ip, rej, fails


def original_values(env, ip):
    """{id: {name: (shape, [fractions])}} of a container, for the loss-less predicate."""
    out = {}
    for i in ip._indices:
        d = {}
        for n, v in ip._individual_parameters[i].items():
            if isinstance(v, list):
                d[n] = ((len(v),), [frac(env, x) for x in v])
            else:
                d[n] = ((), [frac(env, v)])
        out[i] = d
    return out


def lossless_failures(env, orig_ids, orig, back, *, f32: bool):
    """The property predicate for one round trip. Returns (failures, only_scalar_to_len1: bool)."""
    fails = []
    if back._indices != orig_ids or any(not isinstance(i, str) for i in back._indices):
        fails.append(f"identifiers {back._indices!r} != {orig_ids!r}")
        return fails, False
    got = original_values(env, back)
    only_f12 = True
    for i in orig_ids:
        if list(sorted(got[i])) != list(sorted(orig[i])):
            fails.append(f"id {i!r}: parameter names {sorted(got[i])} != {sorted(orig[i])}")
            only_f12 = False
            continue
        for n, (sh, xs) in orig[i].items():
            gsh, gxs = got[i][n]
            if gsh != sh:
                fails.append(f"id {i!r} parameter {n!r}: shape {gsh} != {sh}")
                if not (sh == () and gsh == (1,)):
                    only_f12 = False
            if len(gxs) != len(xs):
                only_f12 = False
                continue
            for a, b in zip(xs, gxs):
                if a is None or b is None:
                    bad = True
                elif f32:
                    bad = abs(a - b) > abs(a) * Fraction(1, 2 ** 24) + Fraction(1, 2 ** 149)
                else:
                    bad = a != b
                if bad:
                    fails.append(f"id {i!r} parameter {n!r}: value {b} != {a}" + (" (beyond single precision)" if f32 else ""))
                    only_f12 = False
                    break
    return fails, only_f12


def classify(case, fails, only_f12, path):
    """Known-finding region of a failed round trip (narrow): F11 = a name contains '_' and the path goes through
    from_dataframe; F12 = the only loss is scalar -> length-1 list, through from_dataframe / from_pytorch."""
    names = case["names"]
    if path in ("table", "csv") and any("_" in n for n in names):
        return F11
    if path in ("table", "csv", "torch") and case["has_scalar"] and only_f12:
        return F12
    return None


def still_a_container(env, chk, cj, back, how):
    """A container that came out of a conversion is a container like any other: an identifier it already holds is refused
    (input error, nothing changed), a new one is accepted and listed last.  Works on a deep copy."""
    import copy
    try:
        c = copy.deepcopy(back)
        if not c._indices:
            return
        first = c._indices[0]
        params = copy.deepcopy(c._individual_parameters[first])
        before = canon_container(env, c)
        try:
            c.add_individual_parameters(first, params)
            chk.impl_failure(cj, f"container obtained {how}: an identifier it already holds ({first!r}) is accepted a second time "
                                 f"(identifiers now {c._indices})")
            return
        except Exception as e:  # noqa
            if err_class(env, e) != "err:input":
                chk.impl_failure(cj, f"container obtained {how}: duplicate identifier refused with {type(e).__name__}, documented: input error")
            if canon_container(env, c) != before:
                chk.impl_failure(cj, f"container obtained {how}: the refused duplicate modified it")
        new_id = "zz-new-" + str(len(c._indices))
        try:
            c.add_individual_parameters(new_id, params)
            if c._indices[-1] != new_id or len(c._indices) != len(back._indices) + 1:
                chk.impl_failure(cj, f"container obtained {how}: a new individual is not listed last ({c._indices[-3:]})")
        except Exception as e:  # noqa
            chk.impl_failure(cj, f"container obtained {how}: a new, well-formed individual is refused: {type(e).__name__}: {str(e)[:100]}")
    except Exception:  # noqa  (deepcopy or attribute layout: not this clause's matter)
        return


def run_path(env, chk, case, tmpdir):
    """Run one case on the implementation; returns the canonical response string (same syntax as the driver)."""
    adds, path = case["adds"], case["path"]
    ip, rej, fails = build_impl(env, adds)
    cj = case_json(case)
    for f in fails:
        chk.impl_failure(cj, f)
    exp = expected_rejections(adds)
    got = [int(r.split(":")[0]) for r in rej]
    if got != exp:
        chk.impl_failure(cj, f"additions refused: {got}, the property demands exactly {exp}")
    for r in rej:
        if not r.endswith(":input"):
            chk.impl_failure(cj, f"addition refused with the wrong exception class: {r}")
    prefix = f"rej={flist(rej)} "
    orig_ids = list(ip._indices)
    orig = original_values(env, ip)
    # the container holds what was handed over: identifiers verbatim and in order, names, shapes, numbers (the reference is the
    # case description; float32 scalars are handed over as the double they are)
    if got == exp:
        want_ids, want = expected_container(adds)
        if orig_ids != want_ids or any(type(i) is not str and not isinstance(i, str) for i in orig_ids):
            chk.impl_failure(cj, f"after the additions the container lists {orig_ids!r}, handed over: {want_ids!r}")
        else:
            for i in want_ids:
                if sorted(orig[i]) != sorted(want[i]):
                    chk.impl_failure(cj, f"id {i!r}: the container holds parameters {sorted(orig[i])}, handed over: {sorted(want[i])}")
                    break
                bad = next((n for n in want[i] if orig[i][n] != want[i][n]), None)
                if bad is not None:
                    chk.impl_failure(cj, f"id {i!r} parameter {bad!r}: the container holds {orig[i][bad]}, handed over: {want[i][bad]}")
                    break
            for i in want_ids:
                try:
                    if ip[i] is not ip._individual_parameters[i] and ip[i] != ip._individual_parameters[i]:
                        chk.impl_failure(cj, f"container[{i!r}] is not the dictionary held for {i!r}")
                except Exception as e:  # noqa
                    chk.impl_failure(cj, f"container[{i!r}] raised {type(e).__name__} for an identifier it lists")
            if [k for k, _ in ip.items()] != want_ids:
                chk.impl_failure(cj, f"items() lists {[k for k, _ in ip.items()]!r}, identifiers are {want_ids!r}")
    nonempty = ip._parameters_shape is not None
    case["names"] = list(ip._parameters_shape) if nonempty else []
    case["has_scalar"] = nonempty and any(s == () for s in ip._parameters_shape.values())
    before = canon_container(env, ip)

    def check_untouched():
        if canon_container(env, ip) != before or ip._indices != orig_ids:
            chk.impl_failure(cj, f"conversion '{path}' modified the source container")

    if path == "build":
        return prefix + "c=" + before
    if path in ("table", "csv"):
        try:
            if path == "table":
                df = ip.to_dataframe()
            else:
                p = os.path.join(tmpdir, f"ip_{chk.evaluations}.csv")
                ip.save(p)
                df = ip.to_dataframe()
        except Exception as e:  # noqa
            ec = err_class(env, e)
            if nonempty:
                chk.impl_failure(cj, f"{path}: conversion of a valid container raised {type(e).__name__}: {e}")
            elif path == "csv" and ec != "err:input":
                chk.impl_failure(cj, f"saving the empty container raised {ec}, documented: input error")
            return prefix + f"t={ec} back=-"
        t = canon_table(env, df)
        case["dup_cols"] = len(set(df.columns)) != len(df.columns)
        try:
            back = env["IP"].from_dataframe(df) if path == "table" else env["IP"].load(p)
        except Exception as e:  # noqa
            chk.impl_failure(cj, f"{path}: reading back raised {type(e).__name__}: {e}",
                             finding=classify(case, [], False, path))
            check_untouched()
            return prefix + f"t={t} back={err_class(env, e)}"
        fl, only = lossless_failures(env, orig_ids, orig, back, f32=False)
        for f in fl[:2]:
            chk.impl_failure(cj, f"{path} round trip: {f}", finding=classify(case, fl, only, path))
        check_untouched()
        still_a_container(env, chk, cj, back, f"from the {path} form")
        return prefix + f"t={t} back={canon_container(env, back)}"
    if path == "torch":
        torch = env["torch"]
        try:
            ids, d = ip.to_pytorch()
        except Exception as e:  # noqa
            if nonempty:
                chk.impl_failure(cj, f"to_pytorch of a valid container raised {type(e).__name__}: {e}")
            return prefix + f"t={err_class(env, e)} back=-"
        ids = list(ids)
        if ids != orig_ids:
            chk.impl_failure(cj, f"to_pytorch identifiers {ids} != {orig_ids}")
        sizes = {n: (1 if s == () else s[0]) for n, s in ip._parameters_shape.items()}
        if list(d) != list(sizes):
            chk.impl_failure(cj, f"to_pytorch names {list(d)} != {list(sizes)}")
        for n, tns in d.items():
            if tns.dtype != torch.float32 or tuple(tns.shape) != (len(orig_ids), sizes.get(n)):
                chk.impl_failure(cj, f"to_pytorch['{n}'] is {tns.dtype} {tuple(tns.shape)}, expected float32 ({len(orig_ids)}, {sizes.get(n)})")
            else:
                for r, i in enumerate(orig_ids):
                    for a, b in zip(orig[i][n][1], tns[r].tolist()):
                        if a is None or abs(a - Fraction(b)) > abs(a) * Fraction(1, 2 ** 24) + Fraction(1, 2 ** 149):
                            chk.impl_failure(cj, f"to_pytorch['{n}'][{r}] = {b!r}, stored {a}")
        t = canon_tensors(env, ids, d)
        try:
            back = env["IP"].from_pytorch(ids, d)
        except Exception as e:  # noqa
            chk.impl_failure(cj, f"from_pytorch(to_pytorch()) raised {type(e).__name__}: {e}")
            return prefix + f"t={t} back={err_class(env, e)}"
        fl, only = lossless_failures(env, orig_ids, orig, back, f32=True)
        for f in fl[:2]:
            chk.impl_failure(cj, f"tensor round trip: {f}", finding=classify(case, fl, only, path))
        check_untouched()
        still_a_container(env, chk, cj, back, "from the tensor form")
        return prefix + f"t={t} back={canon_container(env, back)}"
    if path == "json":
        import json
        p = os.path.join(tmpdir, f"ip_{chk.evaluations}.json")
        try:
            ip.save(p)
        except Exception as e:  # noqa
            ec = err_class(env, e)
            if nonempty:
                chk.impl_failure(cj, f"saving a valid container as JSON raised {type(e).__name__}: {e}")
            elif ec != "err:input":
                chk.impl_failure(cj, f"saving the empty container raised {ec}, documented: input error")
            return prefix + f"j={ec} back=-"
        if not nonempty:
            chk.impl_failure(cj, "the empty container was saved (documented: refused)")
        with open(p) as f:
            j = canon_json(env, json.load(f))
        try:
            back = env["IP"].load(p)
        except Exception as e:  # noqa
            chk.impl_failure(cj, f"loading the JSON file raised {type(e).__name__}: {e}")
            return prefix + f"j={j} back={err_class(env, e)}"
        fl, _ = lossless_failures(env, orig_ids, orig, back, f32=False)
        for f in fl[:2]:
            chk.impl_failure(cj, f"JSON round trip: {f}")
        if nonempty and back._parameters_shape != ip._parameters_shape:
            chk.impl_failure(cj, f"JSON round trip: shapes {back._parameters_shape} != {ip._parameters_shape}")
        check_untouched()
        still_a_container(env, chk, cj, back, "by loading its JSON file")
        return prefix + f"j={j} back={canon_container(env, back)}"
    if path == "jsonrev":
        import json
        torch = env["torch"]
        p = os.path.join(tmpdir, f"ip_{chk.evaluations}_rev.json")
        try:
            ip.save(p)
        except Exception as e:  # noqa
            return prefix + f"t={err_class(env, e)}"
        with open(p) as f:
            jd = json.load(f)
        # same content, the dictionary of individuals listed in another order than the identifier list
        jd["individual_parameters"] = dict(reversed(list(jd["individual_parameters"].items())))
        with open(p, "w") as f:
            json.dump(jd, f)
        try:
            back = env["IP"].load(p)
            ids, d = back.to_pytorch()
        except Exception as e:  # noqa
            chk.impl_failure(cj, f"loading a JSON file with re-ordered individuals and converting to tensors raised {type(e).__name__}: {e}")
            return prefix + f"t={err_class(env, e)}"
        ids = list(ids)
        if ids != orig_ids:
            chk.impl_failure(cj, f"identifiers after JSON load + to_pytorch {ids} != {orig_ids}")
        for n, tns in d.items():
            for r, i in enumerate(orig_ids):
                if r < tns.shape[0] and i in orig and n in orig[i]:
                    for a, b in zip(orig[i][n][1], tns[r].tolist()):
                        if a is None or abs(a - Fraction(b)) > abs(a) * Fraction(1, 2 ** 24) + Fraction(1, 2 ** 149):
                            chk.impl_failure(cj, f"after JSON load (individuals listed in another order) to_pytorch['{n}'] row {r} does not "
                                             f"belong to identifier {i!r}: {b!r} vs stored {a}")
                            break
        check_untouched()
        return prefix + f"t={canon_tensors(env, ids, d)}"
    raise core.Infra(f"unknown path {path}")


def run_direct(env, chk, case):
    """fromtable / fromtorch on hand-made inputs (pure correspondence + the identifier clause)."""
    np, pd, torch, IP = env["np"], env["pd"], env["torch"], env["IP"]
    cj = case_json(case)
    if case["path"] == "fromtable":
        cols, rows = case["cols"], case["rows"]
        df = pd.DataFrame([[float(Fraction(x)) for x in r[1]] for r in rows], columns=cols,
                          index=pd.Index([mk_id(r[0]) for r in rows], dtype=object, name="ID"))
        try:
            back = IP.from_dataframe(df)
        except Exception as e:  # noqa
            return err_class(env, e)
        if back._indices != [mk_id(r[0]) for r in rows]:
            chk.impl_failure(cj, f"from_dataframe identifiers {back._indices}")
        return canon_container(env, back)
    ids, ts = case["ids"], case["tensors"]
    d = {}
    for n, kind, rows in ts:
        if kind == 1:
            d[n] = torch.tensor([float(Fraction(x)) for x in rows], dtype=torch.float32)
        else:
            w = len(rows[0]) if rows else case.get("width", 1)
            d[n] = torch.tensor([[float(Fraction(x)) for x in r] for r in rows], dtype=torch.float32).reshape(len(rows), w)
    pids = [mk_id(i) for i in ids]
    try:
        back = IP.from_pytorch(pids, d)
    except Exception as e:  # noqa
        ok_ids = all(i[0] == "s" for i in ids) and len({i[1] for i in ids}) == len(ids)
        ok_len = all(len(r) == len(ids) for _, _, r in ts)
        ok_w = all(k == 1 or all(len(x) > 0 for x in r) for _, k, r in ts)
        if ok_ids and ok_len and ok_w:
            chk.impl_failure(cj, f"from_pytorch refused a well-formed input: {type(e).__name__}: {e}")
        return err_class(env, e)
    if back._indices != pids:
        chk.impl_failure(cj, f"from_pytorch identifiers {back._indices} != {pids} (order / alignment)")
    for r, i in enumerate(pids):
        for n, kind, rows in ts:
            v = back._individual_parameters[i][n]
            want = rows[r]
            got = v if isinstance(v, list) else [v]
            want = want if isinstance(want, list) else [want]
            if [Fraction(x) for x in got] != [Fraction(x) for x in want]:
                chk.impl_failure(cj, f"from_pytorch: id {i!r} does not carry row {r} of '{n}'")
    return canon_container(env, back)


def lean_line(case) -> str:
    p = case["path"]
    if p == "fromtable":
        rows = flist((f"{'s' + hx(r[0][1]) if r[0][0] == 's' else 'n'}@" + (":".join(fmt_rat(Fraction(x)) for x in r[1]) or "e")
                      for r in case["rows"]), "|")
        return f"fromtable cols={flist('x' + hx(c) for c in case['cols'])} rows={rows}"
    if p == "fromtorch":
        ts = []
        for n, kind, rows in case["tensors"]:
            if kind == 1:
                ts.append(f"x{hx(n)}~1~" + (":".join(fmt_rat(Fraction(x)) for x in rows) or "e"))
            else:
                ts.append(f"x{hx(n)}~2~" + flist(((":".join(fmt_rat(Fraction(x)) for x in r) or "e") for r in rows), ";"))
        return f"fromtorch ids={flist(('s' + hx(i[1]) if i[0] == 's' else 'n') for i in case['ids'])} t={flist(ts, '&')}"
    return f"{p} adds={lean_adds(case['adds'])}"


def case_json(case):
    return {k: v for k, v in case.items() if k in ("path", "adds", "cols", "rows", "ids", "tensors", "width")}


# ------------------------------------------------------------------ generators
IDS = ["001", "1e3", "0", "-1", "1.0", "7", "id 1", "a,b", 'q"q', "é", " x ", "S-12", "NA", "null", "nan", "None", "", "N/A",
       "True", "1_000", "0x10", "idx", "sub-01", "A" * 40]
# identifiers that a normalisation (strip, lower-casing, numeric parsing, unicode folding) would merge: all distinct strings
ID_FAMILIES = [["1", "1.0", "01", "1e0", "+1", " 1", "1 "], ["x", " x", "x ", "X", "x\t"], ["é", "e\u0301", "E\u0301", "É"],
               ["nan", "NaN", "NAN", "NA", "N/A", "<NA>", "null", "None", ""], ["0", "-0", "0.0", "00", "False"], ["a\nb", "a b", "a\tb", "a  b"]]
PLAIN = ["xi", "tau", "sources", "source", "resources", "w", "z0", "tausource", "B2", "ID2", "x"]
UNDER = ["log_v0", "tau_0", "xi_", "_w", "a_b", "a_0", "a", "sources_extra", "noise_std", "v_0_1"]


NO_F32 = False   # set while generating CSV cases (see LEAN["assumptions"])


def gen_num(rng, tag=None, dyadic=True):
    tag = tag or rng.choice(["float", "float", "float", "int", "f32", "f64", "i64", "i32"])
    if NO_F32 and tag == "f32":
        tag = "f64"
    if tag in ("int", "i32", "i64"):
        # (numpy int32 beyond 2**24 is left out: pandas infers float32 for a column mixing np.int32 and np.float32)
        k = rng.choice([0, 1, -1, 70, rng.randrange(-200, 200)] + ([2 ** 24 + 1, -(2 ** 24 + 3)] if tag != "i32" else []))
        return ["num", str(k), tag]
    if tag == "f32":
        return ["num", str(Fraction(rng.randrange(-4096, 4096), 2 ** rng.randrange(0, 11))), tag]
    if dyadic or rng.random() < 0.5:
        q = Fraction(rng.randrange(-2 ** 30, 2 ** 30), 2 ** rng.randrange(0, 28)) if rng.random() < 0.3 else \
            Fraction(rng.randrange(-4096, 4096), 2 ** rng.randrange(0, 11))
        return ["num", str(q), tag]
    if rng.random() < 0.5:
        x = rng.choice([0.1, 70.3, -0.3, 1e-3, 123456.789, 1 / 3, 2.5e-7, 66.6])
    else:
        # any double: full mantissa, magnitudes over many decades (inside the float32 range: the tensor path rounds it)
        x = rng.choice([rng.uniform(-100, 100), rng.gauss(0, 1) * 10.0 ** rng.randrange(-30, 31), 0.1 + 0.2, 1e16 + 2, 2.0 ** 53, 1e-37, -3e38,
                        1.1754943508222875e-38, 7e-46, 16777217.0])
    return ["num", str(Fraction(x)), tag]


def gen_value(rng, shape, dyadic):
    if shape == ():
        v = gen_num(rng, dyadic=dyadic)
        return v + ["nd0"] if rng.random() < 0.12 else v
    tag = rng.choice(["float", "float", "mixed", "int", "f32", "f64", "i64"])
    elems = [gen_num(rng, None if tag == "mixed" else tag, dyadic) for _ in range(shape[0])]
    # numpy arrays of every supported dtype (a "mixed" array is promoted by numpy: the exact double is what must arrive)
    cont = "ndarray" if tag != "mixed" and not (NO_F32 and tag == "f32") and rng.random() < 0.3 else "list"
    return ["list", elems, cont]


def gen_container_case(rng, path):
    global NO_F32
    NO_F32 = path == "csv"
    dyadic = rng.random() < 0.6
    style = rng.choice(["vec", "vec", "scalar", "mixed", "mixed", "underscore"])
    n_par = rng.randrange(1, 5)
    pool = PLAIN if style != "underscore" else PLAIN + UNDER
    names = rng.sample(pool, min(n_par, len(pool)))
    if style == "underscore" and not any("_" in n for n in names):
        names[0] = rng.choice([u for u in UNDER if u not in names])
    shapes = {}
    for n in names:
        if style == "vec":
            # also vectors with more than ten components (component columns name_10, name_11 … sort before name_2 as text)
            shapes[n] = (rng.choice([1, 1, 2, 3, 5, 11, 13]),)
        elif style == "scalar":
            shapes[n] = ()
        else:
            shapes[n] = rng.choice([(), (1,), (1,), (2,), (4,)])
    n_ids = rng.choice([0, 1, 1, 2, 3, 3, 5, 8])
    ids = rng.sample(IDS, n_ids)
    if n_ids >= 2 and rng.random() < 0.3:
        fam = rng.choice(ID_FAMILIES)
        ids = rng.sample(fam, min(len(fam), n_ids))
        if path == "csv":
            # (a bare carriage return / line feed inside a field is the CSV text layer's matter, see LEAN["assumptions"])
            ids = [i for i in ids if "\n" not in i and "\r" not in i]
    adds = []
    for i in ids:
        order = list(names)
        if rng.random() < 0.3:
            rng.shuffle(order)
        adds.append([["s", i], [[n, gen_value(rng, shapes[n], dyadic)] for n in order]])
    # seeded invalid additions (must be refused and leave no trace)
    for _ in range(rng.choice([0, 0, 1, 2])):
        kind = rng.choice(["dup", "nonstr", "notdict", "badscalar", "badelem", "badhead", "empty", "shape", "missing", "extra", "nd2"])
        pos = rng.randrange(0, len(adds) + 1)
        base = [[n, gen_value(rng, shapes[n], dyadic)] for n in names]
        i = ["s", rng.choice(["new1", "new2", "zz"]) + str(rng.randrange(100))]
        if kind == "dup" and pos > 0 and adds[pos - 1][0][0] == "s":
            i = adds[pos - 1][0]
        elif kind == "nonstr":
            i = ["n", rng.choice(["int", "float", "none"])]
        elif kind == "notdict":
            base = "notdict"
        elif kind == "badscalar":
            base[0] = [base[0][0], ["bad", rng.choice(["str", "bool", "none", "dict", "complex", "tuple", "set", "tensor", "npbool", "f16", "decimal"])]]
        elif kind == "badelem":
            base[0] = [base[0][0], ["list", [gen_num(rng, "float"), ["bad", rng.choice(["str", "nested", "none", "bool"])]], "list"]]
        elif kind == "badhead":
            base[0] = [base[0][0], ["list", [["bad", rng.choice(["str", "nested"])], gen_num(rng, "float")], "list"]]
        elif kind == "empty":
            base[0] = [base[0][0], ["list", [], "list"]]
        elif kind == "nd2":
            base[0] = [base[0][0], ["bad", rng.choice(["nd2", "nd21", "nd_bool", "nd_str", "nd_obj"])]]
        elif kind == "shape":
            s = shapes[names[0]]
            base[0] = [names[0], gen_value(rng, (s[0] + 1,) if s else (1,), dyadic)] if rng.random() < 0.7 else \
                      [names[0], gen_value(rng, (), dyadic)]
        elif kind == "missing" and len(base) > 1:
            base = base[1:]
        elif kind == "extra":
            base = base + [["extra", gen_value(rng, (1,), dyadic)]]
        adds.insert(pos, [i, base])
    return {"path": path, "adds": adds}


def gen_fromtable(rng):
    pool = ["a", "a_0", "a_1", "a_b", "b", "tau", "sources_0", "sources_1", "_x", "xi", "b_0", "a_b_0"]
    cols = [rng.choice(pool) for _ in range(rng.randrange(1, 5))]
    if rng.random() < 0.6:
        cols = list(dict.fromkeys(cols))
    ids = [["s", i] for i in rng.sample(IDS, rng.randrange(0, 4))]
    if ids and rng.random() < 0.25:
        ids.append(rng.choice([["n", "int"], ids[0]]))
    rows = [[i, [str(Fraction(rng.randrange(-64, 64), 4)) for _ in cols]] for i in ids]
    return {"path": "fromtable", "cols": cols, "rows": rows}


def gen_fromtorch(rng):
    n = rng.randrange(0, 5)
    ids = [["s", i] for i in rng.sample(IDS, n)]
    if ids and rng.random() < 0.2:
        ids[rng.randrange(len(ids))] = rng.choice([["n", "int"], ids[0]])
    ts = []
    width0 = 1
    for name in rng.sample(PLAIN, rng.randrange(1, 4)):
        m = n if rng.random() < 0.85 else n + rng.choice([1, -1]) if n > 0 else 1
        if rng.random() < 0.3:
            ts.append([name, 1, [str(Fraction(rng.randrange(-64, 64), 8)) for _ in range(m)]])
        else:
            w = rng.choice([0, 1, 1, 2, 3])
            width0 = w
            ts.append([name, 2, [[str(Fraction(rng.randrange(-64, 64), 8)) for _ in range(w)] for _ in range(m)]])
    return {"path": "fromtorch", "ids": ids, "tensors": ts, "width": width0}


def num(q, tag="float"):
    return ["num", str(Fraction(q)), tag]


def vec(*qs, tag="float"):
    return ["list", [num(q, tag) for q in qs], "list"]


def fixed_cases():
    """Witnesses of the findings / repairs, run on every seed."""
    doc = [[["s", "index-1"], [["xi", num(0.5)], ["tau", num(70, "int")], ["sources", vec(0.25, -0.5)]]],
           [["s", "index-2"], [["xi", num(0.25)], ["tau", num(73, "int")], ["sources", vec(-0.5, -0.125)]]]]
    out = []
    for p in ("table", "csv", "torch", "json", "build"):
        out.append({"path": p, "adds": doc, "fixed": "F10/F12 docstring example (scalars)"})
    und = [[["s", "001"], [["log_v0", vec(0.5)], ["tau", vec(70.0)]]], [["s", "1e3"], [["tau", vec(71.0)], ["log_v0", vec(0.75)]]]]
    for p in ("table", "csv", "torch", "json"):
        out.append({"path": p, "adds": und, "fixed": "F11 log_v0"})
    out.append({"path": "table", "adds": [[["s", "a"], [["a", vec(1, 2)], ["a_0", vec(3)]]]], "fixed": "F11 merge"})
    out.append({"path": "table", "adds": [[["s", "a"], [["a", vec(1)], ["a_b", vec(3, 4)]]]], "fixed": "F11 AttributeError"})
    out.append({"path": "build", "adds": [[["s", "a"], [["sources", ["list", [num(0.5), ["bad", "str"]], "list"]]]]], "fixed": "F12a"})
    out.append({"path": "build", "adds": [[["s", "a"], [["sources", ["list", [num(0.5), ["bad", "nested"]], "list"]]]]], "fixed": "F12a"})
    out.append({"path": "json", "adds": [[["s", "a"], [["xi", num(0.5, "f32")], ["tau", num(70, "i64")], ["w", vec(1, 2, tag="f32")]]]], "fixed": "F12b"})
    for i in ("NA", "null", ""):
        out.append({"path": "csv", "adds": [[["s", i], [["tau", vec(1.5)]]], [["s", "zz"], [["tau", vec(2.5)]]]], "fixed": "F12c"})
    out.append({"path": "table", "adds": [], "fixed": "empty"})
    out.append({"path": "torch", "adds": [], "fixed": "empty"})
    out.append({"path": "json", "adds": [], "fixed": "empty"})
    out.append({"path": "csv", "adds": [], "fixed": "empty"})
    return out


# ------------------------------------------------------------------ wide block (implementation only, no Lean line)
# What the exact-rational driver cannot express (non-finite values, values beyond the float32 range) and what is not a conversion of
# the model (copies, sub-selection, file naming, options of save, other dtypes / containers of the from_* inputs, process state).
# The reference is always the case description.
F111 = "F111"
F112 = "F112"
WIDE_NAMES = ["xi", "tau", "sources", "w", "é t", "a,b", 'q"q', "x.1", "0", "tau.1", " lead", "UPPER", "x;y", "source", "B2"]
WIDE_SPECIAL = [float("nan"), float("inf"), -float("inf"), 1e300, -1e300, 5e-324, 2.2250738585072014e-308, 1.7976931348623157e308,
                3.4028235677973366e38, 1e39, 1e-46, -0.0, 0.1 + 0.2, 9007199254740992.0]


def wv(t):
    return int(t[1:]) if t.startswith("#") else float.fromhex(t)


def wt(x):
    return f"#{x}" if isinstance(x, int) else float(x).hex()


def gen_wide(rng):
    n_par = rng.randrange(1, 4)
    names = rng.sample(WIDE_NAMES, n_par)
    if rng.random() < 0.06:
        names[0] = rng.choice(["ID", ""])         # F111 region
    shapes = {n: rng.choice([None, 1, 1, 2, 3, 12]) if rng.random() < 0.3 else rng.choice([1, 2, 3]) for n in names}
    fam = rng.choice(ID_FAMILIES)
    pool = list(dict.fromkeys(IDS + fam))
    ids = rng.sample(pool, rng.randrange(1, 6))
    special = rng.random() < 0.6

    def num():
        r = rng.random()
        if special and r < 0.3:
            return wt(rng.choice(WIDE_SPECIAL))
        if r < 0.45:
            return wt(rng.choice([0, 1, -1, 70, 2 ** 24 + 1, 2 ** 31, -(2 ** 40) - 1, 2 ** 53]))
        return wt(rng.gauss(0, 1) * 10.0 ** rng.randrange(-12, 13))
    vals = {i: {n: (num() if shapes[n] is None else [num() for _ in range(shapes[n])]) for n in names} for i in ids}
    return {"path": "wide", "ids": ids, "names": names, "shapes": shapes, "vals": vals,
            "via": rng.choice(["none", "none", "deepcopy", "pickle", "subset-list", "subset-tuple", "subset-nocopy"]),
            "cont": rng.choice(["list", "list", "ndarray", "npstr-id"]),
            "state": rng.choice(["none", "none", "none", "torch-f64", "pandas-infer-string", "pandas-cow"]),
            "wseed": rng.randrange(10 ** 6)}


def num_same(a, b, f32=False):
    """the same number (int / float type aside); nan is nan; through float32 when tensors are involved"""
    import math
    import numpy as np
    if isinstance(a, bool) or isinstance(b, bool) or not isinstance(a, (int, float)) or not isinstance(b, (int, float, np.integer, np.floating)):
        return False
    if f32:
        with np.errstate(over="ignore"):
            a = float(np.float32(a))
    b = b.item() if isinstance(b, np.generic) else b
    if isinstance(a, float) and math.isnan(a):
        return isinstance(b, float) and math.isnan(b)
    return a == b


def wide_compare(case, want_ids, want, back, f32, tolerate_len1):
    """failures of one round trip; `tolerate_len1`: a scalar that comes back as a one-element list is finding F12, listed apart"""
    fails, f12 = [], []
    if list(back._indices) != want_ids or any(not isinstance(i, str) for i in back._indices):
        return [f"identifiers {list(back._indices)!r}, handed over {want_ids!r}"], f12
    for i in want_ids:
        got = back._individual_parameters.get(i)
        if got is None or sorted(got) != sorted(want[i]):
            fails.append(f"id {i!r}: parameter names {None if got is None else sorted(got)}, handed over {sorted(want[i])}")
            continue
        for n, v in want[i].items():
            g = got[n]
            if not isinstance(v, list) and isinstance(g, list) and len(g) == 1 and tolerate_len1:
                f12.append(f"id {i!r} parameter {n!r}: scalar comes back as a one-element list")
                g = g[0]
            if isinstance(v, list) != isinstance(g, list) or (isinstance(v, list) and len(v) != len(g)):
                fails.append(f"id {i!r} parameter {n!r}: shape changes ({g!r} for {v!r})")
            elif not all(num_same(a, b, f32) for a, b in zip(v if isinstance(v, list) else [v], g if isinstance(g, list) else [g])):
                fails.append(f"id {i!r} parameter {n!r}: {g!r} for {v!r}" + (" (beyond single precision)" if f32 else ""))
    return fails, f12


class _State:
    """ambient process state for one case, always restored"""

    def __init__(self, env, which):
        self.env, self.which, self.ctx = env, which, None

    def __enter__(self):
        torch, pd = self.env["torch"], self.env["pd"]
        if self.which == "torch-f64":
            self.old = torch.get_default_dtype()
            torch.set_default_dtype(torch.float64)
        elif self.which == "pandas-infer-string":
            self.ctx = pd.option_context("future.infer_string", True)
            self.ctx.__enter__()
        elif self.which == "pandas-cow":
            self.ctx = pd.option_context("mode.copy_on_write", True)
            self.ctx.__enter__()

    def __exit__(self, *a):
        if self.which == "torch-f64":
            self.env["torch"].set_default_dtype(self.old)
        elif self.ctx is not None:
            self.ctx.__exit__(*a)
        return False


def run_wide(env, chk, case, tmpdir):
    import copy
    import json
    import pickle
    import random
    np, pd, torch, IP = env["np"], env["pd"], env["torch"], env["IP"]
    rng = random.Random(case["wseed"])
    cj = dict(case)
    ids, names, shapes = list(case["ids"]), list(case["names"]), case["shapes"]
    want = {i: {n: ([wv(t) for t in case["vals"][i][n]] if shapes[n] is not None else wv(case["vals"][i][n])) for n in names} for i in ids}
    in_f111 = any(n in ("ID", "") for n in names)
    has_scalar = any(shapes[n] is None for n in names)
    tags = {"path": "wide", "wide_via": case["via"], "wide_state": case["state"], "wide_f111": in_f111}

    def fail(what, finding=None):
        chk.impl_failure(cj, what, finding=finding)

    def handed(i):
        d = {}
        for n in names:
            v = want[i][n]
            if case["cont"] == "ndarray" and isinstance(v, list) and all(isinstance(x, float) for x in v):
                v = np.array(v, dtype=np.float64)
            else:
                v = copy.deepcopy(v)
            d[n] = v
        return d
    with _State(env, case["state"]):
        ip = IP()
        try:
            for i in ids:
                ip.add_individual_parameters(np.str_(i) if case["cont"] == "npstr-id" else i, handed(i))
        except Exception as e:  # noqa
            fail(f"a well-formed addition is refused: {type(e).__name__}: {str(e)[:100]}")
            chk.case(("wide", json.dumps(cj, sort_keys=True)[:400]), nontrivial=True, tags=tags)
            return
        # ---- the container behind a copy / a pickle / a sub-selection of everybody is the same container
        via = case["via"]
        try:
            if via == "deepcopy":
                ip = copy.deepcopy(ip)
            elif via == "pickle":
                ip = pickle.loads(pickle.dumps(ip))
            elif via == "subset-list":
                ip = ip.subset(list(ids))
            elif via == "subset-tuple":
                ip = ip.subset(tuple(ids))
            elif via == "subset-nocopy":
                ip = ip.subset(list(ids), copy=False)
        except Exception as e:  # noqa
            fail(f"{via} of a valid container raised {type(e).__name__}: {str(e)[:100]}")
            chk.case(("wide", json.dumps(cj, sort_keys=True)[:400]), nontrivial=True, tags=tags)
            return
        f, _ = wide_compare(case, ids, want, ip, False, False)
        for x in f[:2]:
            fail(f"container ({via}): {x}")
        # ---- sub-selection: the requested identifiers, in the requested order, same values; refusals; source untouched
        if len(ids) >= 2:
            sel = rng.sample(ids, rng.randrange(1, len(ids) + 1))
            before = canon_container(env, ip) if not any(isinstance(v, float) and v != v for d in want.values() for vv in d.values()
                                                         for v in (vv if isinstance(vv, list) else [vv])) else None
            for how, arg in (("list", list(sel)), ("tuple", tuple(sel)), ("generator", (x for x in sel)), ("dict keys", dict.fromkeys(sel).keys())):
                try:
                    sub = ip.subset(arg, copy=rng.random() < 0.7)
                except Exception as e:  # noqa
                    fail(f"subset({how} of known identifiers) raised {type(e).__name__}: {str(e)[:80]}")
                    continue
                f, _ = wide_compare(case, sel, {i: want[i] for i in sel}, sub, False, False)
                for x in f[:1]:
                    # F112 region: exactly "a generator gives the empty container"
                    fail(f"subset({how} {sel!r}): {x}", finding=F112 if (how == "generator" and list(sub._indices) == []) else None)
            for bad, what in (([sel[0], "no-such-id"], "an unknown identifier"), ([sel[0], sel[0]], "an identifier twice")):
                try:
                    ip.subset(bad)
                    fail(f"subset with {what} is accepted")
                except Exception as e:  # noqa
                    if err_class(env, e) != "err:input":
                        fail(f"subset with {what} raised {type(e).__name__}, documented: input error")
            if before is not None and canon_container(env, ip) != before:
                fail("subset modified the source container")
        # ---- dictionary form
        for bad in (3, None, "no-such-id"):
            try:
                ip[bad]
                fail(f"container[{bad!r}] is accepted")
            except Exception as e:  # noqa
                if err_class(env, e) != "err:input":
                    fail(f"container[{bad!r}] raised {type(e).__name__}, documented: input error")
        # ---- every conversion, on this one object, in a random order; then one more individual; then every conversion again
        extra_id = "zz-late"
        rounds = [(list(ids), dict(want))]
        late = {n: ([float(k) + 0.5 for k in range(shapes[n])] if shapes[n] is not None else 2.5) for n in names}
        rounds.append((list(ids) + [extra_id], dict(want, **{extra_id: late})))
        sub = os.path.join(tmpdir, "run.1", "v2.x")         # directories with dots in their names
        os.makedirs(sub, exist_ok=True)
        for rno, (w_ids, w) in enumerate(rounds):
            if rno == 1:
                try:
                    ip.add_individual_parameters(extra_id, copy.deepcopy(late))
                except Exception as e:  # noqa
                    fail(f"a late, well-formed addition is refused: {type(e).__name__}: {str(e)[:80]}")
                    break
            order = ["table", "csv", "csv-noext", "json", "json-kw", "torch"]
            rng.shuffle(order)
            for pth in order:
                stem = os.path.join(sub, f"w{chk.evaluations}_{rno}")
                via_table = pth in ("table", "csv", "csv-noext")
                try:
                    if pth == "table":
                        back = IP.from_dataframe(ip.to_dataframe())
                    elif pth == "csv":
                        ip.save(stem + ".file.csv")
                        back = IP.load(stem + ".file.csv")
                    elif pth == "csv-noext":
                        # documented: without extension the default one (csv) is appended
                        if os.path.exists(stem + ".csv"):
                            os.remove(stem + ".csv")
                        ip.save(stem)
                        if not os.path.exists(stem + ".csv") or os.path.exists(stem):
                            fail("save(path without extension) did not write <path>.csv")
                            continue
                        back = IP.load(stem + ".csv")
                    elif pth == "json":
                        ip.save(stem + ".json")
                        back = IP.load(stem + ".json")
                    elif pth == "json-kw":
                        kw = rng.choice([dict(indent=None), dict(sort_keys=True), dict(indent=4, sort_keys=True), dict(ensure_ascii=False),
                                         dict(separators=(",", ":"))])
                        tags["wide_json_kw"] = sorted(kw)[0]
                        ip.save(stem + ".kw.json", **kw)
                        back = IP.load(stem + ".kw.json")
                    else:
                        t_ids, d = ip.to_pytorch()
                        if list(t_ids) != w_ids:
                            fail(f"to_pytorch identifiers {list(t_ids)!r}, handed over {w_ids!r}")
                        for n, tns in d.items():
                            if tns.dtype != torch.float32 or tns.shape != (len(w_ids), shapes[n] or 1):
                                fail(f"to_pytorch[{n!r}] is {tns.dtype} {tuple(tns.shape)}, expected float32 {(len(w_ids), shapes[n] or 1)}")
                        back = IP.from_pytorch(list(t_ids), d)
                except Exception as e:  # noqa
                    fail(f"{pth} round trip of a valid container raised {type(e).__name__}: {str(e)[:100]}",
                         finding=F111 if (in_f111 and via_table) else None)
                    continue
                f, f12 = wide_compare(case, w_ids, w, back, pth == "torch", pth in ("table", "csv", "csv-noext", "torch"))
                for x in f[:2]:
                    fail(f"{pth} round trip (round {rno}): {x}", finding=F111 if (in_f111 and via_table) else None)
                for x in f12[:1]:
                    fail(f"{pth} round trip: {x}", finding=F12)
                if not f and not f12:
                    still_a_container(env, chk, cj, back, f"from the {pth} form")
            f, _ = wide_compare(case, w_ids, w, ip, False, False)
            for x in f[:1]:
                fail(f"the conversions modified the source container: {x}")
        # ---- refusals: unsupported extension on both sides, nothing written
        for bad in ("x.txt", "x.CSV", "x.json.bak"):
            q = os.path.join(sub, bad)
            try:
                ip.save(q)
                fail(f"save({bad!r}) is accepted (documented: csv or json only)")
            except Exception as e:  # noqa
                if err_class(env, e) != "err:input":
                    fail(f"save({bad!r}) raised {type(e).__name__}, documented: input error")
            if os.path.exists(q):
                fail(f"refused save({bad!r}) left a file behind")
            try:
                IP.load(q)
                fail(f"load({bad!r}) is accepted")
            except Exception as e:  # noqa
                if err_class(env, e) != "err:input":
                    fail(f"load({bad!r}) raised {type(e).__name__}, documented: input error")
        try:
            IP.load(os.path.join(sub, "noextension"))
            fail("load(path without extension) is accepted")
        except Exception as e:  # noqa
            if err_class(env, e) != "err:input":
                fail(f"load(path without extension) raised {type(e).__name__}, documented: input error")
    chk.case(("wide", json.dumps(cj, sort_keys=True)[:400]), nontrivial=True, tags=tags)


def gen_from_inputs(rng):
    n = rng.randrange(1, 5)
    ids = rng.sample(list(dict.fromkeys(IDS + rng.choice(ID_FAMILIES))), n)
    cols = {}
    for name in rng.sample(["xi", "tau", "sources", "w", "B2"], rng.randrange(1, 4)):
        width = rng.choice([1, 1, 2, 3])
        kind = rng.choice(["f64", "f64", "f32", "i64", "np64", "np32"])
        cols[name] = [kind, [[(float(rng.randrange(-2 ** 20, 2 ** 20)) / 2 ** rng.randrange(0, 12)) if kind in ("f32", "np32") else
                              (rng.randrange(-10 ** 6, 10 ** 6) if kind == "i64" else rng.gauss(0, 1) * 10.0 ** rng.randrange(-10, 11))
                              for _ in range(width)] for _ in range(n)]]
    return {"path": "wide-from", "ids": ids, "cols": {k: [v[0], [[wt(x) for x in r] for r in v[1]]] for k, v in cols.items()},
            "idcont": rng.choice(["list", "tuple", "ndarray", "index"]), "index": rng.choice(["object", "string", "named", "categorical"])}


def run_from_inputs(env, chk, case):
    """from_pytorch / from_dataframe fed with every dtype and container they accept: identifiers verbatim and in order, every number
    exactly as it was in the input (a float64 tensor is not narrowed, an int64 stays an integer value)."""
    import json
    np, pd, torch, IP = env["np"], env["pd"], env["torch"], env["IP"]
    cj = dict(case)
    ids = list(case["ids"])
    cols = {k: (v[0], [[wv(t) for t in r] for r in v[1]]) for k, v in case["cols"].items()}
    want = {i: {k: list(rows[r]) for k, (_, rows) in cols.items()} for r, i in enumerate(ids)}
    idarg = {"list": list(ids), "tuple": tuple(ids), "ndarray": np.array(ids, dtype=object), "index": pd.Index(ids, dtype=object)}[case["idcont"]]
    d = {}
    for k, (kind, rows) in cols.items():
        d[k] = {"f64": lambda: torch.tensor(rows, dtype=torch.float64), "f32": lambda: torch.tensor(rows, dtype=torch.float32),
                "i64": lambda: torch.tensor(rows, dtype=torch.int64), "np64": lambda: np.array(rows, dtype=np.float64),
                "np32": lambda: np.array(rows, dtype=np.float32)}[kind]()
    try:
        back = IP.from_pytorch(idarg, d)
        f, _ = wide_compare(case, ids, want, back, False, False)
        for x in f[:2]:
            chk.impl_failure(cj, f"from_pytorch ({case['idcont']} of identifiers): {x}")
        still_a_container(env, chk, cj, back, "by from_pytorch")
    except Exception as e:  # noqa
        chk.impl_failure(cj, f"from_pytorch refused a well-formed input: {type(e).__name__}: {str(e)[:100]}")
    # the same numbers as a table: one column per component, the dtypes of the columns as given
    data = {}
    for k, (kind, rows) in cols.items():
        dt = {"f64": np.float64, "np64": np.float64, "f32": np.float32, "np32": np.float32, "i64": np.int64}[kind]
        w = len(rows[0])
        for c in range(w):
            data[k if w == 1 else f"{k}_{c}"] = np.array([r[c] for r in rows], dtype=dt)
    index = {"object": lambda: pd.Index(ids, dtype=object), "string": lambda: pd.Index(ids, dtype="string"),
             "named": lambda: pd.Index(ids, dtype=object, name="subject"), "categorical": lambda: pd.CategoricalIndex(ids)}[case["index"]]()
    want_t = {i: {k: v for k, v in dd.items()} for i, dd in want.items()}
    try:
        back = IP.from_dataframe(pd.DataFrame(data, index=index))
        f, _ = wide_compare(case, ids, want_t, back, False, False)
        for x in f[:2]:
            chk.impl_failure(cj, f"from_dataframe ({case['index']} index): {x}")
    except Exception as e:  # noqa
        chk.impl_failure(cj, f"from_dataframe refused a well-formed table: {type(e).__name__}: {str(e)[:100]}")
    chk.case(("wide-from", json.dumps(cj, sort_keys=True)[:400]), nontrivial=True, tags={"path": "wide-from", "from_idcont": case["idcont"],
                                                                                        "from_index": case["index"]})


# ------------------------------------------------------------------ main
def execute(env, chk, cases, tmpdir):
    wide = [c for c in cases if c["path"] in ("wide", "wide-from")]
    cases = [c for c in cases if c["path"] not in ("wide", "wide-from")]
    for c in wide:
        try:
            run_wide(env, chk, c, tmpdir) if c["path"] == "wide" else run_from_inputs(env, chk, c)
        except core.Infra:
            raise
        except Exception as e:  # noqa
            chk.impl_failure(dict(c), f"unexpected {type(e).__name__} while exercising the implementation: {e}")
    if not cases:
        return
    impl = []
    for c in cases:
        try:
            r = run_direct(env, chk, c) if c["path"] in ("fromtable", "fromtorch") else run_path(env, chk, c, tmpdir)
        except core.Infra:
            raise
        except Exception as e:  # noqa  (harness-level surprise on one case: report as a property failure with the case)
            chk.impl_failure(case_json(c), f"unexpected {type(e).__name__} while exercising the implementation: {e}")
            r = f"err:other:{type(e).__name__}"
        impl.append(r)
    lines = [lean_line(c) for c in cases]
    out = chk.model(lines)
    for c, a, b in zip(cases, impl, out):
        skip = c["path"] == "csv" and c.get("dup_cols")
        if skip:
            chk.tag("csv_duplicate_column_labels_not_modelled", 1)
        elif a != b:
            chk.disagree(case_json(c), a, b, f"path {c['path']}")
        names = c.get("names", [])
        nontrivial = c["path"] in ("fromtable", "fromtorch") or len(c.get("adds", [])) > 0
        chk.case((c["path"], lean_line(c)), nontrivial=nontrivial,
                 sample=case_json(c) if (len(chk.samples) < 4 and c.get("fixed") is None and len(lean_line(c)) < 700) else None,
                 tags={"path": c["path"],
                       "n_ids": len(c.get("adds", c.get("rows", c.get("ids", [])))),
                       "has_scalar": c.get("has_scalar"), "underscore_name": any("_" in n for n in names),
                       "source_name": any("source" in n for n in names),
                       "refused_additions": (a.split(" ")[0].count(":") if a.startswith("rej=") else "n/a"),
                       "outcome": "err" if ("back=err" in a or a.startswith("err")) else "ok"})


def probes(env, chk, tmpdir):
    """Witness of each listed finding, on every run."""
    IP = env["IP"]
    ip = IP()
    ip.add_individual_parameters("a", {"log_v0": [0.5], "tau": [70.0]})
    try:
        back = IP.from_dataframe(ip.to_dataframe())
        if list(back._parameters_shape) != ["log_v0", "tau"]:
            chk.known_finding_reproduces(F11, f"parameter 'log_v0' comes back from the table as {list(back._parameters_shape)[0]!r}")
        else:
            chk.note("finding F11 no longer reproduces")
    except Exception as e:  # noqa
        chk.known_finding_reproduces(F11, f"table round trip of a name with '_' raised {type(e).__name__}")
    ip = IP()
    ip.add_individual_parameters("a", {"xi": 0.5})
    try:
        back = IP.from_pytorch(*ip.to_pytorch())
        if back._individual_parameters["a"]["xi"] == [0.5]:
            chk.known_finding_reproduces(F12, "scalar parameter {'xi': 0.5} comes back from tensors as [0.5] (shape (1,))")
        elif back._individual_parameters["a"]["xi"] == 0.5:
            chk.note("finding F12 no longer reproduces")
    except Exception as e:  # noqa
        chk.note(f"F12 probe raised {type(e).__name__}")
    ip = IP()
    ip.add_individual_parameters("a", {"ID": [1.5], "xi": [0.5]})
    try:
        p = os.path.join(tmpdir, "f111.csv")
        ip.save(p)
        back = IP.load(p)
        if back._indices == ["a"] and back._individual_parameters["a"] == {"ID": [1.5], "xi": [0.5]}:
            chk.note("finding F111 no longer reproduces")
        else:
            chk.known_finding_reproduces(F111, f"parameter named 'ID': the CSV file comes back with identifiers {back._indices} and "
                                               f"parameters {list(back._parameters_shape)}")
    except Exception as e:  # noqa
        chk.known_finding_reproduces(F111, f"parameter named 'ID': CSV round trip raised {type(e).__name__}: {str(e)[:80]}")
    ip = IP()
    ip.add_individual_parameters("a", {"tau": [1.0]})
    ip.add_individual_parameters("b", {"tau": [2.0]})
    try:
        sub = ip.subset(i for i in ["a", "b"])
        if sub._indices == ["a", "b"]:
            chk.note("finding F112 no longer reproduces")
        else:
            chk.known_finding_reproduces(F112, f"subset(generator over 'a', 'b') holds {sub._indices}")
    except Exception as e:  # noqa
        chk.note(f"F112 probe raised {type(e).__name__}")


def run(chk: core.Check):
    env = _imports()
    chk.rule = ("containers generated from a seeded grammar: 0-8 identifiers drawn from numeric-looking / quoted / unicode / "
                "NA-like strings, 1-4 parameters (names with and without '_', containing 'source'), shapes scalar / (1,) / (n,), "
                "python and numpy ints / floats (dyadic, plus decimals outside CSV), key order permuted for some individuals, "
                "seeded invalid additions (duplicate / non-string id, non-dict, unsupported scalar / element, empty list, wrong "
                "shape, missing / extra key); each container goes through one of build / table / csv-file / torch / json-file / json-file with re-ordered individuals then tensors; "
                "plus hand-made tables and tensor dicts for from_dataframe / from_pytorch. Every case is compared exactly with "
                "the Lean model; the container after the additions is also compared with the case description itself (identifiers verbatim, "
                "numbers as handed over). Values: dyadic, decimals, any double inside the float32 range; numpy arrays of every supported "
                "dtype, 0-d arrays; identifiers also drawn from families a normalisation would merge ('1' / '1.0' / '01', 'x' / ' x' / 'X', "
                "NFC / NFD, NA-like). Wide block (implementation only): nan / +-inf / 1e300 / sub-normals / beyond float32, one container "
                "object taken through a copy (deepcopy / pickle / subset of everybody), sub-selections (list / tuple / generator / dict "
                "keys, unknown and repeated identifiers), every conversion in random order, one late addition, every conversion again; "
                "files without extension / in dotted directories / with json.dump keywords; unsupported extensions; from_pytorch and "
                "from_dataframe fed with float64 / float32 / int64 tensors, numpy arrays, identifiers as list / tuple / array / Index, "
                "object / string / named / categorical index; ambient torch default dtype float64, pandas infer_string / copy-on-write. "
                "Non-trivial: at least one addition (or a direct from_* case); distinct by the full request line.")
    tmpdir = tempfile.mkdtemp(prefix="verif_C16_files_")
    try:
        cases = []
        for c in core.load_corpus(PROP):
            cases.append(c)
        cases += fixed_cases()
        rng = chk.rng
        n = 1500 if chk.tier == "thorough" else 150
        for path in ("table", "csv", "torch", "json", "build", "jsonrev"):
            for _ in range(n if path not in ("build", "jsonrev") else n // 2):
                cases.append(gen_container_case(rng, path))
        for _ in range(n):
            cases.append(gen_fromtable(rng))
            cases.append(gen_fromtorch(rng))
        for _ in range(n):
            cases.append(gen_wide(rng))
            cases.append(gen_from_inputs(rng))
        execute(env, chk, cases, tmpdir)
        probes(env, chk, tmpdir)
    finally:
        shutil.rmtree(tmpdir, ignore_errors=True)
    chk.exhaustive = False


def replay(chk: core.Check, payload):
    env = _imports()
    case = payload.get("case") or (payload.get("disagreements") or [{}])[0].get("case")
    if not case:
        chk.note("replay file has no case")
        return
    tmpdir = tempfile.mkdtemp(prefix="verif_C16_files_")
    try:
        execute(env, chk, [dict(case)], tmpdir)
    finally:
        shutil.rmtree(tmpdir, ignore_errors=True)
