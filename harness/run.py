"""Dispatcher: python -m harness.run C15 --tier quick"""
import importlib
import json
import sys
from pathlib import Path

from . import core

MODULES = {
}


def discover():
    here = Path(__file__).parent
    out = {}
    for f in sorted(here.glob("c[0-9][0-9]_*.py")):
        out[f.name[:3].upper()] = f"harness.{f.stem}"
    return out


def selftest() -> int:
    """Evidence files (if any) validate; MANIFEST validates; driver round trip."""
    import jsonschema
    ok = True
    man = json.loads((core.ROOT / "MANIFEST.json").read_text())
    try:
        jsonschema.validate(man, json.loads(Path("/root/.vp/MANIFEST.schema.json").read_text()))
    except FileNotFoundError:
        pass
    except Exception as e:  # noqa
        print("MANIFEST invalid:", e)
        ok = False
    mods = discover()
    for c in man["checks"]:
        if c["property_id"] not in mods:
            print("no harness module for", c["property_id"])
            ok = False
    print("selftest", "ok" if ok else "FAILED", "modules:", ",".join(mods))
    return 0 if ok else 2


def main():
    argv = sys.argv[1:]
    if not argv:
        print(__doc__)
        return 2
    if argv[0] == "--selftest":
        return selftest()
    prop = argv[0].upper()
    mods = discover()
    if prop not in mods:
        print(f"INFRA-ERROR unknown property {prop}")
        return 2
    module = importlib.import_module(mods[prop])
    return core.main_for(module, argv[1:])


if __name__ == "__main__":
    sys.exit(main())
