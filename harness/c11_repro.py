"""C11 — seeded runs are reproducible and independent of logging and process history.

Part A (logging): real seeded fits over a grid of console / save / plot / patient-plot periodicities x path in
{None, temp dir} (plus refused and ignored values, non-empty folders, overwrite): outcome and the actions fired at
every iteration are compared with `validate` / `iteration` of `Model/Api.lean`; final parameters are compared
bitwise with the run without logging; around every `FitOutputManager.iteration` call the three generator states
and the independent values of `model.state` are fingerprinted (hypotheses H2 / H1 of `logging_transparent`).
Part B (history): fits, the three personalisations and simulate, repeated; after consuming numbers from python
`random`, numpy and torch; after an unrelated fit in the same interpreter; compared bitwise.
Draw programs (`draws_c11.py`, `Model/Draws.lean`): every seeded run of parts A and B (except the reference runs, which stay
unrecorded so that every bitwise comparison is also a check that recording changes nothing) is recorded as a draw program — every
seeding / state read / state write / draw of python `random`, numpy and torch with its call site.  The driver decides `seededFirst`
(hence, by `seeded_prefix_irrelevant` / `draw_program_determines_result`, independence of process history) and `loggingDraws`
((H2), by `h2_of_noLoggingDraws`); the generator events of one subject must be identical across logging requests and process
histories (`same_draw_events_same_draws`), and so must the fingerprints of the three generators after seeding and at the end.
Anything else is a broken correspondence: bitwise differential runs aimed at that subject search for a concrete failing input.
"""
from __future__ import annotations

import contextlib
import itertools
import os
import pathlib
import random as pyrandom
import shutil
import tempfile
import time

from . import core
from . import api_common as A
from . import draws_c11 as D
from .core import fmt_list

PROP = "C11"
LEAN = dict(
    props="LeaspyVerif.Props.C11",
    driver="drivers/C11.lean",
    harness="c11_repro.py",
    extra_modules=["LeaspyVerif.Model.Api", "LeaspyVerif.Model.Draws", "LeaspyVerif.Lemmas.Draws"],
    theorems=["logs_validation_table", "validate_outputs", "iteration_total", "log_schedule_total",
              "iteration_total_shipped_counterexample", "iteration_total_shipped_partial", "actions_fire_iff",
              "logging_transparent", "logging_transparent_validated",
              "seeded_prefix_irrelevant", "seededFirst_iff_every_draw_after_its_seed", "seeded_prefix_irrelevant_counterexample",
              "unseeded_generator_counterexample", "entropy_and_foreign_state_counterexample", "draws_logging_transparent",
              "same_draw_events_same_draws", "draw_program_determines_result", "recorded_program_replays", "noLoggingDraws_iff",
              "h2_of_noLoggingDraws", "logging_transparent_recorded"],
    trusted_extra=[
        "the draw-program recorder harness/draws_c11.py (call-through wrappers on random.*, np.random.*, torch seeding / state functions, torch.Generator, scipy rvs; a TorchFunctionMode for torch draws): fail-closed by a continuity check (a generator that moved between two recorded events is reported as an event the analysis rejects), validated on every run by (a) bitwise equality of every recorded run with its unrecorded reference, (b) equality of generator fingerprints after seeding / at the end across histories, (c) the five seeded changes and the mutations listed in DESIGN",
        "draws made in other processes (joblib / loky workers of scipy_minimize n_jobs>1) are outside the record: covered only by the bitwise differential runs of the n_jobs=2 subject",
        "a recorded program is one path of the code: draws on paths that no recorded run takes (a logging action at an iteration number never reached) are not seen; the file system and matplotlib are runtime facts covered only by the differential runs",
        "logging_transparent assumes (H1) reads through model.state do not change the independent values (C01; observed at every logged iteration of every run); (H2) logging takes no draw is decided on every recorded run (noLoggingDraws) and additionally observed by fingerprints around every FitOutputManager.iteration call",
        "the MCMC-SAEM iteration itself is an uninterpreted `step` respecting the abstraction (C01/C03 are about that); the code as a deterministic function of the values it draws (`Draws.Code`) is an assumption of draw_program_determines_result",
    ],
    assumptions=["one interpreter, fixed PYTHONHASHSEED (set by ./check); CPU only",
                 "the only runtime fact entering validation is whether the target folder is non-empty",
                 "ambient torch default dtype: only the sampling algorithms (mcmc_saem, mean / mode posterior) document that they manage their "
                 "working precision; scipy_minimize and simulate follow the ambient precision (observed: individual parameters differ by ~1e-3 "
                 "under float64) and are not compared across it; a fit whose model is BUILT under an ambient float64 aborts (dtype mismatch)",
                 "seeds outside [0, 2^32-1] are refused by numpy's seeding (ValueError), not by leaspy: outside the domain",
                 "mixture_logistic is left out of the logged fits (its fit on the mock cohorts aborts with an unrelated dtype error)"],
)

GRID = [None, 1, 2, 3, 5]
N_ITER = 6


# ----------------------------------------------------------------------------------------- recording hooks
class Recorder:
    """call-through wrappers on FitOutputManager (restored afterwards)"""

    def __init__(self, E):
        from leaspy.algo.fit.fit_output_manager import FitOutputManager
        self.E = E
        self.FOM = FitOutputManager
        self.events = []          # (iteration, letter)
        self.h1 = []              # iterations at which independent values changed across the logging call
        self.h2 = []              # iterations at which a generator moved across the logging call
        self.calls = 0
        self._orig = {}

    def rng_digest(self):
        # the unwrapped state readers: this monitor must not show up in the recorded draw program as a state read of the code
        return D.global_fingerprints()

    def abs_digest(self, model):
        cl = A.variable_classes(model)
        names = cl["params"] + cl["hyper"] + cl["pop"] + cl["ind"] + cl["data"]
        vals = model.state._values
        return {n: A.value_digest(vals.get(n)) for n in names}

    def __enter__(self):
        FOM, rec = self.FOM, self
        self._orig = {n: getattr(FOM, n) for n in ("iteration", "print_algo_statistics", "save_model_parameters_convergence",
                                                     "save_plot_patient_reconstructions", "save_plot_convergence_model_parameters")}
        o = self._orig

        def iteration(self_, algo, model, data):
            rec.calls += 1
            rec.cur = algo.current_iteration
            r0, a0 = rec.rng_digest(), rec.abs_digest(model)
            try:
                return o["iteration"](self_, algo, model, data)
            finally:
                if rec.rng_digest() != r0:
                    rec.h2.append(rec.cur)
                if rec.abs_digest(model) != a0:
                    rec.h1.append(rec.cur)

        def wrap(name, letter):
            def f(self_, *a, **k):
                rec.events.append((rec.cur, letter))
                return o[name](self_, *a, **k)
            return f
        FOM.iteration = iteration
        FOM.print_algo_statistics = wrap("print_algo_statistics", "P")
        FOM.save_model_parameters_convergence = wrap("save_model_parameters_convergence", "S")
        FOM.save_plot_patient_reconstructions = wrap("save_plot_patient_reconstructions", "T")
        FOM.save_plot_convergence_model_parameters = wrap("save_plot_convergence_model_parameters", "C")
        return self

    def __exit__(self, *exc):
        for n, f in self._orig.items():
            setattr(self.FOM, n, f)
        return False


def params_digest(model):
    return A.obj_digest({k: A.value_digest(v) for k, v in model.parameters.items()})


def full_digest(model):
    """parameters + every independent value left in the state (individual latent values included)"""
    cl = A.variable_classes(model)
    vals = model.state._values
    return A.obj_digest({n: A.value_digest(vals.get(n)) for n in cl["params"] + cl["pop"] + cl["ind"]})


# ----------------------------------------------------------------------------------------- recorded draw programs
class DrawBook:
    """the draw programs recorded during this check run: (subject, variant, case, recorder, targeted search)"""

    def __init__(self):
        self.runs = []

    def add(self, subject, variant, case, rec, search=None):
        self.runs.append(dict(subject=subject, variant=variant, case=case, rec=rec, search=search))


def parse_draws_answer(ans):
    d = {}
    for tok in ans.split(" "):
        if "=" in tok:
            k, v = tok.split("=", 1)
            d[k] = v
    return d


def check_draw_programs(chk, book):
    """One driver line per recorded run.  Required: seededfirst=1, loggingdraws=0; per subject: identical generator events
    (python side: the event lists; model side: `sig`), identical generator fingerprints after seeding and at the end."""
    if not book.runs:
        return
    out = chk.model([f"draws prog={r['rec'].program()}" for r in book.runs])
    ref = {}
    stats = {"recorded_runs": len(book.runs), "events": 0, "by_kind": {}, "sites": {}, "subjects": {}, "rejected": {}}
    searched = set()
    for r, ans in zip(book.runs, out):
        rec = r["rec"]
        a = parse_draws_answer(ans)
        stats["events"] += len(rec.events)
        for k, v in rec.counts().items():
            stats["by_kind"][k] = stats["by_kind"].get(k, 0) + v
        for e in rec.events:
            if e.op != "n":
                k = f"{e.site[0]}:{e.site[1]} [{e.cls}] {e.why or ''}".strip()
                stats["sites"][k] = stats["sites"].get(k, 0) + 1
        stats["subjects"][r["subject"]] = stats["subjects"].get(r["subject"], 0) + 1
        chk.tag("draw_program_gens", a.get("gens", "?"))
        problems = []
        if "seededfirst" not in a:
            problems.append(f"the driver did not analyse the program: {ans[:80]}")
        else:
            if a["seededfirst"] != "1":
                fb = a.get("firstbad", "?")
                i = int(fb.split(":")[0]) if fb.split(":")[0].isdigit() else -1
                problems.append(f"not seeded-first: event {fb} = {rec.describe(i)}")
            if a["loggingdraws"] != "0":
                j = next((k for k, e in enumerate(rec.events) if e.cls == "l" and e.op in "sedpu"), -1)
                problems.append(f"{a['loggingdraws']} generator-moving event(s) inside logging code, first: {rec.describe(j)}")
        if r.get("must_be_empty") and rec.signature():
            problems.append(f"{len(rec.signature())} generator event(s) where only logging markers may occur, first: "
                            + next(e.describe() for e in rec.events if e.op != "n"))
        r0 = ref.setdefault(r["subject"], (r, a))
        if r0[0] is not r:
            rec0, a0 = r0[0]["rec"], r0[1]
            same_py = rec.signature() == rec0.signature()
            same_model = a.get("sig") == a0.get("sig")
            if same_py != same_model:
                chk.disagree({**r["case"], "draw_program": rec.program()[:2000]}, f"same-events={int(same_py)}", f"same-sig={int(same_model)}",
                             "equality of the generator events of two recorded runs (harness) vs equality of the model's digests")
            if not same_py:
                i = D.first_difference(rec.signature(), rec0.signature())
                ev = [e for e in rec.events if e.op != "n"]
                ev0 = [e for e in rec0.events if e.op != "n"]
                here = ev[i].describe() if i is not None and i < len(ev) else "<end of program>"
                there = ev0[i].describe() if i is not None and i < len(ev0) else "<end of program>"
                problems.append(f"generator events differ from those of the same subject under '{r0[0]['variant']}' at event {i}: {here} / there: {there}")
            # (a generator that no event of either run touches is simply where the process left it: not compared)
            touched = {e.g for e in rec.events if e.g is not None} | {e.g for e in rec0.events if e.g is not None}
            which = [D.GEN_NAMES[g] for g in range(3) if g in touched and rec.fp_start[g] != rec0.fp_start[g]]
            if which:
                problems.append(f"generator state after seeding differs from the run under '{r0[0]['variant']}': {which}")
            which = [D.GEN_NAMES[g] for g in range(3) if g in touched and rec.fp_end[g] != rec0.fp_end[g]]
            if which:
                problems.append(f"generator state at the end of the run differs from the run under '{r0[0]['variant']}': {which}")
        if not problems:
            continue
        cj = {**r["case"], "draw_program": rec.program()[:3000]}
        what = f"draw program of '{r['subject']}' [{r['variant']}]: " + "; ".join(problems)
        if r["subject"] not in stats["rejected"] and len(stats["rejected"]) < 20:
            stats["rejected"][r["subject"]] = what[:500]
        chk.extra_cov["draw_programs"] = stats
        found = None
        key = (r["subject"], tuple(sorted(p.split(":")[0] for p in problems)))
        if key in searched:
            continue          # the same defect of the same subject is reported once
        searched.add(key)
        if r["search"] is not None and len(searched) <= 6:
            try:
                found = r["search"](a, rec)
            except Exception as e:  # noqa
                chk.note(f"targeted search for '{r['subject']}' raised {type(e).__name__}: {str(e)[:80]}")
        if found is not None:
            chk.impl_failure({**found[0], "draw_program_analysis": what[:600]}, found[1] + " — found by a search aimed at: " + what[:400])
        else:
            chk.disagree(cj, ans + f" fp_start={rec.fp_start} fp_end={rec.fp_end}",
                         "seededfirst=1 loggingdraws=0, same generator events and generator fingerprints as the other runs of the subject", what)
    stats["sites"] = dict(sorted(stats["sites"].items(), key=lambda kv: -kv[1])[:40])
    chk.extra_cov["draw_programs"] = stats


# ----------------------------------------------------------------------------------------- variants of the logged fit
# A logging case may carry "v": a dictionary of departures from the one subject the grid was built on (logistic, 3 features, one
# source, `Data`, keyword entry point, default samplers).  Absent keys = that subject.
#   kind      model kind / cohort (VARIANT_KINDS)
#   sw        plot_sourcewise=True                      nbp   nb_of_patients_to_plot (0, 1, more than the cohort)
#   pk        how the path is given: "str" (absolute), "Path" (pathlib), "rel" (relative to the working directory)
#   entry     "kwargs" | "settings2" (one AlgorithmSettings object + set_logs, used for two fits in a row) |
#             "factory2" (one algorithm object from algorithm_factory, run on two fresh models)
#   sampler   population sampler ("FastGibbs", "Metropolis-Hastings")          anneal   annealing on
#   ro        random_order_variables=False              pb    progress_bar=True
#   miss      a quarter of the observations missing     data  container handed to fit: "Data" | "df" | "Dataset" (one Dataset object
#             shared by the logged fit and by a fit without logging that follows it)
VARIANT_KINDS = {
    "logistic31": ("logistic", "multi", dict(dimension=3, source_dimension=1)),
    "logistic32": ("logistic", "multi", dict(dimension=3, source_dimension=2)),
    "logistic21": ("logistic", "multi2", dict(dimension=2, source_dimension=1)),      # smallest multivariate shape: betas is 1 x 1
    "nosrc": ("logistic", "multi", dict(dimension=3, source_dimension=0)),
    "linear": ("linear", "multi", dict(dimension=3, source_dimension=1)),
    "shared": ("shared_speed_logistic", "multi", dict(dimension=3, source_dimension=1)),
    "uni": ("logistic", "uni", dict(dimension=1)),
    "joint": ("joint", "joint", dict(dimension=4, source_dimension=1)),
}
_COHORTS = {}


def variant_cohort(E, v):
    """(dataframe, Data) of the variant's cohort; with `miss`, a fixed quarter of the cells is removed (visits left empty dropped)"""
    which = VARIANT_KINDS[v.get("kind", "logistic31")][1]
    key = (which, bool(v.get("miss")))
    if key not in _COHORTS:
        if which == "multi2":
            full, _ = A.cohort("multi")
            df = full[list(full.columns[:2])].copy()
            data = E.Data.from_dataframe(df)
        else:
            df, data = A.cohort(which, n_ind=6 if which == "joint" else None)
        if v.get("miss"):
            gen = E.np.random.RandomState(20240911)          # a generator object of its own: the global ones are not touched
            cols = A.feature_columns(df)
            hole = gen.rand(len(df), len(cols)) < 0.25
            df = df.copy()
            df[cols] = df[cols].mask(hole)
            df = df[~df[cols].isna().all(axis=1)]
            data = E.Data.from_dataframe(df, data_type="joint") if which == "joint" else E.Data.from_dataframe(df)
        _COHORTS[key] = (df, data)
    return _COHORTS[key]


def result_key(v):
    """the part of a variant that may legitimately change the fitted values (everything else is logging / plumbing)"""
    return tuple((k, v[k]) for k in ("kind", "sampler", "anneal", "ro", "miss") if v.get(k))


def algo_kwargs(c):
    v = c.get("v") or {}
    kw = dict(n_iter=n_of(c), n_burn_in_iter=2, seed=3, progress_bar=bool(v.get("pb")), **sampler_kwargs(c.get("win")))
    if v.get("sampler"):
        kw["sampler_pop"] = v["sampler"]
    if v.get("anneal"):
        # (a new temperature at every iteration of the short fit, none of them a round number: 8.37 -> 6.896 -> … -> 1)
        kw["annealing"] = dict(do_annealing=True, n_plateau=n_of(c), initial_temperature=8.37, n_iter_frac=1.0)
    if v.get("ro"):
        kw["random_order_variables"] = False
    return kw


def new_model(E, v):
    kind, _, hyp = VARIANT_KINDS[(v or {}).get("kind", "logistic31")]
    return E.model_factory(kind, **hyp)


def fit_variant(E, c, log_kw, data, shared=None):
    """The fit(s) of one case through the entry point of its variant; returns the list of fitted models (one, or two for the
    entry points that use one settings / algorithm object twice).  `data`: the default Data object of the grid, replaced by the
    variant's cohort / container when a variant is present.  `shared`: dictionary holding the Dataset object a case shares."""
    v = c.get("v") or {}
    kw = algo_kwargs(c)
    if v:
        df, data = variant_cohort(E, v)
        if v.get("data") == "df":
            data = df.copy()
        elif v.get("data") == "Dataset":
            from leaspy.io.data import Dataset
            if shared is not None and "dataset" in shared:
                data = shared["dataset"]
            else:
                data = Dataset(data)
                if shared is not None:
                    shared["dataset"] = data
    entry = v.get("entry", "kwargs")
    if entry == "kwargs":
        m = new_model(E, v)
        m.fit(data, "mcmc_saem", **kw, **log_kw)
        return [m]
    from leaspy.algo import AlgorithmSettings, algorithm_factory
    st = AlgorithmSettings("mcmc_saem", **kw)
    if log_kw:
        st.set_logs(**log_kw)
    out = []
    if entry == "settings2":
        for _ in range(2):
            m = new_model(E, v)
            m.fit(data, algorithm_settings=st)
            out.append(m)
        return out
    if entry == "factory2":
        from leaspy.io.data import Dataset
        algo = algorithm_factory(st)
        ds = data if isinstance(data, Dataset) else Dataset(E.Data.from_dataframe(data) if isinstance(data, E.pd.DataFrame) else data)
        for _ in range(2):
            m = new_model(E, v)
            m.initialize(ds)
            algo.run(m, ds)
            out.append(m)
        return out
    raise ValueError(entry)


# ----------------------------------------------------------------------------------------- part A
def log_case_json(c):
    return {"part": "logging", **c}


def log_kwargs(c, work):
    kw = {}
    for k, name in (("print", "print_periodicity"), ("save", "save_periodicity"), ("plot", "plot_periodicity"),
                    ("pp", "plot_patient_periodicity")):
        if c[k] is not None or c.get("explicit_none"):
            kw[name] = c[k]
    v = c.get("v") or {}
    if c["path"]:
        p = os.path.join(work, "logs")
        # (the working directory is `work`: a relative path designates the same folder)
        kw["path"] = {"str": p, "Path": pathlib.Path(p), "rel": "logs"}[v.get("pk", "str")]
        if c["dne"]:
            os.makedirs(os.path.join(p, "plots"), exist_ok=True)
            open(os.path.join(p, "plots", "old.txt"), "w").write("x")
    if c["ow"]:
        kw["overwrite_logs_folder"] = True
    if v.get("sw"):
        kw["plot_sourcewise"] = True
    if v.get("nbp") is not None:
        kw["nb_of_patients_to_plot"] = v["nbp"]
    return kw


def sampler_kwargs(win):
    """settings under which the adaptation of the samplers' proposal scales fires every `win` iterations (default window: 25, i.e.
    never inside a short fit): what a logging action reads between two adaptations must not be what the next adaptation uses"""
    if not win:
        return {}
    common = {"acceptation_history_length": int(win), "mean_acceptation_rate_target_bounds": [0.2, 0.4], "adaptive_std_factor": 0.1}
    return {"sampler_ind_params": dict(common), "sampler_pop_params": {"random_order_dimension": True, **common}}


def plain_fit_digest(E, data, c, n, tmp, win=None, like=None):
    """unrecorded seeded fit with logging request c (None = no logging), n iterations: digest or None when it raises.
    `like`: the case whose variant (model kind, samplers, cohort ...) the fit takes when c is None"""
    work = tempfile.mkdtemp(prefix="srch_", dir=tmp)
    cwd = os.getcwd()
    os.chdir(work)
    try:
        src = c if c else (like or {})
        cc = dict(path=False, print=None, save=None, plot=None, pp=None, ow=False, dne=False, n=n, win=win)
        if src.get("v"):
            cc["v"] = {k: src["v"][k] for k in ("kind", "sampler", "anneal", "ro", "miss") if src["v"].get(k)} if not c else dict(src["v"])
        if c:
            cc.update({k: c[k] for k in CASE_KEYS})
        try:
            with core.quiet():
                ms = fit_variant(E, cc, log_kwargs(cc, work) if c else {}, data)
        except Exception:  # noqa
            return None
        return (params_digest(ms[0]), full_digest(ms[0]))
    finally:
        os.chdir(cwd)
        shutil.rmtree(work, ignore_errors=True)


def logging_search(E, data, c, tmp):
    """bitwise differential runs aimed at ONE logging request: longer fits (what a logging action draws at the last iteration
    only shows in the next one)"""
    def search(answer, rec):
        for n in (N_ITER + 1, 2 * N_ITER + 3, 3 * N_ITER + 4):
            base = plain_fit_digest(E, data, None, n, tmp, c.get("win"), like=c)
            got = plain_fit_digest(E, data, c, n, tmp, c.get("win"))
            if base is not None and got is not None and got != base:
                return ({**log_case_json(c), "n": n},
                        f"fit of {n} iterations: final parameters / latent values differ bitwise from the run without logging")
        return None
    return search


def n_of(c):
    return c.get("n") or N_ITER


def f100_region(c, err, fired_plot):
    """F100: joint model, a convergence plot requested (with its save) and not source-wise: the first plot aborts the fit with a
    TypeError raised while the title of the `zeta` panel is built"""
    v = c.get("v") or {}
    return (v.get("kind") == "joint" and not v.get("sw") and isinstance(err, TypeError) and "NoneType" in str(err) and fired_plot)


def run_logging_case(chk, E, c, data, baselines, tmp, book=None):
    """c: dict(path, print, save, plot, pp, ow, dne[, n, win, v]). Returns the implementation's canonical answer
    (None: the run stopped inside the region of a listed finding, nothing to compare with the model)."""
    work = tempfile.mkdtemp(prefix="run_", dir=tmp)
    cwd = os.getcwd()
    os.chdir(work)            # a save periodicity without path writes to ./_outputs
    n_iter = n_of(c)
    win = c.get("win")
    v = c.get("v") or {}
    baseline = baselines(n_iter, win, v)
    shared = {}
    try:
        kw = log_kwargs(c, work)
        ms = []
        with Recorder(E) as rec, D.DrawRecorder(3) as dr:
            try:
                with core.quiet():
                    if v.get("entry") in ("settings2", "factory2"):
                        # (one object used twice: the second use follows below, outside the recorders)
                        ms = first_use(E, c, kw, data, shared)
                    else:
                        ms = fit_variant(E, c, kw, data, shared)
                err = None
            except Exception as e:  # noqa
                err = e
        m = ms[0] if ms else None
        cj = log_case_json(c)
        subject = f"fit logistic (logging grid) n_iter={n_iter} window={win or 25}" + (f" {dict(result_key(v))}" if result_key(v) else "")
        if err is None and book is not None:
            book.add(subject, "logging " + " ".join(f"{k}={c[k]}" for k in ("path", "print", "save", "plot", "pp"))
                     + (f" {v}" if v else ""), cj, dr, logging_search(E, data, c, tmp))
        # ---- the property's own predicate -------------------------------------------------------------
        def eff(v_):
            return v_ if (isinstance(v_, int) and v_ >= 1) else None
        pl, sv = eff(c["plot"]), eff(c["save"])
        all_default = (not c["path"] and all(c[k] is None for k in ("print", "save", "plot", "pp")) and not c["ow"]
                       and not v.get("sw") and v.get("nbp") in (None, 5))
        documented_refusal = (not all_default) and ((pl is not None and (sv is None or pl % sv != 0))
                                                    or (c["path"] and c["dne"] and not c["ow"]))
        if err is not None:
            ec = A.err_class(err)
            if documented_refusal and ec == "err:algo" and rec.calls == 0:
                ans = "err:algo"
            else:
                no_root = not c["path"] and sv is None
                fid = "F6" if (isinstance(err, AttributeError) and "path_output" in str(err) and no_root) else None
                if f100_region(c, err, any(l == "C" for _, l in rec.events)):
                    fid = "F100"
                chk.impl_failure(cj, f"logging options aborted the fit at iteration {getattr(rec, 'cur', 0)}: {type(err).__name__}: {str(err)[:100]}",
                                 finding=fid)
                ans = f"err:attribute@{getattr(rec, 'cur', 0)}" if isinstance(err, AttributeError) else ec
                if fid == "F100":
                    ans = None
            return ans
        if documented_refusal:
            chk.impl_failure(cj, "a logging configuration the documentation refuses (plot without / not a multiple of save, or non-empty folder) was accepted")
        if params_digest(m) != baseline["params"] or full_digest(m) != baseline["full"]:
            chk.impl_failure(cj, "final parameters / latent values differ bitwise from the run without logging")
        if rec.h2:
            chk.impl_failure(cj, f"a random generator moved during logging at iterations {rec.h2[:5]}")
        if rec.h1:
            chk.impl_failure(cj, f"independent values of model.state changed during logging at iterations {rec.h1[:5]}")
        acts = []
        for k in range(1, n_iter + 1):
            s = "".join(l for (it, l) in rec.events if it == k)
            acts.append(s or "_")
        # root folder exists?
        root = os.path.isdir(os.path.join(work, "logs")) if c["path"] else os.path.isdir(os.path.join(work, "_outputs"))
        # what was announced must have been produced (file-system side, runtime fact)
        if root:
            base = os.path.join(work, "logs" if c["path"] else "_outputs")
            n_s = sum("S" in a for a in acts)
            csvs = [f for f in os.listdir(os.path.join(base, "parameter_convergence")) if f.endswith(".csv")]
            tracked = bool(getattr(m, "tracked_variables", True))      # (a model that tracks no variable has nothing to save)
            if n_s and not csvs and tracked:
                chk.impl_failure(cj, "save actions fired but no csv file exists")
            for f in csvs[:3]:
                if f.startswith("sourcewise_"):
                    continue                                        # (rewritten by each source-wise convergence plot)
                rows = open(os.path.join(base, "parameter_convergence", f)).read().strip().splitlines()
                if len(rows) != n_s:
                    chk.impl_failure(cj, f"{f}: {len(rows)} rows for {n_s} save actions")
                    break
            if any("C" in a for a in acts) and csvs and not os.path.exists(os.path.join(base, "plots", "convergence_parameters.pdf")):
                chk.impl_failure(cj, "convergence plot action fired but no pdf exists")
            n_t = sum("T" in a for a in acts)
            pdir = os.path.join(base, "plots", "patients")
            n_p = len([f for f in os.listdir(pdir) if f.startswith("plot_patients_")]) if os.path.isdir(pdir) else 0
            if n_p != n_t:
                chk.impl_failure(cj, f"{n_t} patient-plot actions fired, {n_p} files written")
        # ---- second use of the same settings / algorithm / Dataset object (outside the recorders) ------------------------
        if v.get("entry") in ("settings2", "factory2") or v.get("data") == "Dataset":
            try:
                with core.quiet():
                    again = second_use(E, c, kw, data, shared)
            except Exception as e:  # noqa
                # F102: the second fit appends to the csv files of the first one (the non-empty-folder check is made once, by
                # set_logs); repeated iteration numbers abort the source-wise convergence plot
                fid = "F102" if (v.get("entry") in ("settings2", "factory2") and v.get("sw") and pl is not None and root
                                 and isinstance(e, ValueError) and "duplicate labels" in str(e)) else None
                chk.impl_failure(cj, f"second use of the same object raised {type(e).__name__}: {str(e)[:100]}", finding=fid)
                again = None
            if again is not None and (params_digest(again) != baseline["params"] or full_digest(again) != baseline["full"]):
                what = {"settings2": "a second fit with the same AlgorithmSettings object (logging on)",
                        "factory2": "a second run of the same algorithm object (logging on) on a fresh model"}.get(
                    v.get("entry"), "a fit without logging on the Dataset object the logged fit had used")
                chk.impl_failure(cj, f"{what} differs bitwise from the run without logging")
        mgr = int(rec.calls > 0)
        return f"ok mgr={mgr} root={int(root)} acts={fmt_list(acts, sep=';')}"
    finally:
        os.chdir(cwd)
        shutil.rmtree(work, ignore_errors=True)


def first_use(E, c, kw, data, shared):
    """settings2 / factory2: the settings (and algorithm) object is built and used once; kept in `shared` for the second use"""
    from leaspy.algo import AlgorithmSettings, algorithm_factory
    from leaspy.io.data import Dataset
    v = c["v"]
    _, dat = variant_cohort(E, v)
    st = AlgorithmSettings("mcmc_saem", **algo_kwargs(c))
    if kw:
        st.set_logs(**kw)
    shared["settings"] = st
    m = new_model(E, v)
    if v["entry"] == "settings2":
        shared["input"] = dat
        m.fit(dat, algorithm_settings=st)
    else:
        shared["algo"] = algorithm_factory(st)
        shared["input"] = Dataset(dat)
        m.initialize(shared["input"])
        shared["algo"].run(m, shared["input"])
    return [m]


def second_use(E, c, kw, data, shared):
    v = c["v"]
    m = new_model(E, v)
    if v.get("entry") == "settings2":
        m.fit(shared["input"], algorithm_settings=shared["settings"])
    elif v.get("entry") == "factory2":
        m.initialize(shared["input"])
        shared["algo"].run(m, shared["input"])
    else:
        m.fit(shared["dataset"], "mcmc_saem", **algo_kwargs(dict(c, v={k: x for k, x in v.items() if k != "pb"})))
    return m


def lean_line(c):
    def f(v):
        return "none" if v is None else str(v)
    v = c.get("v") or {}
    other = int(bool(v.get("sw")) or v.get("nbp") not in (None, 5))      # plot_sourcewise / nb_of_patients_to_plot away from their defaults
    return (f"log path={int(c['path'])} print={f(c['print'])} save={f(c['save'])} plot={f(c['plot'])} pp={f(c['pp'])} "
            f"ow={int(c['ow'])} other={other} dne={int(c['dne'])} n={n_of(c)}")


def logging_cases(chk):
    rng = chk.rng
    full = [dict(path=p, print=a, save=b, plot=c_, pp=d, ow=False, dne=False)
            for p in (False, True) for a, b, c_, d in itertools.product(GRID, repeat=4)]

    def plots(c):   # number of convergence plots (expensive)
        if c["plot"] is None or c["save"] is None or c["plot"] % c["save"] != 0:
            return 0
        return N_ITER // c["plot"]
    extra = [
        dict(path=False, print=5, save=None, plot=None, pp=None, ow=False, dne=False),       # F6 witness
        dict(path=False, print=0, save=None, plot=None, pp=None, ow=False, dne=False),       # ignored value, manager without root
        dict(path=False, print=None, save=None, plot=None, pp=2, ow=False, dne=False),
        dict(path=False, print=None, save=-1, plot=None, pp=None, ow=False, dne=False),
        dict(path=True, print=0, save=-3, plot=None, pp=0, ow=False, dne=False),
        dict(path=True, print=1, save=2, plot=None, pp=None, ow=False, dne=True),            # non-empty folder refused
        dict(path=True, print=1, save=2, plot=None, pp=None, ow=True, dne=True),             # … unless overwrite
        dict(path=True, print=None, save=None, plot=None, pp=None, ow=True, dne=False),
        dict(path=False, print=None, save=2, plot=4, pp=None, ow=False, dne=False),          # default folder + plot
        dict(path=True, print=None, save=None, plot=0, pp=None, ow=False, dne=False),        # plot ignored → no save needed
        dict(path=False, print=None, save=None, plot=None, pp=None, ow=False, dne=False),
        # every logging action at every iteration of a longer fit, and every action at iteration 7 only: the recorded draw
        # programs then contain each action at iteration numbers the 6-iteration grid never reaches
        # (quick tier: the convergence plot — one second each — at every second iteration; iteration 7 is in the next case)
        dict(path=True, print=1, save=1, plot=1 if chk.tier == "thorough" else 2, pp=1, ow=False, dne=False, n=8),
        dict(path=True, print=7, save=7, plot=7, pp=7, ow=False, dne=False, n=8),
        # console logging across an adaptation window of the samplers (every 25 iterations): what printing reads must not be
        # what the next adaptation uses
        dict(path=True, print=5, save=None, plot=None, pp=None, ow=False, dne=False, n=27),
        # … and the same inside the short fits: adaptation every 2 / 3 iterations (the baseline uses the very same settings)
        dict(path=True, print=1, save=None, plot=None, pp=None, ow=False, dne=False, win=3),
        dict(path=True, print=2, save=1, plot=None, pp=1, ow=False, dne=False, win=3),
        dict(path=True, print=1, save=1, plot=2, pp=2, ow=False, dne=False, win=2),
    ]
    if chk.tier == "quick":
        cheap = [c for c in full if plots(c) == 0]
        costly = [c for c in full if plots(c) > 0]
        # (14 + 2 since the variants below take their share of the quick budget; the thorough tier samples 380)
        sel = rng.sample(cheap, 14) + rng.sample(costly, 2)
        sel = [dict(c, win=3) if i % 3 == 0 else c for i, c in enumerate(sel)]
    else:
        cheap = [c for c in full if plots(c) == 0]
        costly = [c for c in full if plots(c) > 0]
        sel = rng.sample(cheap, 330) + rng.sample(costly, 50)
        sel = [dict(c, win=(2 if i % 6 == 0 else 3)) if i % 3 == 0 else c for i, c in enumerate(sel)]
    return extra + sel


def variant_cases(chk):
    """logged fits away from the subject of the grid: other model kinds (the convergence plots have model-specific branches),
    source-wise plots, number of patients plotted, path given as pathlib.Path / relative, other entry points and containers,
    other samplers / annealing under logging, missing observations under the patient plots"""
    rng = chk.rng

    def mk(path=True, pr=None, sv=None, pl=None, pp=None, n=None, win=None, **v):
        c = dict(path=path, print=pr, save=sv, plot=pl, pp=pp, ow=False, dne=False)
        if n:
            c["n"] = n
        if win:
            c["win"] = win
        c["v"] = {k: x for k, x in v.items() if x not in (None, False)}
        return c
    must = [
        mk(pr=3, sv=3, pl=6, kind="joint"),                                  # convergence plot of the joint model (F100)
        mk(pr=1, sv=2, pl=6, kind="logistic32", sw=True, pk="Path", anneal=True),   # source-wise mixing matrix, two sources; annealed
        mk(pr=1, pp=2, miss=True, data="Dataset", nbp=3),                    # patient plots (3 of 5) over missing observations; Dataset reused
        mk(pr=1, sv=2, win=3, sampler="FastGibbs", ro=True),
        mk(pr=1, sv=2, win=3, sampler="Metropolis-Hastings", pb=True),
        mk(pr=2, sv=2, entry="settings2", pk="rel"),
    ]
    pool = [
        mk(sv=3, pl=6, pp=6, kind="joint", sw=True),                         # joint model, source-wise (zeta)
        mk(pr=2, sv=2, pp=3, kind="joint"),
        mk(pr=1, sv=1, pp=3, kind="uni", nbp=50, pk="rel"),
        mk(pp=3, nbp=0),
        mk(pr=2, sv=1, pp=3, kind="logistic21", pk="Path"),                  # every tracked 1 x 1 variable goes through the csv writer
        mk(path=False, nbp=2, sampler="FastGibbs"),                          # nothing but another number of patients: a manager without folder
        mk(pp=2, nbp=1, data="df"),
        mk(pr=1, sv=1, anneal=True, pb=True, pk="Path"),
        mk(pr=1, sv=3, pp=3, entry="factory2", win=3),
        mk(pr=2, sv=1, pp=2, kind="shared"),
        mk(pr=2, sv=2, pp=4, kind="linear", ro=True),
        mk(path=False, sv=2, pl=6, kind="nosrc", sw=True),
        mk(pr=1, sv=1, pp=1, kind="joint", miss=True, nbp=2, win=2),
        mk(pr=3, sv=3, kind="logistic32", sampler="FastGibbs", anneal=True, win=2, entry="settings2"),
        mk(sv=1, pl=3, pp=3, kind="uni", sw=True, data="Dataset"),
        mk(pr=1, pp=1, kind="linear", miss=True, data="Dataset", nbp=1),
    ]
    if chk.tier == "quick":
        return must + rng.sample(pool, 1)
    extra = []
    kinds = list(VARIANT_KINDS)
    for _ in range(14):
        kind = rng.choice(kinds)
        sv = rng.choice([None, 1, 2, 3])
        pl = rng.choice([None, None, 1, 2, 3]) if sv else None
        if pl is not None:
            pl = sv * max(1, pl // sv) if pl % sv else pl
        c = mk(path=rng.random() < 0.8, pr=rng.choice([None, 1, 2, 5]), sv=sv, pl=pl, pp=rng.choice([None, 1, 2, 3]),
               win=rng.choice([None, 2, 3]), kind=kind, sw=rng.random() < 0.4, nbp=rng.choice([None, 0, 1, 3, 50]),
               pk=rng.choice(["str", "Path", "rel"]), entry=rng.choice(["kwargs", "kwargs", "settings2", "factory2"]),
               sampler=rng.choice([None, "FastGibbs", "Metropolis-Hastings"]), anneal=rng.random() < 0.3, ro=rng.random() < 0.2,
               pb=rng.random() < 0.2, miss=kind != "joint" and rng.random() < 0.4,
               data=rng.choice(["Data", "Dataset"] if kind == "joint" else ["Data", "df", "Dataset"]))
        if c["v"].get("entry") in ("settings2", "factory2"):
            c["v"].pop("data", None)
        extra.append(c)
    return must + pool + extra


def make_baselines(chk, E, data, tmp, book=None):
    """reference fits without logging, one per (number of iterations, adaptation window, result-relevant part of the variant):
    first unrecorded (the digests every logging case is compared with), then once more with the draw recorder on (its program is
    the reference of the subject; same digests required).  Always through the keyword entry point, on a `Data` object."""
    cache = {}

    def get(n, win=None, v=None):
        rk = result_key(v or {})
        key = (n, win, rk)
        if key in cache:
            return cache[key]
        work = tempfile.mkdtemp(prefix="base_", dir=tmp)
        cwd = os.getcwd()
        os.chdir(work)
        try:
            cc = dict(path=False, print=None, save=None, plot=None, pp=None, ow=False, dne=False, n=n, win=win)
            if rk:
                cc["v"] = dict(rk)
            with core.quiet():
                m = fit_variant(E, cc, {}, data)[0]
            cache[key] = {"params": params_digest(m), "full": full_digest(m)}
            with D.DrawRecorder(3) as dr:
                with core.quiet():
                    m2 = fit_variant(E, cc, {}, data)[0]
            cj = {"part": "logging", "path": False, "print": None, "save": None, "plot": None, "pp": None, "ow": False, "dne": False, "n": n}
            if win:
                cj["win"] = win
            if rk:
                cj["v"] = dict(rk)
            if params_digest(m2) != cache[key]["params"] or full_digest(m2) != cache[key]["full"]:
                chk.impl_failure(cj, "the same seeded fit without logging, repeated (this time with the draw recorder on), differs bitwise from the first run")
            if book is not None:
                book.add(f"fit logistic (logging grid) n_iter={n} window={win or 25}" + (f" {dict(rk)}" if rk else ""), "no logging", cj, dr, None)
        finally:
            os.chdir(cwd)
            shutil.rmtree(work, ignore_errors=True)
        return cache[key]
    return get


CASE_KEYS = ("path", "print", "save", "plot", "pp", "ow", "dne")


def clean_case(c):
    d = {k: c[k] for k in CASE_KEYS}
    if c.get("n"):
        d["n"] = c["n"]
    if c.get("win"):
        d["win"] = c["win"]
    if c.get("v"):
        d["v"] = {k: x for k, x in c["v"].items() if x not in (None, False)}
    return d


def part_a(chk, E, tmp, book=None):
    _, data = A.cohort("multi")
    baselines = make_baselines(chk, E, data, tmp, book)
    baselines(N_ITER)
    cases = [c["case"] for c in core.load_corpus(PROP) if c.get("case", {}).get("part") == "logging"]
    cases = [clean_case(c) for c in cases] + logging_cases(chk) + [clean_case(c) for c in variant_cases(chk)]
    answers = []
    for c in cases:
        ans = run_logging_case(chk, E, c, data, baselines, tmp, book)
        answers.append(ans)
        nontriv = c["path"] or any(c[k] is not None for k in ("print", "save", "plot", "pp"))
        chk.case(("log", tuple(sorted(c.items()))), nontrivial=nontriv,
                 sample=log_case_json(c) if len(chk.samples) < 3 and c["plot"] else None,
                 tags={"part": "logging", "outcome": (ans or "known-finding").split(" ")[0].split("@")[0], "path": c["path"],
                       "has_plot": c["plot"] is not None, "adaptation_window": c.get("win") or 25})
        for k, x in (c.get("v") or {}).items():
            chk.tag("logging_variant", f"{k}={x}")
    out = chk.model([lean_line(c) for c in cases])
    for c, a, b in zip(cases, answers, out):
        if a is not None and a != b:
            chk.disagree(log_case_json(c), a, b, "logging outcome / actions fired per iteration")


# ----------------------------------------------------------------------------------------- part B
def consume(E, how, rng):
    torch, np = E.torch, E.np
    if how == "python":
        for _ in range(rng.randrange(1, 50)):
            pyrandom.random()
        pyrandom.shuffle(list(range(10)))
    elif how == "numpy":
        np.random.rand(rng.randrange(1, 50))
        np.random.normal(size=3)
    elif how == "torch":
        torch.rand(rng.randrange(1, 50))
        torch.randn(7)
    elif how == "all":
        for h in ("python", "numpy", "torch"):
            consume(E, h, rng)
    elif how == "reseed":
        pyrandom.seed(12345)
        np.random.seed(999)
        torch.manual_seed(4242)


def unrelated_fit(E, rng):
    _, data = A.cohort("uni")
    m = E.model_factory("linear", dimension=1)
    with core.quiet():
        m.fit(data, "mcmc_saem", n_iter=4, seed=rng.randrange(100), progress_bar=False)


def unrelated_calls(E, rng, model_path, data):
    """Other public calls with NON-default settings on another object of the same interpreter: customised optimiser options,
    annealed sampling personalisation, an estimate. None of it may influence a later seeded run with default settings."""
    with core.quiet():
        m = E.BaseModel.load(model_path)
        m.personalize(data, "scipy_minimize", seed=rng.randrange(100), progress_bar=False, use_jacobian=False,
                      custom_scipy_minimize_params={"method": "Powell", "options": {"xtol": 1e-2, "ftol": 1e-2, "maxiter": 3}})
        m.personalize(data, "scipy_minimize", seed=rng.randrange(100), progress_bar=False, use_jacobian=True,
                      custom_scipy_minimize_params={"method": "BFGS", "options": {"gtol": 1e-1, "maxiter": 2}})
        ips = m.personalize(data, "mode_posterior", seed=rng.randrange(100), progress_bar=False, n_iter=6,
                            annealing=dict(do_annealing=True, n_plateau=2, initial_temperature=4.0))
        m.estimate({i: [70.0, 75.5] for i in list(ips._indices)[:2]}, ips)


def logged_fit(E, rng, tmp):
    """a fit of another shape (4 features, 2 sources … or the joint model) with the logging actions on, shortened adaptation
    windows, another population sampler: whatever the output manager, matplotlib, the samplers or a class-level table keep
    from it must not reach a later seeded run"""
    work = tempfile.mkdtemp(prefix="hist_", dir=tmp)
    cwd = os.getcwd()
    os.chdir(work)
    try:
        kind = rng.choice(["logistic32", "uni", "joint", "linear"])
        v = dict(kind=kind, sampler=rng.choice(["FastGibbs", "Metropolis-Hastings", None]), sw=rng.random() < 0.5)
        c = dict(path=True, print=1, save=1, plot=None, pp=rng.choice([2, 3]), ow=False, dne=False, n=3, win=2, v=v)
        with core.quiet():
            fit_variant(E, c, log_kwargs(c, work), None)
    finally:
        os.chdir(cwd)
        shutil.rmtree(work, ignore_errors=True)


def other_shape_fit(E, rng):
    """the same model kind as the subjects, other dimensions (4 features, 3 sources), no logging"""
    _, data = A.cohort("tiny")
    m = E.model_factory("logistic", dimension=4, source_dimension=rng.choice([1, 3]))
    with core.quiet():
        m.fit(data, "mcmc_saem", n_iter=2, seed=rng.randrange(100), progress_bar=False, **sampler_kwargs(2))
        # … and used: whatever a personalisation / simulation keeps per model NAME, per variable name or per class now holds the
        # values of this other model
        m.personalize(data, "scipy_minimize", seed=rng.randrange(100), progress_bar=False,
                      custom_scipy_minimize_params={"method": "BFGS", "options": {"gtol": 1e-1, "maxiter": 1}})
        m.personalize(data, "mean_posterior", seed=rng.randrange(100), progress_bar=False, n_iter=2)
        m.simulate(algorithm="simulate", seed=rng.randrange(100), features=list(m.features),
                   visit_parameters={"patient_number": 2, "visit_type": "random", "first_visit_mean": 0.0, "first_visit_std": 0.4,
                                     "time_follow_up_mean": 2, "time_follow_up_std": 0.5, "distance_visit_mean": 1.0,
                                     "distance_visit_std": 0.2, "min_spacing_between_visits": 1})


class process_state:
    """global settings other code may have changed: print options of torch / numpy / pandas, floating-point error handling of
    numpy, the warnings filter (restored on exit: they are not this check's to keep)"""

    def __init__(self, E):
        self.E = E

    def __enter__(self):
        import warnings
        E = self.E
        self.np_print = E.np.get_printoptions()
        self.np_err = E.np.geterr()
        self.filters = list(warnings.filters)
        E.np.set_printoptions(precision=2, suppress=True, threshold=3)
        E.np.seterr(all="warn")
        E.torch.set_printoptions(precision=1, sci_mode=True, threshold=2)
        E.pd.set_option("display.precision", 1)
        warnings.simplefilter("always")
        return self

    def __exit__(self, *exc):
        import warnings
        E = self.E
        E.np.set_printoptions(**self.np_print)
        E.np.seterr(**self.np_err)
        E.torch.set_printoptions(profile="default")
        E.pd.reset_option("display.precision")
        warnings.filters[:] = self.filters
        return False


HISTORIES = ["repeat", "python", "numpy", "torch", "all", "reseed", "unrelated-fit", "unrelated-calls", "logged-fit", "other-shape-fit",
             "process-state"]


GEN_HISTORY = {"0": "python", "1": "numpy", "2": "torch"}


def history_search(E, rng, name, thunk, ref, p, multi):
    """bitwise differential runs aimed at ONE subject: the histories that move the generator the analysis points at first"""
    def search(answer, rec):
        fb = answer.get("firstbad", "none").split(":")
        aimed = [GEN_HISTORY[fb[2]]] if len(fb) == 3 and fb[2] in GEN_HISTORY else []
        for h in aimed + ["all", "reseed", "repeat", "unrelated-fit"] + aimed:
            try:
                if h == "unrelated-fit":
                    unrelated_fit(E, rng)
                elif h != "repeat":
                    consume(E, h, rng)
                got = thunk()
            except Exception as e:  # noqa
                return ({"part": "history", "subject": name, "history": h}, f"{name} after '{h}': raised {type(e).__name__}: {str(e)[:100]}")
            if got != ref:
                return ({"part": "history", "subject": name, "history": h},
                        f"{name}: result after history '{h}' differs bitwise from the first run")
        return None
    return search


def part_b(chk, E, tmp, book=None):
    rng = chk.rng
    subjects = []      # (name, thunk returning digest, seed of the run)
    _, multi = A.cohort("multi")
    _, uni = A.cohort("uni")
    dfj, joint = A.cohort("joint", n_ind=6)

    def fit_thunk(kind, data, seed, **hyp):
        def f():
            m = E.model_factory(kind, **hyp)
            with core.quiet():
                m.fit(data, "mcmc_saem", n_iter=rng_iter, n_burn_in_iter=3, seed=seed, progress_bar=False)
            return full_digest(m)
        return f
    rng_iter = rng.randrange(12, 21)
    seed = rng.randrange(1000)
    subjects.append((f"fit logistic seed={seed} n_iter={rng_iter}", fit_thunk("logistic", multi, seed, dimension=3, source_dimension=2), seed))
    subjects.append((f"fit linear-univariate seed={seed}", fit_thunk("linear", uni, seed, dimension=1), seed))
    # a documented option of every model: initial parameters drawn at random (the seed of the run must cover them, F32)
    subjects.append((f"fit logistic random-initialization seed={seed}",
                     fit_thunk("logistic", multi, seed, dimension=3, source_dimension=2, initialization_method="random"), seed))
    # every model kind has its own data-derived initialisation (run by `fit` on a fresh model, before the algorithm seeds the
    # generators): a fresh mixture model and a fresh joint model must be as reproducible as the others
    subjects.append((f"fit mixture (fresh model) seed={seed}",
                     fit_thunk("mixture_logistic", multi, seed, dimension=3, source_dimension=2, n_clusters=2, obs_models="gaussian-diagonal"), seed))
    # the same fit through the other public entry points, each with ONE object made now and used by every later run: an
    # AlgorithmSettings object, an algorithm object (algorithm_factory), a settings file, a Dataset; the result must be the one of
    # the keyword entry point (`same_as`)
    from leaspy.algo import AlgorithmSettings, algorithm_factory
    from leaspy.io.data import Dataset
    first_fit = subjects[0][0]
    with core.quiet():
        st_fit = AlgorithmSettings("mcmc_saem", n_iter=rng_iter, n_burn_in_iter=3, seed=seed, progress_bar=False)
        # (short adaptation windows: what the samplers of the algorithm object keep from one run shows in the next)
        algo_fit = algorithm_factory(AlgorithmSettings("mcmc_saem", n_iter=rng_iter, n_burn_in_iter=3, seed=seed, progress_bar=False,
                                                       **sampler_kwargs(3)))
        ds_fit = Dataset(multi)
        st_path = os.path.join(tmp, "fit_settings.json")
        st_fit.save(st_path)

    def entry_thunk(how):
        def f():
            m = E.model_factory("logistic", dimension=3, source_dimension=2)
            with core.quiet():
                if how == "settings":
                    m.fit(multi, algorithm_settings=st_fit)
                elif how == "file":
                    m.fit(multi_df.copy(), algorithm_settings_path=st_path)
                else:
                    m.initialize(ds_fit)
                    algo_fit.run(m, ds_fit)
            return full_digest(m)
        return f
    multi_df, _ = A.cohort("multi")
    same_as = {}
    for how, label in (("settings", "one reused AlgorithmSettings object"), ("file", "settings file, DataFrame input"),
                       ("algo", "one reused algorithm object and Dataset")):
        if how == "file" and chk.tier == "quick":
            continue            # (quick tier: the two entry points that keep an object between the runs)
        name = f"fit logistic [{label}] seed={seed}"
        subjects.append((name, entry_thunk(how), seed))
        if how != "algo":
            same_as[name] = first_fit
    if chk.tier == "thorough":
        subjects.append((f"fit shared_speed seed={seed}", fit_thunk("shared_speed_logistic", multi, seed, dimension=3, source_dimension=1), seed))
        subjects.append((f"fit joint seed={seed}", fit_thunk("joint", joint, seed, dimension=4, source_dimension=1), seed))
    # a fitted model for personalisation / simulation (loaded from its own file: no leftovers of the fit)
    base = E.model_factory("logistic", dimension=3, source_dimension=2)
    with core.quiet():
        base.fit(multi, "mcmc_saem", n_iter=12, n_burn_in_iter=4, seed=1, progress_bar=False)
    p = os.path.join(tmp, "base.json")
    base.save(p)

    def perso_thunk(algo, seed, **kw):
        def f():
            with core.quiet():
                m = E.BaseModel.load(p)
                ips = m.personalize(multi, algo, seed=seed, **{"progress_bar": False, **kw})
            return A.ip_digest(ips)
        return f

    def sim_thunk(seed, table=False):
        vp = {"patient_number": 4, "visit_type": "random", "first_visit_mean": 0.0, "first_visit_std": 0.4,
              "time_follow_up_mean": 3, "time_follow_up_std": 0.5, "distance_visit_mean": 1.0,
              "distance_visit_std": 0.2, "min_spacing_between_visits": 1}
        if table:
            vp = {"visit_type": "dataframe",
                  "df_visits": E.pd.DataFrame({"ID": [30, 7, 30, 12, 7], "TIME": [71.5, 68.0, 72.25, 80.0, 69.5]})}

        def f():
            with core.quiet():
                m = E.BaseModel.load(p)
                res = m.simulate(algorithm="simulate", seed=seed, features=list(m.features), visit_parameters=vp)
            ip = res.individual_parameters
            return A.obj_digest((A.df_digest(res.data.to_dataframe()), A.df_digest(ip) if isinstance(ip, E.pd.DataFrame) else A.ip_digest(ip)))
        return f
    subjects.append((f"personalize mean_posterior seed={seed}", perso_thunk("mean_posterior", seed, n_iter=15), seed))
    subjects.append((f"personalize mode_posterior seed={seed}", perso_thunk("mode_posterior", seed, n_iter=15), seed))
    subjects.append((f"personalize scipy_minimize seed={seed}", perso_thunk("scipy_minimize", seed), seed))
    # the logging keywords and the progress bar are accepted by every call (only fits act on them): same result, no abort
    name = f"personalize mean_posterior [logging keywords, progress bar] seed={seed}"
    subjects.append((name, perso_thunk("mean_posterior", seed, n_iter=15, progress_bar=True, path=os.path.join(tmp, "perso_logs"),
                                       print_periodicity=1, save_periodicity=2, plot_periodicity=2, overwrite_logs_folder=True), seed))
    same_as[name] = f"personalize mean_posterior seed={seed}"
    # the same request served by a pool of worker processes (workers are reused between calls: their generators are part of
    # the process history)
    subjects.append((f"personalize scipy_minimize n_jobs=2 seed={seed}", perso_thunk("scipy_minimize", seed, n_jobs=2), seed))
    # sampling personalisation with its options away from the defaults (annealing, short adaptation window), one settings object
    # and ONE model object for all the runs: what an earlier personalisation left in either must not matter
    with core.quiet():
        st_mode = AlgorithmSettings("mode_posterior", seed=seed, progress_bar=False, n_iter=14,
                                    annealing=dict(do_annealing=True, n_plateau=2, initial_temperature=4.0),
                                    sampler_ind_params=dict(acceptation_history_length=3))
        one_model = E.BaseModel.load(p)

    def reused_perso():
        with core.quiet():
            return A.ip_digest(one_model.personalize(multi, algorithm_settings=st_mode))
    subjects.append((f"personalize mode_posterior annealed [one model and settings object] seed={seed}", reused_perso, seed))
    subjects.append((f"simulate seed={seed}", sim_thunk(seed), seed))
    subjects.append(("simulate seed=0", sim_thunk(0), 0))          # 0 is a seed like any other
    subjects.append(("simulate seed=4294967295", sim_thunk(2 ** 32 - 1), 2 ** 32 - 1))     # the largest seed numpy accepts
    subjects.append((f"simulate [visit table] seed={seed}", sim_thunk(seed, table=True), seed))
    # the seed given as a numpy integer / as text (both documented as converted with int())
    forms = [("numpy.int64", E.np.int64(seed)), ("str", str(seed))]
    for form, val in (forms if chk.tier == "thorough" else [rng.choice(forms)]):
        name = f"simulate [seed given as {form}] seed={seed}"
        subjects.append((name, sim_thunk(val), seed))
        same_as[name] = f"simulate seed={seed}"
    # reference results first, all of them, before any other activity took place in this interpreter
    # (an activity that leaves something behind would otherwise already be part of a later subject's reference)
    # (they stay unrecorded: every later run is recorded, so each bitwise comparison also says that recording changes nothing)
    refs = {}
    for name, thunk, _ in subjects:
        try:
            refs[name] = thunk()
        except Exception as e:
            chk.impl_failure({"part": "history", "subject": name, "history": "first run"},
                             f"{name}: raised {type(e).__name__}: {str(e)[:100]}")
    for name, other in same_as.items():
        if name in refs and other in refs and refs[name] != refs[other]:
            chk.impl_failure({"part": "history", "subject": name, "history": "first run"},
                             f"{name}: differs bitwise from '{other}' (same settings, same seed, another entry point / form of the seed)")
    for name, thunk, run_seed in subjects:
        if name not in refs:
            continue
        ref = refs[name]
        search = history_search(E, rng, name, thunk, ref, p, multi)
        if name.startswith(("fit logistic seed", f"simulate seed={seed}")) or (chk.tier == "thorough" and "[" not in name):
            hists = HISTORIES
        elif chk.tier == "thorough":
            hists = rng.sample(HISTORIES, 5)        # (entry points / forms of the seed: five of the eleven histories)
        elif name.startswith(("fit logistic random", "simulate seed=0")):
            hists = HISTORIES[:8]                   # (quick tier: the three histories added last go to one fit and one simulation)
        elif name in same_as or "[" in name or name.startswith("simulate") or name.startswith("fit mixture"):
            hists = rng.sample(HISTORIES, 2)       # (entry points / forms added later: a sample; every history over the seeds)
        else:
            hists = rng.sample(HISTORIES, 4)
        if name.startswith("personalize") and "[" not in name and "unrelated-calls" not in hists:
            hists = list(hists) + ["unrelated-calls"]
        for h in hists:
            cj = {"part": "history", "subject": name, "history": h}
            t_act = time.time()
            try:
                ctx = process_state(E) if h == "process-state" else contextlib.nullcontext()
                if h == "unrelated-fit":
                    unrelated_fit(E, rng)
                elif h == "unrelated-calls":
                    unrelated_calls(E, rng, p, multi)
                elif h == "logged-fit":
                    logged_fit(E, rng, tmp)
                elif h == "other-shape-fit":
                    other_shape_fit(E, rng)
                elif h not in ("repeat", "process-state"):
                    consume(E, h, rng)
                spent = chk.extra_cov.setdefault("seconds_per_history_activity", {})
                spent[h] = round(spent.get(h, 0.0) + time.time() - t_act, 1)
                t_act = time.time()
                with ctx, D.DrawRecorder(run_seed) as dr:
                    got = thunk()
                spent = chk.extra_cov.setdefault("seconds_per_subject", {})
                spent[name.split(" seed")[0]] = round(spent.get(name.split(" seed")[0], 0.0) + time.time() - t_act, 1)
            except Exception as e:
                chk.impl_failure(cj, f"{name} after '{h}': raised {type(e).__name__}: {str(e)[:100]}")
                continue
            if book is not None:
                # the pooled run must show, in the calling process, the very program of the in-process run (what workers draw is
                # outside the record: every draw of this algorithm is made before the jobs are dispatched)
                pooled = " n_jobs=2" in name
                book.add(name.replace(" n_jobs=2", ""), ("n_jobs=2 " if pooled else "") + h, cj, dr, search)
            if got != ref:
                chk.impl_failure(cj, f"{name}: result after history '{h}' differs bitwise from the first run")
            chk.case(("hist", name.split(" seed")[0], h), nontrivial=h != "repeat", sample=cj if len(chk.samples) < 6 else None,
                     tags={"part": "history", "history": h, "subject": name.split(" seed")[0]})


def ambient_dtype_part(chk, E, tmp, book=None):
    """Process history = a global numeric default changed by earlier code: the algorithms pin their own working precision, so a
    seeded run on objects built beforehand must not depend on torch's ambient default dtype."""
    torch = E.torch
    rng = chk.rng
    seed = rng.randrange(1000)
    _, uni = A.cohort("uni")
    base = E.model_factory("logistic", dimension=1)
    with core.quiet():
        base.fit(uni, "mcmc_saem", n_iter=10, n_burn_in_iter=4, seed=2, progress_bar=False)
    p = os.path.join(tmp, "uni.json")
    base.save(p)

    def perso(algo, **kw):
        return lambda m: A.ip_digest(m.personalize(uni, algo, seed=seed, progress_bar=False, **kw))

    # (scipy_minimize and simulate are left out on purpose: only the sampling algorithms document that they manage their working
    # precision / device (`AlgorithmSettings.device`); under an ambient float64 the optimiser of scipy_minimize follows another
    # rounding path (individual parameters differ by ~1e-3) and simulate computes the noiseless values in double precision for a
    # model without sources — observed on the unchanged tree, a matter of precision, not of seeding)
    for name, call in ((f"personalize mean_posterior (univariate, objects built beforehand) seed={seed}", perso("mean_posterior", n_iter=12)),
                       (f"personalize mode_posterior (univariate, objects built beforehand) seed={seed}", perso("mode_posterior", n_iter=12))):
        cj = {"part": "history", "subject": name, "history": "ambient-default-dtype-float64"}
        try:
            with core.quiet():
                m0, m1, m2 = E.BaseModel.load(p), E.BaseModel.load(p), E.BaseModel.load(p)
                ref = call(m0)
                with D.DrawRecorder(seed) as dr1:
                    again = call(m1)
                old = torch.get_default_dtype()
                torch.set_default_dtype(torch.float64)
                try:
                    with D.DrawRecorder(seed) as dr2:
                        got = call(m2)
                finally:
                    torch.set_default_dtype(old)
        except Exception as e:  # noqa
            chk.impl_failure(cj, f"{name}: raised {type(e).__name__}: {str(e)[:100]}")
            continue
        if again != ref:
            chk.impl_failure({**cj, "history": "repeat"}, f"{name}: repeated with the draw recorder on, the result differs bitwise")
        if got != ref:
            chk.impl_failure(cj, f"{name}: result under an ambient default dtype of float64 differs bitwise from the plain run")
        if book is not None:
            # the draw kinds carry the dtype of what is drawn: a run whose draws follow the ambient dtype shows in its program
            book.add(name, "repeat", {**cj, "history": "repeat"}, dr1, None)
            book.add(name, "ambient-default-dtype-float64", cj, dr2, None)
        chk.case(("hist", name.split(" seed")[0], "ambient-dtype"), nontrivial=True, tags={"part": "history", "history": "ambient-dtype",
                                                                                           "subject": name.split(" seed")[0]})


def forced_logging_probe(chk, E, tmp, book):
    """(thorough) The logging actions at iteration numbers no sampled fit reaches: after a short real fit with every periodicity 1,
    `FitOutputManager.iteration` is called for iterations 9…32 on the very objects of that fit, under the draw recorder.  The
    recorded program must consist of markers only.  A generator event found here is searched for with a real fit long enough to
    reach that iteration."""
    from leaspy.algo import AlgorithmSettings, algorithm_factory
    from leaspy.io.data import Dataset
    _, data = A.cohort("multi")
    work = tempfile.mkdtemp(prefix="forced_", dir=tmp)
    cwd = os.getcwd()
    os.chdir(work)
    first, last = 9, 32
    c = dict(path=True, print=1, save=1, plot=1, pp=1, ow=False, dne=False)
    cj = {**log_case_json(c), "forced_iterations": [first, last]}
    try:
        try:
            m = E.model_factory("logistic", dimension=3, source_dimension=1)
            st = AlgorithmSettings("mcmc_saem", n_iter=3, n_burn_in_iter=1, seed=3, progress_bar=False)
            st.set_logs(path=os.path.join(work, "logs"), print_periodicity=1, save_periodicity=1, plot_periodicity=1,
                        plot_patient_periodicity=1)
            algo = algorithm_factory(st)
            ds = Dataset(data)
            with core.quiet():
                m.initialize(ds)
                algo.run(m, ds)
            with D.DrawRecorder(3) as dr:
                with core.quiet():
                    for k in range(first, last + 1):
                        algo.current_iteration = k
                        algo.output_manager.iteration(algo, m, ds)
        except Exception as e:  # noqa
            chk.impl_failure(cj, f"logging actions called at iterations {first}…{last} after a real fit: raised {type(e).__name__}: {str(e)[:100]}")
            return

        def search(answer, rec):
            # iteration at which the first generator event was recorded = number of print markers before it
            seen = 0
            k_bad = None
            for e in rec.events:
                if e.op == "n" and e.a == 0:
                    seen += 1
                elif e.op != "n":
                    k_bad = first + seen - 1
                    break
            if k_bad is None:
                return None
            n = k_bad + 2
            _, d2 = A.cohort("multi")
            base, got = plain_fit_digest(E, d2, None, n, tmp), plain_fit_digest(E, d2, c, n, tmp)
            if base is not None and got is not None and base != got:
                return ({**log_case_json(c), "n": n}, f"fit of {n} iterations: final parameters / latent values differ bitwise from the run without logging")
            return None
        book.add(f"logging actions forced at iterations {first}…{last}", "all periodicities 1", cj, dr, search)
        book.runs[-1]["must_be_empty"] = True       # no reference run exists for this subject: the empty program is the reference
        chk.case(("forced-logging", first, last), nontrivial=True, tags={"part": "logging-forced"})
    finally:
        os.chdir(cwd)
        shutil.rmtree(work, ignore_errors=True)


def probe_findings(chk, E, tmp):
    _, data = A.cohort("multi")
    work = tempfile.mkdtemp(prefix="f6_", dir=tmp)
    cwd = os.getcwd()
    os.chdir(work)
    try:
        m = E.model_factory("logistic", dimension=3, source_dimension=1)
        try:
            with core.quiet():
                m.fit(data, "mcmc_saem", n_iter=3, seed=0, progress_bar=False, print_periodicity=5)
            chk.note("finding F6 no longer reproduces (print_periodicity without path runs to the end)")
        except AttributeError as e:
            chk.known_finding_reproduces("F6", f"fit(..., print_periodicity=5) without path: AttributeError: {e}")
        except Exception as e:  # noqa
            chk.note(f"F6 probe ended otherwise: {type(e).__name__}: {str(e)[:80]}")
    finally:
        os.chdir(cwd)
    # F100: convergence plot of the joint model
    work = tempfile.mkdtemp(prefix="f100_", dir=tmp)
    os.chdir(work)
    try:
        c = dict(path=True, print=None, save=3, plot=6, pp=None, ow=False, dne=False, v={"kind": "joint"})
        try:
            with core.quiet():
                fit_variant(E, c, log_kwargs(c, work), None)
            chk.note("finding F100 no longer reproduces (joint model: the convergence plot is written, the fit runs to the end)")
        except TypeError as e:
            chk.known_finding_reproduces("F100", "joint model, fit(..., path=<dir>, save_periodicity=3, plot_periodicity=6): the first convergence "
                                                 f"plot aborts the fit with TypeError: {e}")
        except Exception as e:  # noqa  (another abort of that fit is not F100: the logging cases report it)
            chk.note(f"F100 probe ended otherwise: {type(e).__name__}: {str(e)[:80]}")
    finally:
        os.chdir(cwd)
    # F102: one settings object with source-wise plots, two fits
    work = tempfile.mkdtemp(prefix="f102_", dir=tmp)
    os.chdir(work)
    try:
        from leaspy.algo import AlgorithmSettings
        _, data = A.cohort("multi")
        try:
            with core.quiet():
                st = AlgorithmSettings("mcmc_saem", n_iter=2, n_burn_in_iter=1, seed=3, progress_bar=False)
                st.set_logs(path=os.path.join(work, "logs"), save_periodicity=2, plot_periodicity=2, plot_sourcewise=True)
                E.model_factory("logistic", dimension=3, source_dimension=1).fit(data, algorithm_settings=st)
            try:
                with core.quiet():
                    E.model_factory("logistic", dimension=3, source_dimension=1).fit(data, algorithm_settings=st)
                chk.note("finding F102 no longer reproduces (a second fit with the same settings object and source-wise plots runs to the end)")
            except ValueError as e:
                chk.known_finding_reproduces("F102", "one AlgorithmSettings object with set_logs(path, save_periodicity=2, plot_periodicity=2, "
                                                     f"plot_sourcewise=True), second fit: ValueError: {str(e)[:80]}")
        except Exception as e:  # noqa
            chk.note(f"F102 probe could not run: {type(e).__name__}: {str(e)[:80]}")
    finally:
        os.chdir(cwd)


def run(chk: core.Check):
    E = A.env()
    chk.rule = ("logging: one case = one real seeded fit (logistic, 3 features, 1 source, 6 iterations) with one logging request "
                "(periodicities in {None,1,2,3,5} for print/save/plot/patient-plot x path, sampled from the 1250-point grid, plus ignored "
                "values 0/-1, non-empty folder with/without overwrite; a third of the cases — and their baselines — with the samplers' adaptation "
                "window shortened from 25 to 2 / 3 iterations so that adaptations fire between logging actions; two 8-iteration and one "
                "27-iteration fit); variants of that subject (key `v`): other model kinds (joint, univariate, linear, shared speed, "
                "no / two sources, two features), source-wise plots, number of patients plotted 0 / 1 / more than the cohort, path as pathlib.Path / "
                "relative, FastGibbs / Metropolis-Hastings population sampler, annealing, fixed variable order, progress bar, a quarter of "
                "the observations missing, DataFrame / Data / Dataset input, one AlgorithmSettings or algorithm object used twice "
                "(6 fixed + 1 sampled in the quick tier, all + 14 random combinations in the thorough tier); "
                "non-trivial when any logging option is set. history: one case = "
                "one seeded run (fit by keywords / reused settings object / reused algorithm object and Dataset / settings file; mean / "
                "mode / scipy personalisation, also pooled, also annealed on one reused model and settings object; simulate with a random "
                "design or a visit table, seeds 0, 2^32-1, numpy integer, text) repeated after a given prior activity (draws, re-seeding, "
                "unrelated fit / calls, a logged fit of another kind, a fit of another shape, changed print options / error handling / "
                "warnings filter); non-trivial "
                "when the activity is not a plain repeat. draw programs: every one of these runs except the reference runs is recorded "
                "(draws_c11.py) and analysed by the driver (one `draws` line each).")
    tmp = tempfile.mkdtemp(prefix="c11_")
    book = DrawBook()
    try:
        timing = chk.extra_cov.setdefault("seconds_per_part", {})

        def timed(name, f, *a):
            t0 = time.time()
            try:
                return f(*a)
            finally:
                timing[name] = round(timing.get(name, 0.0) + time.time() - t0, 1)
        timed("logging", part_a, chk, E, tmp, book)
        timed("history", part_b, chk, E, tmp, book)
        timed("ambient_dtype", ambient_dtype_part, chk, E, tmp, book)
        if chk.tier == "thorough":
            timed("forced_logging", forced_logging_probe, chk, E, tmp, book)
        timed("draw_programs", check_draw_programs, chk, book)
        timed("findings", probe_findings, chk, E, tmp)
    finally:
        shutil.rmtree(tmp, ignore_errors=True)


def replay(chk: core.Check, payload):
    E = A.env()
    case = payload.get("case") or (payload.get("disagreements") or [{}])[0].get("case")
    tmp = tempfile.mkdtemp(prefix="c11_")
    book = DrawBook()
    try:
        if case and case.get("part") == "logging":
            c = clean_case(case)
            _, data = A.cohort("multi")
            baselines = make_baselines(chk, E, data, tmp, book)
            ans = run_logging_case(chk, E, c, data, baselines, tmp, book)
            chk.case(("log", tuple(sorted(c.items()))), sample=case)
            out = chk.model([lean_line(c)])
            if ans is not None and out[0] != ans:
                chk.disagree(case, ans, out[0], "logging outcome / actions fired per iteration")
        else:
            # history cases depend on the whole sequence of prior activity: re-run part B
            part_b(chk, E, tmp, book)
            ambient_dtype_part(chk, E, tmp, book)
        check_draw_programs(chk, book)
    finally:
        shutil.rmtree(tmp, ignore_errors=True)
