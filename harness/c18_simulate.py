"""C18 — simulation honours the requested design.

Correspondence: real `model.simulate(algorithm="simulate", ...)` on the stored fitted logistic models
(and the bare constructor for the validation grid) against `Model/Simulate.lean` through `drivers/C18.lean`.
The random draws the implementation consumes (`numpy.random.normal`) are recorded by a call-through wrapper
and fed to the Lean model as float64 bit patterns, so the final visit ages are compared bitwise.

Hardening (after six rounds of seeded changes): one model object per stored model shared by the runs (besides fresh, deep-copied
and saved-then-reloaded ones); every entry point (keyword settings, `AlgorithmSettings` object — also used twice —, settings file,
`algorithm_factory(...).run`, the class itself, one algorithm object run twice, the `AlgorithmName` member); synthetic logistic
models (2..12 features, 0..5 sources, huge / tiny noise, fast progression); numpy-typed parameter values and feature names;
visit tables in every dtype / layout pandas offers (float32 / int / object TIME, categorical / string / int32 / negative / non-ASCII
ids, extra columns, any index, up to 30 individuals, ages 0 / negative / 1000+); wider design ranges (150 individuals, hundreds of
visits, negative ages, spacing in days); seeds 0 / None / 2**32-1; scripted normal draws that put the generated ages on exact
duplicates, rounding ties, +-1 ulp of them and the loop boundary at every precision; ambient torch default dtype and pandas
copy-on-write.
"""
from __future__ import annotations

import contextlib
import copy
import json
import math
import os
import random as _random
import shutil
import signal
import tempfile
import warnings

from . import core
from .core import fmt_float, fmt_list

PROP = "C18"
LEAN = dict(
    props="LeaspyVerif.Props.C18",
    driver="drivers/C18.lean",
    harness="c18_simulate.py",
    extra_modules=["LeaspyVerif.Model.Simulate"],
    theorems=[
        "ages_unique_increasing", "ages_are_the_rounded_draws", "ages_increasing_in_years",
        "rounding_is_nearest", "dedup_before_rounding_counterexample",
        "genAges_terminates", "genAges_regular_terminates", "genAges_nonempty",
        "individual_count_random", "individual_count_table", "every_individual_has_a_visit",
        "validate_table_partial", "validate_table_counterexample", "requirements_accepted",
        "refusal_is_algo_input_partial", "refusal_is_algo_input_counterexample",
        "valid_random_design_completes_partial", "valid_table_design_completes_partial",
        "valid_design_completes_counterexample_features", "valid_design_completes_counterexample_empty_table",
        "precision_total", "precision_documented",
    ],
    trusted_extra=[
        "numpy.round = rint(x*10**p)/10**p and pandas Index.duplicated(keep='first'): modelled, tied by bitwise comparison of the final ages",
        "model.estimate, the beta noise (scipy) and Data.from_dataframe's value handling are exercised, not modelled; the property predicate (finite values in [0,1]) is evaluated on the real output",
        "theorems are over Rat / an ordered field; the executable instance is IEEE double",
    ],
    assumptions=[
        "loaded LogisticModel with gaussian noise (binary/ordinal observation models have no noise_std and are outside the simulate algorithm)",
        "visit table: ID column homogeneous (all str or all int), non-null, non-empty strings; TIME finite",
        "python bool values for numeric parameters are not generated (bool is an int subclass)",
        "almost-sure termination of the random walk for distance_visit_std > 0 is probability theory: proved only for step draws >= delta > 0; runs are guarded by a wall-clock alarm",
        "an ambient torch default dtype of float64 is exercised with model objects whose derived values were computed beforehand (the stored files carry them); a model that still derives values lazily under that ambient mixes precisions throughout leaspy (estimate, personalize), which is not this property's matter",
    ],
)

MODELS = ["logistic_diag_noise", "logistic_scalar_noise", "logistic_diag_noise_custom", "univariate_logistic",
          "logistic_diag_noise_mh"]
# synthetic logistic models written to a scratch directory: syn_d<features>_s<sources>_<diag|scalar>[_<variant>]
SYN_MODELS = ["syn_d2_s1_diag", "syn_d7_s3_diag", "syn_d12_s5_scalar", "syn_d3_s0_diag", "syn_d4_s2_diag_bignoise",
              "syn_d4_s2_diag_tinynoise", "syn_d4_s2_scalar_fast"]
RANDOM_KEYS = ["patient_number", "first_visit_mean", "first_visit_std", "time_follow_up_mean",
               "time_follow_up_std", "distance_visit_mean", "distance_visit_std"]
LEAN_KEYS = dict(patient_number="pn", first_visit_mean="fvm", first_visit_std="fvs", time_follow_up_mean="fum",
                 time_follow_up_std="fus", distance_visit_mean="dvm", distance_visit_std="dvs",
                 min_spacing_between_visits="ms")
QUICK_ALARM, THOROUGH_ALARM = 12.0, 20.0


# ---------------------------------------------------------------------------------------------- environment
class Env:
    def __init__(self, tmp=None):
        warnings.filterwarnings("ignore")
        import leaspy.models  # noqa: F401  (must precede leaspy.variables)
        import numpy as np
        import pandas as pd
        import torch
        import random as pyrandom
        from leaspy.models import BaseModel
        from leaspy.exceptions import LeaspyAlgoInputError
        import leaspy.algo.simulate.simulate as simmod
        self.np, self.pd, self.torch, self.pyrandom = np, pd, torch, pyrandom
        self.BaseModel, self.LAIE, self.simmod = BaseModel, LeaspyAlgoInputError, simmod
        self.model_dir = core.REPO / "tests/_data/model_parameters/from_fit"
        self._info = {}
        self._shared = {}
        self.tmp = tempfile.mkdtemp(prefix="c18_", dir=tmp)

    def close(self):
        shutil.rmtree(self.tmp, ignore_errors=True)

    def path(self, name):
        if not name.startswith("syn_"):
            return str(self.model_dir / f"{name}.json")
        p = os.path.join(self.tmp, name + ".json")
        if not os.path.exists(p):
            with open(p, "w") as fh:
                json.dump(self.synthetic(name), fh)
        return p

    def synthetic(self, name):
        """A logistic model file derived from a stored one (the derived values are recomputed at load)."""
        _, d_, s_, noise, *variant = name.split("_")
        dim, src = int(d_[1:]), int(s_[1:])
        d = json.loads((self.model_dir / "logistic_diag_noise.json").read_text())
        r = _random.Random(1000 * dim + src)
        d["features"], d["dimension"], d["source_dimension"] = [f"F{i}" for i in range(dim)], dim, src
        p, h = d["parameters"], d["hyperparameters"]
        p["log_g_mean"] = [r.uniform(0, 3) for _ in range(dim)]
        p["log_v0_mean"] = [r.uniform(-4.5, -3) for _ in range(dim)]
        p["noise_std"] = [r.uniform(0.03, 0.2) for _ in range(dim)] if noise == "diag" else r.uniform(0.03, 0.2)
        d["obs_models"] = {"y": "gaussian-diagonal" if noise == "diag" else "gaussian-scalar"}
        p.pop("mixing_matrix", None)
        if src > 0:
            p["betas_mean"] = [[r.uniform(-0.1, 0.1) for _ in range(src)] for _ in range(dim - 1)]
            h["sources_mean"] = [0.0] * src
        else:
            p.pop("betas_mean", None)
            for k in ("sources_mean", "sources_std", "betas_std"):
                h.pop(k, None)
        if "bignoise" in variant:       # variance clamped at almost every visit
            p["noise_std"] = [0.45, 0.3, 0.5, 0.6][:dim] if noise == "diag" else 0.5
        if "tinynoise" in variant:      # beta parameters of the order of 1e8
            p["noise_std"] = [1e-4, 1e-3, 1e-5, 1e-4][:dim] if noise == "diag" else 1e-4
        if "fast" in variant:           # individual speeds spread over e^+-9, onsets over +-90 years
            p["xi_std"], p["tau_std"] = [3.0], [30.0]
        return d

    def load(self, name):
        with core.quiet():
            return self.BaseModel.load(self.path(name))

    def model_for(self, case):
        """fresh (default) | shared: one object per model for the whole run | deepcopy of it | saved and loaded again"""
        how, name = case.get("model_obj", "fresh"), case["model"]
        if how == "fresh":
            return self.load(name)
        if name not in self._shared:
            self._shared[name] = self.load(name)
        m = self._shared[name]
        if how == "shared":
            return m
        if how == "deepcopy":
            return copy.deepcopy(m)
        if how == "saveload":
            p = os.path.join(self.tmp, f"resaved_{name}.json")
            with core.quiet():
                m.save(p)
                return self.BaseModel.load(p)
        raise ValueError(how)

    def info(self, name):
        if name not in self._info:
            m = self.load(name)
            self._info[name] = (int(m.dimension), int(m.source_dimension), list(m.features))
        return self._info[name]

    def rng_fingerprint(self):
        st = self.np.random.get_state()
        return (st[1].tobytes(), st[2], self.torch.get_rng_state().numpy().tobytes(), repr(self.pyrandom.getstate()))


class Timeout(Exception):
    pass


@contextlib.contextmanager
def alarm(seconds):
    def handler(signum, frame):
        raise Timeout()
    old = signal.signal(signal.SIGALRM, handler)
    signal.setitimer(signal.ITIMER_REAL, seconds)
    try:
        yield
    finally:
        signal.setitimer(signal.ITIMER_REAL, 0)
        signal.signal(signal.SIGALRM, old)


class Recorder:
    """Call-through wrappers on the generators the simulation uses (numpy.random.normal, scipy beta.rvs)."""
    MAX = 400_000

    def __init__(self, env, mk_script=None):
        self.env = env
        self.mk_script = mk_script or (lambda: None)
        self.reset()

    def reset(self):
        self.script = self.mk_script()  # None | Script: replaces what the generator returned (the generator is consumed all the same)
        self.normal = []  # (size, output)
        self.n_normal = 0
        self.n_beta = 0
        self.generated_ages = None   # {id: unrounded ages} as returned by `_generate_visit_ages`

    @contextlib.contextmanager
    def installed(self):
        np, simmod = self.env.np, self.env.simmod
        orig_normal, orig_beta = np.random.normal, simmod.beta
        rec = self

        def normal(loc=0.0, scale=1.0, size=None):
            out = orig_normal(loc, scale, size)
            if rec.script is not None:
                out = rec.script.replace(rec.n_normal, size, out)
            rec.n_normal += 1
            if len(rec.normal) < rec.MAX:
                rec.normal.append((size, out))
            return out

        class BetaProxy:
            def __getattr__(self, k):
                return getattr(orig_beta, k)

            def rvs(self, *a, **k):
                rec.n_beta += 1
                return orig_beta.rvs(*a, **k)

        SA = simmod.SimulationAlgorithm
        orig_gva = SA._generate_visit_ages

        def gva(algo_self, df):
            out = orig_gva(algo_self, df)
            try:
                rec.generated_ages = {str(k): [float(a) for a in v] for k, v in out.items()}
            except Exception:  # noqa
                rec.generated_ages = None
            return out

        np.random.normal = normal
        simmod.beta = BetaProxy()
        SA._generate_visit_ages = gva
        try:
            yield self
        finally:
            np.random.normal = orig_normal
            simmod.beta = orig_beta
            SA._generate_visit_ages = orig_gva


class Script:
    """Adversarial draws for a random design: the onset ages become whole years, the first-visit offsets, follow-up lengths and
    steps come from a small set built on the reporting unit u = 10**-p (exact duplicates, ages that collide after rounding, rounding
    ties k.5 u and their neighbours one ulp away, a step back, follow-ups that end exactly on a visit).  Every choice is a pure function
    of (`seed`, position), so a case replays identically; the Lean model is fed the replaced draws like any recorded ones."""

    def __init__(self, env, seed, p, src):
        self.np, self.src = env.np, src
        self.r = _random.Random(seed)
        u = 10.0 ** -p
        nx = lambda x: float(env.np.nextafter(x, math.inf))
        pv = lambda x: float(env.np.nextafter(x, -math.inf))
        self.offsets = [0.0, u / 2, nx(u / 2), pv(u / 2), 1.5 * u, 2.5 * u, u / 4, -u / 2, -1.5 * u, 0.05, 0.15, 0.25, 0.35, 0.005, 0.015,
                        0.0005, 0.0015, 0.0025, u, 7 * u]
        self.follow = [0.0, u, 3 * u, 10 * u, 10.5 * u, 2 * u, 4.5 * u, pv(3 * u), nx(3 * u)]
        self.steps = [u, u, u / 2, u / 2, u / 10, 0.0, -u / 2, 2 * u, 1.5 * u, nx(u), pv(u), u / 4, 3 * u, 0.3 * u, 0.7 * u]

    def replace(self, idx, size, out):
        np = self.np
        if size is None:
            return np.float64(self.r.choice(self.steps))
        if idx == 1:
            return np.round(np.asarray(out, dtype=np.float64))
        if idx == 2 + self.src:
            return np.array([self.r.choice(self.offsets) for _ in range(len(out))], dtype=np.float64)
        if idx == 3 + self.src:
            return np.array([self.r.choice(self.follow) for _ in range(len(out))], dtype=np.float64)
        return out


# ---------------------------------------------------------------------------------------------- case encoding
def py_val(env, e):
    """encoded dictionary value -> python object"""
    if isinstance(e, dict):
        if "i" in e:
            return int(e["i"])
        if "f" in e:
            # numpy.float64 is a python float (accepted like one)
            return env.np.float64(e["f"]) if e.get("np") else float(e["f"])
        if "o" in e:
            import decimal
            import fractions
            return {"str": "abc", "numstr": "5", "none": None, "list": [1.0], "npint": env.np.int64(5),
                    "npfloat32": env.np.float32(0.5), "npint32": env.np.int32(3), "fraction": fractions.Fraction(1, 2),
                    "decimal": decimal.Decimal("0.5"), "complex": complex(1.0, 0.0), "nparray": env.np.array(0.5),
                    "tensor": env.torch.tensor(0.5)}[e["o"]]
    if e == "nan":
        return float("nan")
    if e == "pinf":
        return float("inf")
    if e == "ninf":
        return float("-inf")
    raise ValueError(f"bad encoded value {e!r}")


def lean_val(e):
    if e is None:
        return "absent"
    if isinstance(e, dict):
        if "i" in e:
            return f"i{int(e['i'])}"
        if "f" in e:
            return fmt_float(e["f"])
        return "other"
    return e  # nan / pinf / ninf


def hexs(s: str) -> str:
    return s.encode("utf-8").hex()


class _StrSub(str):
    pass


def build_features(enc, feat_type=None, env=None):
    if isinstance(enc, str):  # "notlist:tuple" / "notlist:none" / "notlist:str" / …
        if enc in ("notlist:array", "notlist:index", "notlist:series"):
            names = ["Y0", "Y1", "Y2", "Y3"]
            return {"notlist:array": env.np.array(names), "notlist:index": env.pd.Index(names), "notlist:series": env.pd.Series(names)}[enc]
        return {"notlist:tuple": ("Y0", "Y1"), "notlist:none": None, "notlist:str": "Y0", "notlist:set": {"Y0", "Y1"},
                "notlist:dict": {"Y0": 0, "Y1": 1}}[enc]
    conv = {None: str, "npstr": (lambda x: env.np.str_(x)), "strsub": _StrSub}[feat_type]   # both are python strings
    return [conv(f) if isinstance(f, str) else 1 for f in enc]


def lean_features(enc):
    if isinstance(enc, str):
        return "notlist"
    return fmt_list(["s" + hexs(f) if isinstance(f, str) else "n" for f in enc])


def build_table(env, t):
    pd = env.pd
    if t == "notframe":
        return {"ID": ["a"], "TIME": [70.0]}
    rows = t["rows"]
    ids = [r[0] for r in rows]
    times = [r[1] for r in rows]
    if t.get("time_null") and times:
        times = [float(x) for x in times]
        times[len(times) // 2] = float("nan")
    id_name = "ID" if t["id_at"] != "missing" else "subject"
    time_name = "TIME" if t["time_at"] != "missing" else "age"
    if not rows:
        df = pd.DataFrame({id_name: pd.Series([], dtype=object), time_name: pd.Series([], dtype=float)})
    else:
        df = pd.DataFrame({id_name: ids, time_name: times})
        # the dtypes and layouts a caller's table may have (the design is the same table)
        if t.get("time_dtype") and not t.get("time_null"):
            df[time_name] = df[time_name].astype(t["time_dtype"])        # float32 | int64 | int32 | object
        if t.get("id_dtype"):
            df[id_name] = df[id_name].astype(t["id_dtype"])              # category | string | int32
            if t.get("unused_category") and t["id_dtype"] == "category":
                # a category without any row, as left behind by filtering a cohort
                df[id_name] = df[id_name].cat.add_categories(["zz-not-in-the-table"] if isinstance(ids[0], str) else [10 ** 6 + 1])
        if t.get("extra_cols"):
            df["SEX"] = [k % 2 for k in range(len(df))]
            df["NOTE"] = "x"
            df = df[["NOTE", time_name, "SEX", id_name]]
        ix = t.get("index")
        if ix == "gaps":
            df.index = [3 * k + 5 for k in range(len(df))][::-1]
        elif ix == "dup":
            df.index = [0] * len(df)
        elif ix == "named":
            df.index = pd.Index([f"r{k % 3}" for k in range(len(df))], name="row")
        elif ix == "filtered":     # a view-like selection of a larger frame
            big = pd.concat([df, df.iloc[:1].assign(**{time_name: -999.0})], ignore_index=True)
            df = big[big[time_name] != -999.0]
    idx = [n for n, at in ((id_name, t["id_at"]), (time_name, t["time_at"])) if at == "index"]
    if idx:
        df = df.set_index(idx)
    return df


def build_vp(env, vp):
    if vp is None:
        return None
    out = {}
    for k, v in vp.items():
        if k == "visit_type":
            out[k] = None if v == "__none__" else v
        elif k == "df_visits":
            out[k] = build_table(env, v)
        else:
            out[k] = py_val(env, v)
    return out


def lean_design(case):
    vp = case["vp"]
    if vp is None:
        vt = "nodict"
        vp = {}
    elif "visit_type" not in vp:
        vt = "absent"
    else:
        vt = vp["visit_type"] if vp["visit_type"] in ("random", "dataframe") else "unknown"
    parts = [f"vt={vt}", f"features={lean_features(case['features'])}"]
    for k, lk in LEAN_KEYS.items():
        parts.append(f"{lk}={lean_val(vp.get(k))}")
    t = vp.get("df_visits")
    if t is None:
        parts += ["table=absent", "idat=missing", "timeat=missing", "timenull=0", "rows=_"]
    elif t == "notframe":
        parts += ["table=notframe", "idat=missing", "timeat=missing", "timenull=0", "rows=_"]
    else:
        rows = [("s" + hexs(i) if isinstance(i, str) else f"i{int(i)}") + ":" + fmt_float(float(tm)) for i, tm in t["rows"]]
        parts += ["table=frame", f"idat={t['id_at']}", f"timeat={t['time_at']}",
                  f"timenull={1 if t.get('time_null') and t['rows'] else 0}", "rows=" + fmt_list(rows, sep=";")]
    return " ".join(parts)


# ---------------------------------------------------------------------------------------------- documented requirements
def is_num(e):
    return e in ("nan", "pinf", "ninf") or (isinstance(e, dict) and ("i" in e or "f" in e))


def num(e):
    if e == "nan":
        return float("nan")
    if e == "pinf":
        return float("inf")
    if e == "ninf":
        return float("-inf")
    return e["i"] if "i" in e else e["f"]


def documented(case):
    """The documented requirements (class docstring, error messages, docs/algorithms.md), written independently
    of the implementation and of the Lean table.  Returns (valid, reasons)."""
    reasons = []
    f = case["features"]
    if isinstance(f, str):
        reasons.append("features is not a list")
    elif len(f) == 0:
        reasons.append("features is empty")
    else:
        for x in f:
            if not isinstance(x, str):
                reasons.append("a feature is not a string")
            elif not x.strip():
                reasons.append("a feature is blank")
    vp = case["vp"]
    if vp is None:
        return False, reasons + ["no visit_parameters"]
    vt = vp.get("visit_type", "__absent__")
    if vt == "__absent__":
        return False, reasons + ["no visit_type"]
    if vt == "random":
        for k in RANDOM_KEYS:
            if k not in vp:
                reasons.append(f"missing {k}")
        pn = vp.get("patient_number")
        if pn is not None and not (isinstance(pn, dict) and "i" in pn and pn["i"] > 0):
            reasons.append("patient_number is not a positive integer")
        for k in RANDOM_KEYS[1:]:
            v = vp.get(k)
            if v is None:
                continue
            if not is_num(v) or v == "nan":
                reasons.append(f"{k} is not a number")
            elif k.endswith("_std") and not num(v) >= 0:
                reasons.append(f"{k} is negative")
            elif k == "distance_visit_mean" and not num(v) > 0:
                reasons.append(f"{k} is not positive")
        ms = vp.get("min_spacing_between_visits")
        if ms is not None:
            if not is_num(ms) or ms == "nan":
                reasons.append("min_spacing_between_visits is not a number")
            elif not num(ms) >= 0:
                reasons.append("min_spacing_between_visits is negative")
    elif vt == "dataframe":
        t = vp.get("df_visits")
        if t is None:
            reasons.append("missing df_visits")
        elif t == "notframe":
            reasons.append("df_visits is not a DataFrame")
        else:
            if t["id_at"] != "column" or t["time_at"] != "column":
                reasons.append("df_visits lacks column ID or TIME")
            elif t.get("time_null") and t["rows"]:
                reasons.append("null TIME")
    else:
        reasons.append("unknown visit_type")
    return (not reasons), reasons


def nonfinite_params(case):
    vp = case["vp"] or {}
    return [k for k in RANDOM_KEYS + ["min_spacing_between_visits"] if vp.get(k) in ("nan", "pinf", "ninf")]


def f16e_expected_class(case):
    """F16e region: something `__init__`/`_set_param_study` reads before validation is missing or malformed."""
    vp = case["vp"]
    if vp is None:
        return "TypeError"
    if "visit_type" not in vp:
        return "KeyError"
    if vp["visit_type"] == "random" and any(k not in vp for k in RANDOM_KEYS):
        return "KeyError"
    if vp["visit_type"] == "dataframe":
        t = vp.get("df_visits")
        if t is None:
            return "KeyError"
        if t == "notframe":
            return "AttributeError"
        if t["id_at"] == "missing":
            return "KeyError"
    return None


def f16f_region(env, case):
    f = case["features"]
    if isinstance(f, str) or not all(isinstance(x, str) for x in f):
        return False
    dim = env.info(case["model"])[0]
    return len(f) != dim or len(set(f)) != len(f)


def f130_region(case):
    """F130: visit table whose ID column is categorical with a category that no row carries."""
    t = (case["vp"] or {}).get("df_visits")
    return (case["vp"] or {}).get("visit_type") == "dataframe" and isinstance(t, dict) and bool(t["rows"]) \
        and t.get("id_dtype") == "category" and bool(t.get("unused_category")) and t["id_at"] == "column"


def f16g_region(case):
    vp = case["vp"] or {}
    t = vp.get("df_visits")
    return vp.get("visit_type") == "dataframe" and isinstance(t, dict) and len(t["rows"]) == 0


# ---------------------------------------------------------------------------------------------- implementation side
def err_class(env, e):
    return "err:algo" if isinstance(e, env.LAIE) else f"err:other:{type(e).__name__}"


def run_constructor(env, case):
    """`BaseModel._get_algorithm` only (what `model.simulate` does before `algorithm.run`)."""
    before = env.rng_fingerprint()
    try:
        with core.quiet():
            env.BaseModel._get_algorithm("simulate", None, None, features=build_features(case["features"], case.get("feat_type"), env),
                                         visit_parameters=build_vp(env, case["vp"]), seed=case.get("seed", 0))
        out = "ok"
    except Exception as e:  # noqa
        out = err_class(env, e)
    return out, env.rng_fingerprint() == before


ENTRIES = ("kwargs", "enum", "settings", "settings_twice", "settings_path", "factory", "class", "run_twice")


def call_simulate(env, model, case, feats, vp, rec):
    """The public ways to the same simulation.  `*_twice`: the first use is not recorded, the design must be honoured by the second."""
    from leaspy.algo import AlgorithmName, AlgorithmSettings, algorithm_factory
    entry, seed = case.get("entry", "kwargs"), case["seed"]
    if entry == "kwargs":
        return model.simulate(algorithm="simulate", seed=seed, features=feats, visit_parameters=vp)
    if entry == "enum":
        return model.simulate(algorithm=AlgorithmName.SIMULATE, seed=seed, features=feats, visit_parameters=vp)
    settings = AlgorithmSettings("simulate", seed=seed, features=feats, visit_parameters=vp)
    if entry == "settings":
        return model.simulate(algorithm_settings=settings)
    if entry == "settings_twice":
        model.simulate(algorithm_settings=settings)
        rec.reset()
        return model.simulate(algorithm_settings=settings)
    if entry == "settings_path":
        path = os.path.join(env.tmp, "settings.json")
        settings.save(path)
        return model.simulate(algorithm_settings_path=path)
    if entry == "factory":
        return algorithm_factory(settings).run(model)
    if entry == "class":
        return env.simmod.SimulationAlgorithm(settings).run(model)
    if entry == "run_twice":
        algo = algorithm_factory(settings)
        algo.run(model)
        rec.reset()
        return algo.run(model)
    raise ValueError(entry)


@contextlib.contextmanager
def ambient(env, what):
    """Process state a caller may have set before simulating (objects are built beforehand)."""
    if what == "f64":
        old = env.torch.get_default_dtype()
        env.torch.set_default_dtype(env.torch.float64)
        try:
            yield
        finally:
            env.torch.set_default_dtype(old)
    elif what == "cow":
        old = env.pd.get_option("mode.copy_on_write")
        env.pd.set_option("mode.copy_on_write", True)
        try:
            yield
        finally:
            env.pd.set_option("mode.copy_on_write", old)
    else:
        yield


def run_simulate(env, case, budget):
    """Real `model.simulate`; returns dict(outcome, result, recorder, rng_untouched, message)."""
    model = env.model_for(case)
    feats = build_features(case["features"], case.get("feat_type"), env)
    vp = build_vp(env, case["vp"])
    sc = case.get("script")
    mk_script = (lambda: Script(env, sc["seed"], sc["p"], env.info(case["model"])[1])) if sc else (lambda: None)
    rec = Recorder(env, mk_script)
    before = env.rng_fingerprint()
    res = dict(outcome=None, result=None, rec=rec, message="")
    try:
        with rec.installed(), core.quiet(), alarm(budget), ambient(env, case.get("ambient")):
            res["result"] = call_simulate(env, model, case, feats, vp, rec)
        res["outcome"] = "ok"
    except Timeout:
        res["outcome"] = "timeout"
    except Exception as e:  # noqa
        res["outcome"] = err_class(env, e)
        res["message"] = f"{type(e).__name__}: {str(e)[:160]}"
    res["rng_untouched"] = (env.rng_fingerprint() == before) and rec.n_normal == 0 and rec.n_beta == 0
    return res


def observed_individuals(env, result):
    """{id: [ages]} of Result.data (insertion order of the data object)."""
    out = {}
    for idx, ind in result.data.individuals.items():
        out[idx] = [float(t) for t in ind.timepoints]
    return out


def canon_impl(env, res):
    if res["outcome"] != "ok":
        return res["outcome"]
    try:
        obs = observed_individuals(env, res["result"])
    except Exception as e:  # noqa  (already reported by the predicate)
        return f"ok unreadable-result:{type(e).__name__}"
    items = sorted(((str(k), v) for k, v in obs.items()), key=lambda kv: kv[0])
    # an age of -0.0 (a small negative age rounded to 0 decimals) is the age 0: the sign of zero is not compared
    return "ok ind=" + fmt_list([hexs(k) + ":" + fmt_list([fmt_float(a + 0.0) for a in v]) for k, v in items], sep=";")


def canon_model(resp):
    if not resp.startswith("ok "):
        return resp, None
    parts = dict(p.split("=", 1) for p in resp.split(" ")[1:])
    inds = core.split_ne(parts["ind"], ";")
    inds = sorted(inds, key=lambda s: bytes.fromhex(s.split(":")[0]).decode("utf-8"))
    neg_zero = "f9223372036854775808"
    inds = [i.split(":")[0] + ":" + ",".join("f0" if t == neg_zero else t for t in i.split(":", 1)[1].split(",")) for i in inds]
    return "ok ind=" + fmt_list(inds, sep=";"), parts


def expected_precision(case):
    vp = case["vp"]
    if vp.get("visit_type") != "random" or "min_spacing_between_visits" not in vp:
        ms = 1 / 365
    else:
        ms = num(vp["min_spacing_between_visits"])
    for p, unit in ((0, 1), (1, 0.1), (2, 0.01), (3, 0.001)):
        if unit <= ms:
            return p
    return 3  # documented finest unit ("~1 day"); F13 repair


def predicate_on_output(env, case, res):
    """The property's own predicate on a completed run (independent of the Lean model)."""
    np = env.np
    fails = []
    result = res["result"]
    vp = case["vp"]
    dim, src, _ = env.info(case["model"])
    feats = [str(f) for f in build_features(case["features"], None, env)]
    try:
        obs = observed_individuals(env, result)
        df = result.data.to_dataframe()
    except Exception as e:  # noqa
        return [f"result data cannot be read: {type(e).__name__}: {e}"]
    p = expected_precision(case)
    if vp["visit_type"] == "random":
        n = vp["patient_number"]["i"]
        want_ids = [str(i) for i in range(n)]
        if sorted(map(str, obs)) != sorted(want_ids):
            fails.append(f"requested {n} individuals, got ids {sorted(map(str, obs))[:8]} ({len(obs)})")
    else:
        rows = vp["df_visits"]["rows"]
        want_ids = sorted({str(r[0]) for r in rows})
        if sorted(map(str, obs)) != want_ids:
            fails.append(f"table individuals {want_ids[:8]} but result has {sorted(map(str, obs))[:8]}")
        for i in want_ids:
            want = sorted({float(np.round(np.float64(r[1]), 3)) for r in rows if str(r[0]) == i})
            got = obs.get(i)
            if got is None:
                got = next((v for k, v in obs.items() if str(k) == i), None)
            if got is not None and sorted(got) != want:
                fails.append(f"individual {i}: ages {got[:6]} are not the table's ages rounded to 3 decimals {want[:6]}")
    # the reported ages of every individual are its generated ages, rounded, each once, in increasing order
    gen = getattr(res.get("rec"), "generated_ages", None)
    if gen:
        for i, g in gen.items():
            want = sorted({float(np.round(np.float64(a), p)) + 0.0 for a in g})
            got = next((v for k, v in obs.items() if str(k) == str(i)), None)
            if got is None:
                fails.append(f"individual {i} has generated visit ages {g[:4]} but is absent from the simulated data")
            elif [a + 0.0 for a in got] != want:
                fails.append(f"individual {i}: reported ages {got[:6]} are not its generated ages rounded to {p} decimals {want[:6]}")
    for i, ages in obs.items():
        if len(ages) == 0:
            fails.append(f"individual {i} has no visit")
        if any(not (a < b) for a, b in zip(ages, ages[1:])):
            fails.append(f"individual {i}: ages not unique and strictly increasing: {ages[:8]}")
        if any(not math.isfinite(a) for a in ages):
            fails.append(f"individual {i}: non-finite age")
        elif any(float(np.round(np.float64(a), p)) != a for a in ages):
            fails.append(f"individual {i}: ages not rounded to {p} decimals: {ages[:6]}")
    # values
    cols = [c for c in df.columns if c not in ("ID", "TIME")]
    if cols != list(feats):
        fails.append(f"columns {cols} are not the requested features {list(feats)}")
    else:
        vals = df[cols].to_numpy(dtype=float)
        if not np.isfinite(vals).all():
            fails.append("non-finite simulated value")
        elif ((vals < 0) | (vals > 1)).any():
            fails.append("simulated value outside [0,1]")
    # one set of individual parameters per individual
    ip = result.individual_parameters
    try:
        ip_ids = [str(i) for i in ip.index]
        if sorted(ip_ids) != sorted(map(str, obs)) or len(set(ip_ids)) != len(ip_ids):
            fails.append(f"individual parameters reported for {ip_ids[:8]} but individuals are {sorted(map(str, obs))[:8]}")
        need = ["xi", "tau"] + [f"sources_{k}" for k in range(src)]
        missing = [c for c in need if c not in ip.columns]
        if missing:
            fails.append(f"individual parameters lack {missing}")
        else:
            arr = np.array([[float(ip.loc[i, c]) for c in need] for i in ip.index], dtype=float)
            if not np.isfinite(arr).all():
                fails.append("non-finite individual parameter")
    except Exception as e:  # noqa
        fails.append(f"individual parameters cannot be read: {type(e).__name__}: {e}")
    return fails


def random_design_semantics(env, case, res):
    """Documented meaning of a random design, evaluated on the ages `_generate_visit_ages` returned and the normal draws the run
    consumed (independent of the Lean model): the first visit of individual i is at onset_i + N(first_visit_mean, first_visit_std),
    visits follow at steps N(distance_visit_mean, distance_visit_std) while the age is below first visit + |N(time_follow_up_mean,
    time_follow_up_std)|, individuals are served in order and every step draw is used."""
    rec = res.get("rec")
    vp = case["vp"]
    gen = getattr(rec, "generated_ages", None)
    if vp.get("visit_type") != "random" or not gen or rec is None or rec.n_normal != len(rec.normal):
        return []
    n, src = vp["patient_number"]["i"], env.info(case["model"])[1]
    calls = rec.normal
    k = 4 + src
    if not (len(calls) >= k and all(c[0] == n for c in calls[:k]) and all(c[0] is None for c in calls[k:])):
        return []   # (reported by the correspondence as a layout difference)
    tau, fv, fu = ([float(x) for x in calls[j][1]] for j in (1, 2 + src, 3 + src))
    steps = [float(c[1]) for c in calls[k:]]
    if sorted(gen, key=int) != [str(i) for i in range(n)]:
        return [f"visit ages were generated for {sorted(gen)[:6]}, the design asks for individuals 0..{n - 1}"]
    pos = 0
    for i in range(n):
        t = tau[i] + fv[i]
        end = t + abs(fu[i])
        want = [t]
        while t < end and pos < len(steps):
            t = t + steps[pos]
            pos += 1
            want.append(t)
        got = gen[str(i)]
        if got != want:
            j = next((a for a, (x, y) in enumerate(zip(got, want)) if x != y), min(len(got), len(want)))
            return [f"individual {i}: generated ages {got[:3]}…(#{len(got)}) differ at position {j} from onset + first-visit draw "
                    f"followed by the step draws up to the follow-up {want[:3]}…(#{len(want)}) [onset {tau[i]!r}, first visit {fv[i]!r}, "
                    f"follow-up {fu[i]!r}]"]
    if pos != len(steps):
        return [f"{len(steps) - pos} of the {len(steps)} step draws were not used for any visit"]
    return []


def judge(env, case, outcome, rng_untouched, res=None):
    """Property predicate for one case. Returns list of (what, finding-id-or-None)."""
    valid, reasons = documented(case)
    out = []
    oclass = outcome.split(":")[-1] if outcome.startswith("err:other:") else None
    nonfin = nonfinite_params(case)
    if not valid:
        if outcome == "err:algo":
            if not rng_untouched:
                out.append(("design refused, but only after random numbers were drawn", None))
            return out
        fid = None
        vp_ = case["vp"] or {}
        nan_params = [k for k in nonfin if vp_.get(k) == "nan"]
        if oclass is not None and f16e_expected_class(case) == oclass:
            fid = "F16e"
        elif reasons and outcome != "timeout" and all(
                any(r.startswith(k) and "not a number" in r for k in nan_params) for r in reasons):
            fid = "F16h"   # nan passes every `<` test
        out.append((f"design violating the documented requirements ({'; '.join(reasons[:3])}) is not refused with "
                    f"LeaspyAlgoInputError: {outcome}" + (f" [{res['message']}]" if res and res.get("message") else ""), fid))
        return out
    # documented-valid design
    if outcome == "ok":
        if res is not None:
            out += [(w, None) for w in predicate_on_output(env, case, res)]
            out += [(w, None) for w in random_design_semantics(env, case, res)]
        return out
    fid = None
    if outcome == "err:other:ValueError":
        if f16f_region(env, case):
            fid = "F16f"
        elif f16g_region(case):
            fid = "F16g"
        elif f130_region(case) and res is not None and "columns passed" in res.get("message", ""):
            fid = "F130"
        elif nonfin:
            fid = "F16h"
    elif nonfin and [k for k in nonfin if k != "min_spacing_between_visits"]:
        fid = "F16h"
    what = "refused" if outcome == "err:algo" else ("did not complete within the wall-clock budget" if outcome == "timeout" else "aborted")
    out.append((f"design satisfying the documented requirements {what}: {outcome}"
                + (f" [{res['message']}]" if res and res.get("message") else ""), fid))
    return out


# ---------------------------------------------------------------------------------------------- model side
def run_line(env, case, res):
    dim, src, _ = env.info(case["model"])
    tau = fv = fu = steps = []
    layout_ok = True
    rec = res["rec"] if res else None
    vp = case["vp"] or {}
    pn = vp.get("patient_number")
    if res is not None and vp.get("visit_type") == "random" and isinstance(pn, dict) and "i" in pn \
            and res["outcome"] not in ("err:algo", "timeout"):
        n = pn["i"]
        calls = rec.normal
        k = 4 + src
        head_ok = len(calls) >= k and all(c[0] == n for c in calls[:k]) and all(c[0] is None for c in calls[k:])
        if not head_ok or rec.n_normal != len(calls):
            # a run that aborted before the visit ages were drawn has no complete record (sent without draws)
            layout_ok = res["outcome"] != "ok"
        else:
            tau = [float(x) for x in calls[1][1]]
            fv = [float(x) for x in calls[2 + src][1]]
            fu = [float(x) for x in calls[3 + src][1]]
            steps = [float(c[1]) for c in calls[k:]]
    f = lambda xs: fmt_list([fmt_float(x) for x in xs])
    return (f"run {lean_design(case)} dim={dim} src={src} tau={f(tau)} fv={f(fv)} fu={f(fu)} steps={f(steps)}", layout_ok)


def compare_runs(chk, env, cases, results):
    lines, layout = [], []
    for c, r in zip(cases, results):
        ln, ok = run_line(env, c, r)
        lines.append(ln)
        layout.append(ok)
    out = chk.model(lines)
    for c, r, resp, lay in zip(cases, results, out, layout):
        if r["outcome"] == "timeout":
            chk.tag("model_vs_timeout", resp.split(" ")[0])
            continue
        if f130_region(c) and r["outcome"] == "err:other:ValueError" and "columns passed" in r.get("message", ""):
            # F130 (repair in fixes/F130.patch): the model describes the repaired behaviour; on a tree where the finding is still
            # open the failure has been reported as KNOWN-FINDING by `judge`, the outcomes are not compared
            chk.tag("f130_open", 1)
            continue
        impl = canon_impl(env, r)
        if not lay:
            chk.disagree(c, impl[:300], "?", "layout of numpy.random.normal calls differs from the modelled one (xi, tau, sources…, first visit, follow-up, then scalars)")
            continue
        mod, parts = canon_model(resp)
        if impl != mod:
            chk.disagree(c, impl[:600], mod[:600], "outcome / final visit ages (float64 bits)")
        elif parts is not None and parts.get("unused") != "0":
            chk.disagree(c, "all recorded draws consumed", resp[:200], "number of step draws consumed")


def compare_validation(chk, env, cases, outcomes):
    lines = ["validate " + lean_design(c) for c in cases]
    out = chk.model(lines)
    for c, o, resp in zip(cases, outcomes, out):
        if o != resp:
            chk.disagree(c, o, resp, "constructor outcome vs validation table")


# ---------------------------------------------------------------------------------------------- generators
def I(n):
    return {"i": n}


def F(x):
    return {"f": float(x)}


BASE = dict(visit_type="random", patient_number=I(5), first_visit_mean=F(0.0), first_visit_std=F(0.4),
            time_follow_up_mean=I(3), time_follow_up_std=F(0.5), distance_visit_mean=F(0.5), distance_visit_std=F(0.1))
VALS = [None, I(3), I(0), I(-2), F(1.5), F(0.0), F(-0.5), "nan", "pinf", "ninf", {"o": "str"}, {"o": "none"},
        {"o": "numstr"}, {"o": "list"}, {"o": "npint"},
        # numpy.float64 IS a python float; the other numeric kinds are neither int nor float
        {"f": 1.5, "np": 1}, {"f": 0.0, "np": 1}, {"f": -0.5, "np": 1}, {"o": "npfloat32"}, {"o": "npint32"}, {"o": "fraction"},
        {"o": "decimal"}, {"o": "complex"}, {"o": "nparray"}, {"o": "tensor"}]
SPACINGS = [None, I(0), I(1), I(5), F(0.0), F(1e-4), F(0.0009999), F(0.001), F(0.00273), F(1 / 365), F(0.01),
            F(0.0099), F(0.05), F(0.1), F(0.09999), F(0.5), F(1.0), F(0.9999), F(2.5)]
FEATURE_BAD = ["notlist:tuple", "notlist:none", "notlist:str", [], ["Y0", 1], ["Y0", " "], ["", "Y1"], ["\t\n", "Y1"],
               "notlist:set", "notlist:dict", "notlist:array", "notlist:index", "notlist:series", ["Y0", "Y1", "Y2", "\r\x0b\x0c "]]


def table(rows, id_at="column", time_at="column", time_null=False):
    return dict(rows=[list(r) for r in rows], id_at=id_at, time_at=time_at, time_null=time_null)


def validation_cases(chk):
    rng = chk.rng
    feats = ["Y0", "Y1", "Y2", "Y3"]
    cases = []

    def add(vp, features=feats):
        cases.append(dict(kind="validate", model="logistic_diag_noise", features=features, vp=vp, seed=0))

    add(dict(BASE))
    add(None)
    # one parameter at a time over every kind of value
    for k in RANDOM_KEYS + ["min_spacing_between_visits"]:
        for v in VALS:
            vp = dict(BASE)
            if v is None:
                vp.pop(k, None)
            else:
                vp[k] = v
            add(vp)
    # the mean/std decision: every sign combination (incl. the or/and boundary)
    for m in (I(1), I(0), I(-1), F(0.25), F(0.0), F(-0.25), "nan", "pinf", "ninf"):
        for s in (I(1), I(0), I(-1), F(0.25), F(0.0), F(-0.25), "nan", "pinf", "ninf", {"o": "str"}):
            vp = dict(BASE)
            vp["distance_visit_mean"], vp["distance_visit_std"] = m, s
            add(vp)
    for ms in SPACINGS + [F(-1e-9), I(-1), "nan", "pinf", "ninf"]:
        vp = dict(BASE)
        if ms is not None:
            vp["min_spacing_between_visits"] = ms
        add(vp)
    for vt in ("regular", "__none__", "Random", "dataframe", None):
        vp = dict(BASE)
        if vt is None:
            vp.pop("visit_type")
        else:
            vp["visit_type"] = vt
        add(vp)
    for fb in FEATURE_BAD + [["a"], ["Y0", "Y0"], ["x y", "z"]]:
        add(dict(BASE), fb)
        add(dict(visit_type="dataframe", df_visits=table([["a", 70.0], ["b", 71.0]])), fb)
        bad = dict(BASE)
        bad.pop("first_visit_std")
        add(bad, fb)
    rows = [["a", 70.0], ["a", 71.5], ["b", 66.0]]
    for id_at in ("column", "index", "missing"):
        for time_at in ("column", "index", "missing"):
            for tn in (False, True):
                add(dict(visit_type="dataframe", df_visits=table(rows, id_at, time_at, tn)))
    add(dict(visit_type="dataframe"))
    add(dict(visit_type="dataframe", df_visits="notframe"))
    add(dict(visit_type="dataframe", df_visits=table([])))
    add(dict(visit_type="dataframe", df_visits=table([[1, 70.0], [2, 71]])))
    add(dict(visit_type="dataframe", df_visits=table(rows), patient_number={"o": "str"}, min_spacing_between_visits=F(-1)))
    # random combinations
    n_rand = 8000 if chk.tier == "thorough" else 600
    for _ in range(n_rand):
        vp = dict(BASE)
        for k in rng.sample(RANDOM_KEYS + ["min_spacing_between_visits"], rng.choice([1, 2, 2, 3, 4])):
            v = rng.choice(VALS)
            if v is None:
                vp.pop(k, None)
            else:
                vp[k] = v
        f = feats if rng.random() < 0.85 else rng.choice(FEATURE_BAD)
        add(vp, f)
    return cases


def decorate(rng, case):
    """How the same design reaches the implementation: which model object, which entry point, which process state, which
    numeric / string types.  (Absent keys = the plain defaults, so recorded cases keep their meaning.)"""
    case["model_obj"] = rng.choice(["shared", "shared", "shared", "fresh", "deepcopy", "saveload"])
    entries = [e for e in ENTRIES if not (e == "settings_path" and case["vp"].get("visit_type") != "random")]
    if rng.random() < 0.6:
        case["entry"] = rng.choice(entries[1:])
    r = rng.random()
    # An ambient default dtype of float64 is honoured for model objects whose derived values (mixing matrix, …) were all computed
    # beforehand - the stored files carry them, so loading computes them.  A model that still derives values lazily would derive them
    # in float64 under that ambient, and leaspy as a whole (estimate, personalize) does not mix the two precisions: not this
    # property's matter, so the synthetic models (files without derived values) are not run under it.
    if r < 0.12 and not case["model"].startswith("syn_"):
        case["ambient"] = "f64"
    elif r < 0.24:
        case["ambient"] = "cow"
    if rng.random() < 0.2:
        case["feat_type"] = rng.choice(["npstr", "strsub"])
    if rng.random() < 0.25:
        for k, v in case["vp"].items():
            if isinstance(v, dict) and "f" in v and rng.random() < 0.5:
                case["vp"][k] = dict(v, np=1)
    return case


def pick_model(rng):
    return rng.choice(MODELS) if rng.random() < 0.6 else rng.choice(SYN_MODELS)


def random_design(rng, env, thorough):
    model = pick_model(rng)
    dim, src, mfeats = env.info(model)
    u = rng.random()
    feats = list(mfeats) if u < 0.8 else [f"feat_{i}" for i in range(dim)]
    mean = rng.choice([0.1, 0.25, 0.5, 1.0, 2.0, 1 / 12, 1])
    std = rng.choice([0, 0.0, mean / 10, mean / 4, mean / 2, mean])
    fum = rng.choice([0, 0.0, 1, 2.5, 4, -2.0, 6])
    fus = rng.choice([F(0.0), I(0), F(0.5), I(1)])
    n = rng.choice([1, 1, 2, 3, 5, 8, 13] + ([40] if thorough else []))
    fvm = rng.choice([F(0.0), I(0), F(-2.5), F(1.25), I(3), I(40), F(100.0), F(-60.0)])
    fvs = rng.choice([F(0.0), I(0), F(0.4), F(1.0), I(2)])
    wide = rng.random()
    if wide < 0.07:       # many individuals
        n = rng.choice([30, 64, 65, 150] if not thorough else [64, 150, 256])
    elif wide < 0.14:     # long follow-up, close visits: hundreds of visits per individual
        mean, fum, fus = rng.choice([0.02, 0.05, 1 / 52]), rng.choice([8, 15.0, 30]), rng.choice([F(0.0), F(5.0), I(10)])
        std = rng.choice([0.0, mean / 4, mean])
        n = rng.choice([1, 2, 3])
    elif wide < 0.21:     # far from the onset on both sides (negative ages included), wide spread of first visits
        fvm, fvs = rng.choice([F(-100.0), I(-150), F(250.0), I(1000), F(-81.5)]), rng.choice([F(10.0), I(25), F(0.0)])
    elif wide < 0.26:     # sparse visits
        mean, fum = rng.choice([5, 10.0, 25]), rng.choice([30, 60.0, -40])
        std = rng.choice([0, mean / 2])
    if wide >= 0.26 and abs(fum) / mean > 60:
        fum = 2.5
    vp = dict(visit_type="random",
              patient_number=I(n),
              # around onset, and far after / before it (saturated curves: values exactly 0 or 1 in single precision)
              first_visit_mean=fvm,
              first_visit_std=fvs,
              time_follow_up_mean=I(fum) if isinstance(fum, int) else F(fum),
              time_follow_up_std=fus,
              distance_visit_mean=I(mean) if isinstance(mean, int) else F(mean),
              distance_visit_std=I(std) if isinstance(std, int) else F(std))
    ms = rng.choice(SPACINGS + [I(30), F(365.25), F(1e3), F(1e-9), F(0.002)])
    if ms is not None:
        vp["min_spacing_between_visits"] = ms
    seed = rng.choice([0, None, 2 ** 32 - 1, 1]) if rng.random() < 0.15 else rng.randrange(0, 10_000)
    return decorate(rng, dict(kind="run", model=model, features=feats, vp=vp, seed=seed))


def scripted_design(rng, env):
    """A random design whose normal draws are replaced by adversarial ones (see `Script`) at the reporting precision p."""
    model = pick_model(rng)
    dim, src, mfeats = env.info(model)
    p = rng.choice([0, 1, 2, 3])
    ms = {0: rng.choice([I(1), F(1.0), F(2.5), I(30)]), 1: rng.choice([F(0.1), F(0.5), F(0.9999)]),
          2: rng.choice([F(0.01), F(0.05), F(0.09999)]), 3: rng.choice([None, F(0.001), F(0.0), F(1 / 365), F(0.0099)])}[p]
    vp = dict(BASE, patient_number=I(rng.choice([1, 2, 4, 7])), distance_visit_std=F(0.2))
    if ms is not None:
        vp["min_spacing_between_visits"] = ms
    case = dict(kind="run", model=model, features=list(mfeats), vp=vp, seed=rng.randrange(0, 10_000),
                script=dict(seed=rng.randrange(1 << 30), p=p))
    case["model_obj"] = rng.choice(["shared", "fresh"])
    return case


TABLE_IDS = ["p1", "p2", "a", "b", "sub-10", "07", "x y", "z", "10", "9", "2", "\u00e9", "\u65e5\u672c", "A", "a ", "id" * 40, "1e3", "-1", "nan", "None"]


def table_design(rng, env):
    model = pick_model(rng)
    dim, src, mfeats = env.info(model)
    n_ind = rng.choice([1, 1, 2, 3, 5, 5, 12, 30])
    int_ids = rng.random() < 0.35
    if int_ids:
        ids = rng.sample(list(range(0, 40)) + [-1, -7, 10 ** 12, 2 ** 31 - 1, 100, 1000], n_ind)
    else:
        ids = rng.sample(TABLE_IDS + [f"s{k}" for k in range(20)], n_ind)
    rows = []
    for i in ids:
        t = rng.choice([55.0, 62.5, 70.0, 81.25, 81.25, 110.0, 180.0, 5.0, 0.0, -3.0, 1000.0, 250.5]) + rng.randrange(0, 1000) / 1000
        for _ in range(rng.choice([1, 2, 3, 4, 6, 12])):
            kind = rng.random()
            if kind < 0.25 and rows and rows[-1][0] == i:
                t2 = rows[-1][1] + rng.choice([0.0, 0.0001, 0.0004, 0.0005, 0.00049, 0.001, -0.0003])   # near duplicate
            elif kind < 0.4:
                t2 = round(t, 2) + rng.choice([0.0005, 0.0015, 0.0025, 0.0035])   # half-way for rint
            elif kind < 0.5:
                t2 = float(int(t))
            elif kind < 0.6:
                t2 = t + rng.random() * 1e-6      # ages computed from dates: many decimals
            else:
                t2 = t
            rows.append([i, t2])
            t += rng.choice([0.5, 1.0, 0.25, 1 / 12, 0.001, 0.0007])
    order = rng.random()
    if order < 0.4:
        rng.shuffle(rows)
    elif order < 0.55:
        rows.sort(key=lambda r: -r[1])           # latest visit first
    elif order < 0.7:
        rows.sort(key=lambda r: r[1])            # by age, individuals interleaved
    tb = {}
    u = rng.random()
    if u < 0.1:
        rows = [[i, int(t)] for i, t in rows]
        tb["time_dtype"] = rng.choice([None, "int64", "int32", "object"])
    elif u < 0.25:
        np = env.np
        rows = [[i, float(np.float32(t))] for i, t in rows]     # the ages ARE single-precision numbers
        tb["time_dtype"] = "float32"
    elif u < 0.32:
        tb["time_dtype"] = "object"
    v = rng.random()
    if v < 0.12:
        tb["id_dtype"] = "category"
        if rng.random() < 0.4:
            tb["unused_category"] = True
    elif v < 0.2 and not int_ids:
        tb["id_dtype"] = "string"
    elif v < 0.2 and int_ids and all(abs(i) < 2 ** 31 for i in ids):
        tb["id_dtype"] = "int32"
    if rng.random() < 0.2:
        tb["extra_cols"] = True
    if rng.random() < 0.3:
        tb["index"] = rng.choice(["gaps", "dup", "named"] + (["filtered"] if not tb.get("time_dtype") else []))
    vp = dict(visit_type="dataframe", df_visits=dict(table(rows), **{k: v for k, v in tb.items() if v}))
    if rng.random() < 0.2:
        vp["min_spacing_between_visits"] = rng.choice([F(0.1), F(1.0), I(1), F(-1)])   # ignored for tables
    return decorate(rng, dict(kind="run", model=model, features=list(mfeats), vp=vp, seed=rng.randrange(0, 10_000)))


def fixed_run_cases(env):
    """Edge designs always run: spacing edge values on every model, findings' regions, refusals through simulate()."""
    cases = []
    for m in MODELS:
        dim, src, mf = env.info(m)
        for ms in (F(0.0), F(1e-4), F(0.001), F(0.1), I(1), None):
            vp = dict(BASE, patient_number=I(2))
            if ms is not None:
                vp["min_spacing_between_visits"] = ms
            cases.append(dict(kind="run", model=m, features=list(mf), vp=vp, seed=11))
        cases.append(dict(kind="run", model=m, features=list(mf), vp=dict(BASE, patient_number=I(1)), seed=12))
        cases.append(dict(kind="run", model=m, features=list(mf), vp=dict(BASE, distance_visit_std=F(0.0)), seed=13))
        cases.append(dict(kind="run", model=m, features=list(mf),
                          vp=dict(visit_type="dataframe", df_visits=table([[3, 70.0], [3, 70.0004], [3, 71.0015], [12, 66]])), seed=14))
        cases.append(dict(kind="run", model=m, features=list(mf),
                          vp=dict(visit_type="dataframe", df_visits=table([["solo", 70.25]])), seed=15))
    mf = env.info("logistic_diag_noise")[2]
    D = "logistic_diag_noise"
    # refusals through the whole call (nothing may be generated)
    for over in (dict(distance_visit_mean=F(-1.0)), dict(distance_visit_mean=I(0)), dict(distance_visit_mean=F(0.0), distance_visit_std=F(0.0)),
                 dict(patient_number=I(0)), dict(first_visit_std=F(-0.1)), dict(min_spacing_between_visits=F(-1.0)),
                 dict(patient_number={"o": "numstr"}), dict(first_visit_std={"o": "none"}), dict(visit_type="regular")):
        cases.append(dict(kind="run", model=D, features=list(mf), vp=dict(BASE, **over), seed=16))
    cases.append(dict(kind="run", model=D, features=[], vp=dict(BASE), seed=16))
    cases.append(dict(kind="run", model=D, features=list(mf), vp=dict(visit_type="dataframe", df_visits=table([["a", 70.0], ["b", 71.0]], time_null=True)), seed=16))
    cases.append(dict(kind="run", model=D, features=list(mf), vp=dict(visit_type="dataframe", df_visits=table([["a", 70.0]], time_at="missing")), seed=16))
    # the same refusals through the other entry points, on the shared model object (nothing may be generated there either)
    for k, (over, entry) in enumerate([(dict(distance_visit_mean=F(-1.0)), "settings"), (dict(patient_number=I(0)), "factory"),
                                       (dict(first_visit_std=F(-0.1)), "class"), (dict(patient_number=F(2.5)), "settings_path"),
                                       (dict(patient_number={"o": "npint"}), "enum"), (dict(min_spacing_between_visits=F(-1.0)), "run_twice"),
                                       (dict(time_follow_up_std={"o": "npfloat32"}), "settings_twice"), (dict(visit_type="regular"), "factory")]):
        cases.append(dict(kind="run", model=D, features=list(mf), vp=dict(BASE, **over), seed=17 + k, entry=entry, model_obj="shared"))
    # every entry point, model object and process state at least once per run, on a plain design and on a table
    tab = table([["b", 70.0004], ["a", 66.5], ["b", 70.0], ["a", 66.5004], ["c", 0.0]])
    for k, entry in enumerate(ENTRIES):
        for j, vp in enumerate((dict(BASE, patient_number=I(3)), dict(visit_type="dataframe", df_visits=tab))):
            if entry == "settings_path" and j == 1:
                continue
            cases.append(dict(kind="run", model=MODELS[(k + j) % len(MODELS)], features=list(env.info(MODELS[(k + j) % len(MODELS)])[2]),
                              vp=vp, seed=30 + k, entry=entry, model_obj=["shared", "deepcopy", "saveload", "fresh"][(k + j) % 4],
                              ambient=[None, "f64", "cow"][(k + j) % 3]))
    for m in SYN_MODELS:
        cases.append(dict(kind="run", model=m, features=list(env.info(m)[2]), vp=dict(BASE, patient_number=I(4)), seed=40, model_obj="shared"))
        cases.append(dict(kind="run", model=m, features=list(env.info(m)[2]), vp=dict(BASE, patient_number=I(1), first_visit_mean=F(60.0)), seed=41,
                          model_obj="shared", entry="run_twice"))
    return cases


FINDING_WITNESSES = {
    "F16e": dict(kind="run", model="logistic_diag_noise", features=["Y0", "Y1", "Y2", "Y3"],
                vp={k: v for k, v in BASE.items() if k != "first_visit_mean"}, seed=1),
    "F16f": dict(kind="run", model="logistic_diag_noise", features=["Y0", "Y1"], vp=dict(BASE), seed=1),
    "F16g": dict(kind="run", model="logistic_diag_noise", features=["Y0", "Y1", "Y2", "Y3"],
                vp=dict(visit_type="dataframe", df_visits=table([])), seed=1),
    "F16h": dict(kind="run", model="logistic_diag_noise", features=["Y0", "Y1", "Y2", "Y3"],
                vp=dict(BASE, first_visit_mean="nan"), seed=1),
    "F130": dict(kind="run", model="logistic_diag_noise", features=["Y0", "Y1", "Y2", "Y3"],
                 vp=dict(visit_type="dataframe", df_visits=dict(table([["a", 70.1], ["a", 71.5], ["b", 66.0]]), id_dtype="category",
                                                                unused_category=True)), seed=1),
}
EXTRA_FINDING_CASES = [
    dict(kind="run", model="logistic_diag_noise", features=["Y0", "Y1", "Y2", "Y3"], vp=None, seed=1),
    dict(kind="run", model="logistic_diag_noise", features=["Y0", "Y1", "Y2", "Y3"], vp={k: v for k, v in BASE.items() if k != "visit_type"}, seed=1),
    dict(kind="run", model="logistic_diag_noise", features=["Y0", "Y1", "Y2", "Y3"], vp=dict(visit_type="dataframe", df_visits="notframe"), seed=1),
    dict(kind="run", model="logistic_diag_noise", features=["Y0", "Y1", "Y2", "Y3"], vp=dict(visit_type="dataframe", df_visits=table([["a", 70.0]], id_at="missing")), seed=1),
    dict(kind="run", model="logistic_diag_noise", features=["Y0", "Y1", "Y2", "Y3", "Y4"], vp=dict(BASE), seed=1),
    dict(kind="run", model="logistic_diag_noise_custom", features=["Y0", "Y1", "Y1", "Y3"], vp=dict(BASE), seed=1),
    dict(kind="run", model="univariate_logistic", features=["Y0", "Y1"], vp=dict(visit_type="dataframe", df_visits=table([["a", 70.0]])), seed=1),
    dict(kind="run", model="logistic_diag_noise", features=["Y0", "Y1", "Y2", "Y3"], vp=dict(BASE, distance_visit_mean="nan"), seed=1),
    dict(kind="run", model="logistic_diag_noise", features=["Y0", "Y1", "Y2", "Y3"], vp=dict(BASE, time_follow_up_mean="nan"), seed=1),
    dict(kind="run", model="logistic_diag_noise", features=["Y0", "Y1", "Y2", "Y3"], vp=dict(BASE, min_spacing_between_visits="nan"), seed=1),
    dict(kind="run", model="logistic_diag_noise", features=["Y0", "Y1", "Y2", "Y3"], vp=dict(BASE, min_spacing_between_visits="pinf"), seed=1),
]


# ---------------------------------------------------------------------------------------------- driver
def exec_run_case(chk, env, case, budget):
    res = run_simulate(env, case, budget)
    if res["outcome"] == "timeout":
        # candidate non-termination: replay once with a larger budget before reporting
        res2 = run_simulate(env, case, 3 * budget)
        chk.tag("timeouts", "confirmed" if res2["outcome"] == "timeout" else "slow-run")
        res = res2
    return res


def record_run(chk, env, case, res):
    vp = case["vp"] or {}
    for what, fid in judge(env, case, res["outcome"], res["rng_untouched"], res):
        chk.impl_failure(case, what, finding=fid)
    valid, _ = documented(case)
    n_ages = 0
    dedup = False
    if res["outcome"] == "ok":
        try:
            obs = observed_individuals(env, res["result"])
            n_ages = sum(len(v) for v in obs.values())
            if vp.get("visit_type") == "random":
                raw = res["rec"].n_normal - (4 + env.info(case["model"])[1]) + len(obs)
                dedup = raw > n_ages
            else:
                dedup = len(vp["df_visits"]["rows"]) > n_ages
        except Exception:  # noqa
            pass
    chk.case(("run", repr(case)), nontrivial=(not valid) or n_ages >= 2,
             sample=case if (dedup or not valid) and len(chk.samples) < 4 else None,
             tags={"kind": "run:" + str(vp.get("visit_type", "none")), "outcome": res["outcome"].replace("err:other:", ""),
                   "model": case["model"], "precision": expected_precision(case) if valid else "-",
                   "rounding_merged_visits": dedup, "documented_valid": valid, "entry": case.get("entry", "kwargs"),
                   "model_obj": case.get("model_obj", "fresh"), "ambient": case.get("ambient") or "-",
                   "scripted_draws": bool(case.get("script")),
                   "table_layout": "+".join(sorted(f"{k}={v}" for k, v in (vp.get("df_visits") or {}).items()
                                                   if k in ("time_dtype", "id_dtype", "extra_cols", "index", "unused_category") and v)) or "-"
                   if isinstance(vp.get("df_visits"), dict) else "-"})


def run(chk: core.Check):
    env = Env(getattr(chk, "_tmp", None))
    try:
        _run(chk, env)
    finally:
        env.close()


def _run(chk: core.Check, env):
    thorough = chk.tier == "thorough"
    budget = THOROUGH_ALARM if thorough else QUICK_ALARM
    chk.rule = ("validation: constructor outcome on a grid of parameter dictionaries (every kind of value for every key one at a time, "
                "all sign combinations of distance mean/std, spacing edge values, visit types, feature lists, table shapes, random "
                "combinations) vs the Lean decision table; runs: real model.simulate on 5 stored logistic models over random and "
                "table-driven designs (spacing edge values, n=1, int ids, near-duplicate / half-way / unsorted ages) with recorded "
                "numpy draws fed to the Lean model, final ages compared bitwise; each run under a wall-clock alarm; the runs vary "
                "the model object (shared / fresh / deep copy / saved+loaded; 7 synthetic logistic models), the entry point (8), the "
                "process state (torch default dtype, pandas copy-on-write), value types (numpy scalars, str subclasses), table "
                "dtypes / layouts, seeds 0 / None / 2**32-1, and 40 (thorough 400) designs run on scripted adversarial draws. "
                "Non-trivial: refused design, or completed run with >= 2 visits; distinct by full design + seed.")
    # findings' witnesses, probed on every run
    for fid, case in FINDING_WITNESSES.items():
        res = exec_run_case(chk, env, case, budget)
        hits = [w for w, f in judge(env, case, res["outcome"], res["rng_untouched"], res) if f == fid]
        if hits:
            chk.known_finding_reproduces(fid, hits[0][:220])
        else:
            chk.note(f"finding {fid} no longer reproduces (outcome {res['outcome']})")
    # 1. validation grid
    vcases = [c for c in core.load_corpus(PROP) if c.get("kind") == "validate"] + validation_cases(chk)
    vout = []
    for c in vcases:
        o, untouched = run_constructor(env, c)
        vout.append(o)
        for what, fid in judge(env, c, o, untouched):
            chk.impl_failure(c, what, finding=fid)
        if not untouched:
            chk.impl_failure(c, "constructor consumed random numbers", None)
        chk.case(("validate", repr(c)), nontrivial=True, sample=c if len(chk.samples) < 2 and o == "err:algo" else None,
                 tags={"kind": "validate", "ctor": o.replace("err:other:", "")})
    compare_validation(chk, env, vcases, vout)
    # 2. runs
    rcases = [c for c in core.load_corpus(PROP) if c.get("kind") == "run"] + fixed_run_cases(env) + EXTRA_FINDING_CASES
    n_rand, n_tab, n_scr = (1500, 800, 400) if thorough else (120, 80, 40)
    for _ in range(n_rand):
        rcases.append(random_design(chk.rng, env, thorough))
    for _ in range(n_tab):
        rcases.append(table_design(chk.rng, env))
    for _ in range(n_scr):
        rcases.append(scripted_design(chk.rng, env))
    results = []
    for c in rcases:
        res = exec_run_case(chk, env, c, budget)
        results.append(res)
        record_run(chk, env, c, res)
    compare_runs(chk, env, rcases, results)
    chk.exhaustive = False


def replay(chk: core.Check, payload):
    env = Env(getattr(chk, "_tmp", None))
    try:
        _replay(chk, env, payload)
    finally:
        env.close()


def _replay(chk: core.Check, env, payload):
    case = payload.get("case") or (payload.get("disagreements") or [{}])[0].get("case")
    if not case:
        chk.note("replay file has no case")
        return
    if case.get("kind") == "validate":
        o, untouched = run_constructor(env, case)
        for what, fid in judge(env, case, o, untouched):
            chk.impl_failure(case, what, finding=fid)
        chk.case(("validate", repr(case)), sample=case)
        compare_validation(chk, env, [case], [o])
        return
    res = exec_run_case(chk, env, case, THOROUGH_ALARM)
    record_run(chk, env, case, res)
    compare_runs(chk, env, [case], [res])
