"""C18 — simulation honours the requested design.

Correspondence: real `model.simulate(algorithm="simulate", ...)` on the stored fitted logistic models
(and the bare constructor for the validation grid) against `Model/Simulate.lean` through `drivers/C18.lean`.
The random draws the implementation consumes (`numpy.random.normal`) are recorded by a call-through wrapper
and fed to the Lean model as float64 bit patterns, so the final visit ages are compared bitwise.
"""
from __future__ import annotations

import contextlib
import math
import signal
import warnings

from . import core
from .core import fmt_float, fmt_list

PROP = "C18"
LEAN = dict(
    props="LeaspyVerif.Props.C18",
    driver="drivers/C18.lean",
    harness="c18_simulate.py",
    extra_modules=["LeaspyVerif.Model.Simulate"],
    theorems=[
        "ages_unique_increasing", "ages_are_the_rounded_draws", "ages_increasing_in_years",
        "rounding_is_nearest", "dedup_before_rounding_counterexample",
        "genAges_terminates", "genAges_regular_terminates", "genAges_nonempty",
        "individual_count_random", "individual_count_table", "every_individual_has_a_visit",
        "validate_table_partial", "validate_table_counterexample", "requirements_accepted",
        "refusal_is_algo_input_partial", "refusal_is_algo_input_counterexample",
        "valid_random_design_completes_partial", "valid_table_design_completes_partial",
        "valid_design_completes_counterexample_features", "valid_design_completes_counterexample_empty_table",
        "precision_total", "precision_documented",
    ],
    trusted_extra=[
        "numpy.round = rint(x*10**p)/10**p and pandas Index.duplicated(keep='first'): modelled, tied by bitwise comparison of the final ages",
        "model.estimate, the beta noise (scipy) and Data.from_dataframe's value handling are exercised, not modelled; the property predicate (finite values in [0,1]) is evaluated on the real output",
        "theorems are over Rat / an ordered field; the executable instance is IEEE double",
    ],
    assumptions=[
        "loaded LogisticModel with gaussian noise (binary/ordinal observation models have no noise_std and are outside the simulate algorithm)",
        "visit table: ID column homogeneous (all str or all int), non-null, non-empty strings; TIME finite",
        "python bool values for numeric parameters are not generated (bool is an int subclass)",
        "almost-sure termination of the random walk for distance_visit_std > 0 is probability theory: proved only for step draws >= delta > 0; runs are guarded by a wall-clock alarm",
    ],
)

MODELS = ["logistic_diag_noise", "logistic_scalar_noise", "logistic_diag_noise_custom", "univariate_logistic",
          "logistic_diag_noise_mh"]
RANDOM_KEYS = ["patient_number", "first_visit_mean", "first_visit_std", "time_follow_up_mean",
               "time_follow_up_std", "distance_visit_mean", "distance_visit_std"]
LEAN_KEYS = dict(patient_number="pn", first_visit_mean="fvm", first_visit_std="fvs", time_follow_up_mean="fum",
                 time_follow_up_std="fus", distance_visit_mean="dvm", distance_visit_std="dvs",
                 min_spacing_between_visits="ms")
QUICK_ALARM, THOROUGH_ALARM = 12.0, 20.0


# ---------------------------------------------------------------------------------------------- environment
class Env:
    def __init__(self):
        warnings.filterwarnings("ignore")
        import leaspy.models  # noqa: F401  (must precede leaspy.variables)
        import numpy as np
        import pandas as pd
        import torch
        import random as pyrandom
        from leaspy.models import BaseModel
        from leaspy.exceptions import LeaspyAlgoInputError
        import leaspy.algo.simulate.simulate as simmod
        self.np, self.pd, self.torch, self.pyrandom = np, pd, torch, pyrandom
        self.BaseModel, self.LAIE, self.simmod = BaseModel, LeaspyAlgoInputError, simmod
        self.model_dir = core.REPO / "tests/_data/model_parameters/from_fit"
        self._info = {}

    def load(self, name):
        with core.quiet():
            return self.BaseModel.load(str(self.model_dir / f"{name}.json"))

    def info(self, name):
        if name not in self._info:
            m = self.load(name)
            self._info[name] = (int(m.dimension), int(m.source_dimension), list(m.features))
        return self._info[name]

    def rng_fingerprint(self):
        st = self.np.random.get_state()
        return (st[1].tobytes(), st[2], self.torch.get_rng_state().numpy().tobytes(), repr(self.pyrandom.getstate()))


class Timeout(Exception):
    pass


@contextlib.contextmanager
def alarm(seconds):
    def handler(signum, frame):
        raise Timeout()
    old = signal.signal(signal.SIGALRM, handler)
    signal.setitimer(signal.ITIMER_REAL, seconds)
    try:
        yield
    finally:
        signal.setitimer(signal.ITIMER_REAL, 0)
        signal.signal(signal.SIGALRM, old)


class Recorder:
    """Call-through wrappers on the generators the simulation uses (numpy.random.normal, scipy beta.rvs)."""
    MAX = 400_000

    def __init__(self, env):
        self.env = env
        self.normal = []  # (size, output)
        self.n_normal = 0
        self.n_beta = 0
        self.generated_ages = None   # {id: unrounded ages} as returned by `_generate_visit_ages`

    @contextlib.contextmanager
    def installed(self):
        np, simmod = self.env.np, self.env.simmod
        orig_normal, orig_beta = np.random.normal, simmod.beta
        rec = self

        def normal(loc=0.0, scale=1.0, size=None):
            out = orig_normal(loc, scale, size)
            rec.n_normal += 1
            if len(rec.normal) < rec.MAX:
                rec.normal.append((size, out))
            return out

        class BetaProxy:
            def __getattr__(self, k):
                return getattr(orig_beta, k)

            def rvs(self, *a, **k):
                rec.n_beta += 1
                return orig_beta.rvs(*a, **k)

        SA = simmod.SimulationAlgorithm
        orig_gva = SA._generate_visit_ages

        def gva(algo_self, df):
            out = orig_gva(algo_self, df)
            try:
                rec.generated_ages = {str(k): [float(a) for a in v] for k, v in out.items()}
            except Exception:  # noqa
                rec.generated_ages = None
            return out

        np.random.normal = normal
        simmod.beta = BetaProxy()
        SA._generate_visit_ages = gva
        try:
            yield self
        finally:
            np.random.normal = orig_normal
            simmod.beta = orig_beta
            SA._generate_visit_ages = orig_gva


# ---------------------------------------------------------------------------------------------- case encoding
def py_val(env, e):
    """encoded dictionary value -> python object"""
    if isinstance(e, dict):
        if "i" in e:
            return int(e["i"])
        if "f" in e:
            return float(e["f"])
        if "o" in e:
            return {"str": "abc", "numstr": "5", "none": None, "list": [1.0], "npint": env.np.int64(5)}[e["o"]]
    if e == "nan":
        return float("nan")
    if e == "pinf":
        return float("inf")
    if e == "ninf":
        return float("-inf")
    raise ValueError(f"bad encoded value {e!r}")


def lean_val(e):
    if e is None:
        return "absent"
    if isinstance(e, dict):
        if "i" in e:
            return f"i{int(e['i'])}"
        if "f" in e:
            return fmt_float(e["f"])
        return "other"
    return e  # nan / pinf / ninf


def hexs(s: str) -> str:
    return s.encode("utf-8").hex()


def build_features(enc):
    if isinstance(enc, str):  # "notlist:tuple" / "notlist:none" / "notlist:str"
        return {"notlist:tuple": ("Y0", "Y1"), "notlist:none": None, "notlist:str": "Y0"}[enc]
    return [f if isinstance(f, str) else 1 for f in enc]


def lean_features(enc):
    if isinstance(enc, str):
        return "notlist"
    return fmt_list(["s" + hexs(f) if isinstance(f, str) else "n" for f in enc])


def build_table(env, t):
    pd = env.pd
    if t == "notframe":
        return {"ID": ["a"], "TIME": [70.0]}
    rows = t["rows"]
    ids = [r[0] for r in rows]
    times = [r[1] for r in rows]
    if t.get("time_null") and times:
        times = [float(x) for x in times]
        times[len(times) // 2] = float("nan")
    id_name = "ID" if t["id_at"] != "missing" else "subject"
    time_name = "TIME" if t["time_at"] != "missing" else "age"
    if not rows:
        df = pd.DataFrame({id_name: pd.Series([], dtype=object), time_name: pd.Series([], dtype=float)})
    else:
        df = pd.DataFrame({id_name: ids, time_name: times})
    idx = [n for n, at in ((id_name, t["id_at"]), (time_name, t["time_at"])) if at == "index"]
    if idx:
        df = df.set_index(idx)
    return df


def build_vp(env, vp):
    if vp is None:
        return None
    out = {}
    for k, v in vp.items():
        if k == "visit_type":
            out[k] = None if v == "__none__" else v
        elif k == "df_visits":
            out[k] = build_table(env, v)
        else:
            out[k] = py_val(env, v)
    return out


def lean_design(case):
    vp = case["vp"]
    if vp is None:
        vt = "nodict"
        vp = {}
    elif "visit_type" not in vp:
        vt = "absent"
    else:
        vt = vp["visit_type"] if vp["visit_type"] in ("random", "dataframe") else "unknown"
    parts = [f"vt={vt}", f"features={lean_features(case['features'])}"]
    for k, lk in LEAN_KEYS.items():
        parts.append(f"{lk}={lean_val(vp.get(k))}")
    t = vp.get("df_visits")
    if t is None:
        parts += ["table=absent", "idat=missing", "timeat=missing", "timenull=0", "rows=_"]
    elif t == "notframe":
        parts += ["table=notframe", "idat=missing", "timeat=missing", "timenull=0", "rows=_"]
    else:
        rows = [("s" + hexs(i) if isinstance(i, str) else f"i{int(i)}") + ":" + fmt_float(float(tm)) for i, tm in t["rows"]]
        parts += ["table=frame", f"idat={t['id_at']}", f"timeat={t['time_at']}",
                  f"timenull={1 if t.get('time_null') and t['rows'] else 0}", "rows=" + fmt_list(rows, sep=";")]
    return " ".join(parts)


# ---------------------------------------------------------------------------------------------- documented requirements
def is_num(e):
    return e in ("nan", "pinf", "ninf") or (isinstance(e, dict) and ("i" in e or "f" in e))


def num(e):
    if e == "nan":
        return float("nan")
    if e == "pinf":
        return float("inf")
    if e == "ninf":
        return float("-inf")
    return e["i"] if "i" in e else e["f"]


def documented(case):
    """The documented requirements (class docstring, error messages, docs/algorithms.md), written independently
    of the implementation and of the Lean table.  Returns (valid, reasons)."""
    reasons = []
    f = case["features"]
    if isinstance(f, str):
        reasons.append("features is not a list")
    elif len(f) == 0:
        reasons.append("features is empty")
    else:
        for x in f:
            if not isinstance(x, str):
                reasons.append("a feature is not a string")
            elif not x.strip():
                reasons.append("a feature is blank")
    vp = case["vp"]
    if vp is None:
        return False, reasons + ["no visit_parameters"]
    vt = vp.get("visit_type", "__absent__")
    if vt == "__absent__":
        return False, reasons + ["no visit_type"]
    if vt == "random":
        for k in RANDOM_KEYS:
            if k not in vp:
                reasons.append(f"missing {k}")
        pn = vp.get("patient_number")
        if pn is not None and not (isinstance(pn, dict) and "i" in pn and pn["i"] > 0):
            reasons.append("patient_number is not a positive integer")
        for k in RANDOM_KEYS[1:]:
            v = vp.get(k)
            if v is None:
                continue
            if not is_num(v) or v == "nan":
                reasons.append(f"{k} is not a number")
            elif k.endswith("_std") and not num(v) >= 0:
                reasons.append(f"{k} is negative")
            elif k == "distance_visit_mean" and not num(v) > 0:
                reasons.append(f"{k} is not positive")
        ms = vp.get("min_spacing_between_visits")
        if ms is not None:
            if not is_num(ms) or ms == "nan":
                reasons.append("min_spacing_between_visits is not a number")
            elif not num(ms) >= 0:
                reasons.append("min_spacing_between_visits is negative")
    elif vt == "dataframe":
        t = vp.get("df_visits")
        if t is None:
            reasons.append("missing df_visits")
        elif t == "notframe":
            reasons.append("df_visits is not a DataFrame")
        else:
            if t["id_at"] != "column" or t["time_at"] != "column":
                reasons.append("df_visits lacks column ID or TIME")
            elif t.get("time_null") and t["rows"]:
                reasons.append("null TIME")
    else:
        reasons.append("unknown visit_type")
    return (not reasons), reasons


def nonfinite_params(case):
    vp = case["vp"] or {}
    return [k for k in RANDOM_KEYS + ["min_spacing_between_visits"] if vp.get(k) in ("nan", "pinf", "ninf")]


def f16e_expected_class(case):
    """F16e region: something `__init__`/`_set_param_study` reads before validation is missing or malformed."""
    vp = case["vp"]
    if vp is None:
        return "TypeError"
    if "visit_type" not in vp:
        return "KeyError"
    if vp["visit_type"] == "random" and any(k not in vp for k in RANDOM_KEYS):
        return "KeyError"
    if vp["visit_type"] == "dataframe":
        t = vp.get("df_visits")
        if t is None:
            return "KeyError"
        if t == "notframe":
            return "AttributeError"
        if t["id_at"] == "missing":
            return "KeyError"
    return None


def f16f_region(env, case):
    f = case["features"]
    if isinstance(f, str) or not all(isinstance(x, str) for x in f):
        return False
    dim = env.info(case["model"])[0]
    return len(f) != dim or len(set(f)) != len(f)


def f16g_region(case):
    vp = case["vp"] or {}
    t = vp.get("df_visits")
    return vp.get("visit_type") == "dataframe" and isinstance(t, dict) and len(t["rows"]) == 0


# ---------------------------------------------------------------------------------------------- implementation side
def err_class(env, e):
    return "err:algo" if isinstance(e, env.LAIE) else f"err:other:{type(e).__name__}"


def run_constructor(env, case):
    """`BaseModel._get_algorithm` only (what `model.simulate` does before `algorithm.run`)."""
    before = env.rng_fingerprint()
    try:
        with core.quiet():
            env.BaseModel._get_algorithm("simulate", None, None, features=build_features(case["features"]),
                                         visit_parameters=build_vp(env, case["vp"]), seed=case.get("seed", 0))
        out = "ok"
    except Exception as e:  # noqa
        out = err_class(env, e)
    return out, env.rng_fingerprint() == before


def run_simulate(env, case, budget):
    """Real `model.simulate`; returns dict(outcome, result, recorder, rng_untouched, message)."""
    model = env.load(case["model"])
    feats = build_features(case["features"])
    vp = build_vp(env, case["vp"])
    rec = Recorder(env)
    before = env.rng_fingerprint()
    res = dict(outcome=None, result=None, rec=rec, message="")
    try:
        with rec.installed(), core.quiet(), alarm(budget):
            res["result"] = model.simulate(algorithm="simulate", seed=case["seed"], features=feats, visit_parameters=vp)
        res["outcome"] = "ok"
    except Timeout:
        res["outcome"] = "timeout"
    except Exception as e:  # noqa
        res["outcome"] = err_class(env, e)
        res["message"] = f"{type(e).__name__}: {str(e)[:160]}"
    res["rng_untouched"] = (env.rng_fingerprint() == before) and rec.n_normal == 0 and rec.n_beta == 0
    return res


def observed_individuals(env, result):
    """{id: [ages]} of Result.data (insertion order of the data object)."""
    out = {}
    for idx, ind in result.data.individuals.items():
        out[idx] = [float(t) for t in ind.timepoints]
    return out


def canon_impl(env, res):
    if res["outcome"] != "ok":
        return res["outcome"]
    try:
        obs = observed_individuals(env, res["result"])
    except Exception as e:  # noqa  (already reported by the predicate)
        return f"ok unreadable-result:{type(e).__name__}"
    items = sorted(((str(k), v) for k, v in obs.items()), key=lambda kv: kv[0])
    # an age of -0.0 (a small negative age rounded to 0 decimals) is the age 0: the sign of zero is not compared
    return "ok ind=" + fmt_list([hexs(k) + ":" + fmt_list([fmt_float(a + 0.0) for a in v]) for k, v in items], sep=";")


def canon_model(resp):
    if not resp.startswith("ok "):
        return resp, None
    parts = dict(p.split("=", 1) for p in resp.split(" ")[1:])
    inds = core.split_ne(parts["ind"], ";")
    inds = sorted(inds, key=lambda s: bytes.fromhex(s.split(":")[0]).decode("utf-8"))
    neg_zero = "f9223372036854775808"
    inds = [i.split(":")[0] + ":" + ",".join("f0" if t == neg_zero else t for t in i.split(":", 1)[1].split(",")) for i in inds]
    return "ok ind=" + fmt_list(inds, sep=";"), parts


def expected_precision(case):
    vp = case["vp"]
    if vp.get("visit_type") != "random" or "min_spacing_between_visits" not in vp:
        ms = 1 / 365
    else:
        ms = num(vp["min_spacing_between_visits"])
    for p, unit in ((0, 1), (1, 0.1), (2, 0.01), (3, 0.001)):
        if unit <= ms:
            return p
    return 3  # documented finest unit ("~1 day"); F13 repair


def predicate_on_output(env, case, res):
    """The property's own predicate on a completed run (independent of the Lean model)."""
    np = env.np
    fails = []
    result = res["result"]
    vp = case["vp"]
    dim, src, _ = env.info(case["model"])
    feats = build_features(case["features"])
    try:
        obs = observed_individuals(env, result)
        df = result.data.to_dataframe()
    except Exception as e:  # noqa
        return [f"result data cannot be read: {type(e).__name__}: {e}"]
    p = expected_precision(case)
    if vp["visit_type"] == "random":
        n = vp["patient_number"]["i"]
        want_ids = [str(i) for i in range(n)]
        if sorted(map(str, obs)) != sorted(want_ids):
            fails.append(f"requested {n} individuals, got ids {sorted(map(str, obs))[:8]} ({len(obs)})")
    else:
        rows = vp["df_visits"]["rows"]
        want_ids = sorted({str(r[0]) for r in rows})
        if sorted(map(str, obs)) != want_ids:
            fails.append(f"table individuals {want_ids[:8]} but result has {sorted(map(str, obs))[:8]}")
        for i in want_ids:
            want = sorted({float(np.round(np.float64(r[1]), 3)) for r in rows if str(r[0]) == i})
            got = obs.get(i)
            if got is None:
                got = next((v for k, v in obs.items() if str(k) == i), None)
            if got is not None and sorted(got) != want:
                fails.append(f"individual {i}: ages {got[:6]} are not the table's ages rounded to 3 decimals {want[:6]}")
    # the reported ages of every individual are its generated ages, rounded, each once, in increasing order
    gen = getattr(res.get("rec"), "generated_ages", None)
    if gen:
        for i, g in gen.items():
            want = sorted({float(np.round(np.float64(a), p)) + 0.0 for a in g})
            got = next((v for k, v in obs.items() if str(k) == str(i)), None)
            if got is None:
                fails.append(f"individual {i} has generated visit ages {g[:4]} but is absent from the simulated data")
            elif [a + 0.0 for a in got] != want:
                fails.append(f"individual {i}: reported ages {got[:6]} are not its generated ages rounded to {p} decimals {want[:6]}")
    for i, ages in obs.items():
        if len(ages) == 0:
            fails.append(f"individual {i} has no visit")
        if any(not (a < b) for a, b in zip(ages, ages[1:])):
            fails.append(f"individual {i}: ages not unique and strictly increasing: {ages[:8]}")
        if any(not math.isfinite(a) for a in ages):
            fails.append(f"individual {i}: non-finite age")
        elif any(float(np.round(np.float64(a), p)) != a for a in ages):
            fails.append(f"individual {i}: ages not rounded to {p} decimals: {ages[:6]}")
    # values
    cols = [c for c in df.columns if c not in ("ID", "TIME")]
    if cols != list(feats):
        fails.append(f"columns {cols} are not the requested features {list(feats)}")
    else:
        vals = df[cols].to_numpy(dtype=float)
        if not np.isfinite(vals).all():
            fails.append("non-finite simulated value")
        elif ((vals < 0) | (vals > 1)).any():
            fails.append("simulated value outside [0,1]")
    # one set of individual parameters per individual
    ip = result.individual_parameters
    try:
        ip_ids = [str(i) for i in ip.index]
        if sorted(ip_ids) != sorted(map(str, obs)) or len(set(ip_ids)) != len(ip_ids):
            fails.append(f"individual parameters reported for {ip_ids[:8]} but individuals are {sorted(map(str, obs))[:8]}")
        need = ["xi", "tau"] + [f"sources_{k}" for k in range(src)]
        missing = [c for c in need if c not in ip.columns]
        if missing:
            fails.append(f"individual parameters lack {missing}")
        else:
            arr = np.array([[float(ip.loc[i, c]) for c in need] for i in ip.index], dtype=float)
            if not np.isfinite(arr).all():
                fails.append("non-finite individual parameter")
    except Exception as e:  # noqa
        fails.append(f"individual parameters cannot be read: {type(e).__name__}: {e}")
    return fails


def judge(env, case, outcome, rng_untouched, res=None):
    """Property predicate for one case. Returns list of (what, finding-id-or-None)."""
    valid, reasons = documented(case)
    out = []
    oclass = outcome.split(":")[-1] if outcome.startswith("err:other:") else None
    nonfin = nonfinite_params(case)
    if not valid:
        if outcome == "err:algo":
            if not rng_untouched:
                out.append(("design refused, but only after random numbers were drawn", None))
            return out
        fid = None
        vp_ = case["vp"] or {}
        nan_params = [k for k in nonfin if vp_.get(k) == "nan"]
        if oclass is not None and f16e_expected_class(case) == oclass:
            fid = "F16e"
        elif reasons and outcome != "timeout" and all(
                any(r.startswith(k) and "not a number" in r for k in nan_params) for r in reasons):
            fid = "F16h"   # nan passes every `<` test
        out.append((f"design violating the documented requirements ({'; '.join(reasons[:3])}) is not refused with "
                    f"LeaspyAlgoInputError: {outcome}" + (f" [{res['message']}]" if res and res.get("message") else ""), fid))
        return out
    # documented-valid design
    if outcome == "ok":
        if res is not None:
            out += [(w, None) for w in predicate_on_output(env, case, res)]
        return out
    fid = None
    if outcome == "err:other:ValueError":
        if f16f_region(env, case):
            fid = "F16f"
        elif f16g_region(case):
            fid = "F16g"
        elif nonfin:
            fid = "F16h"
    elif nonfin and [k for k in nonfin if k != "min_spacing_between_visits"]:
        fid = "F16h"
    what = "refused" if outcome == "err:algo" else ("did not complete within the wall-clock budget" if outcome == "timeout" else "aborted")
    out.append((f"design satisfying the documented requirements {what}: {outcome}"
                + (f" [{res['message']}]" if res and res.get("message") else ""), fid))
    return out


# ---------------------------------------------------------------------------------------------- model side
def run_line(env, case, res):
    dim, src, _ = env.info(case["model"])
    tau = fv = fu = steps = []
    layout_ok = True
    rec = res["rec"] if res else None
    vp = case["vp"] or {}
    pn = vp.get("patient_number")
    if res is not None and vp.get("visit_type") == "random" and isinstance(pn, dict) and "i" in pn \
            and res["outcome"] not in ("err:algo", "timeout"):
        n = pn["i"]
        calls = rec.normal
        k = 4 + src
        head_ok = len(calls) >= k and all(c[0] == n for c in calls[:k]) and all(c[0] is None for c in calls[k:])
        if not head_ok or rec.n_normal != len(calls):
            # a run that aborted before the visit ages were drawn has no complete record (sent without draws)
            layout_ok = res["outcome"] != "ok"
        else:
            tau = [float(x) for x in calls[1][1]]
            fv = [float(x) for x in calls[2 + src][1]]
            fu = [float(x) for x in calls[3 + src][1]]
            steps = [float(c[1]) for c in calls[k:]]
    f = lambda xs: fmt_list([fmt_float(x) for x in xs])
    return (f"run {lean_design(case)} dim={dim} src={src} tau={f(tau)} fv={f(fv)} fu={f(fu)} steps={f(steps)}", layout_ok)


def compare_runs(chk, env, cases, results):
    lines, layout = [], []
    for c, r in zip(cases, results):
        ln, ok = run_line(env, c, r)
        lines.append(ln)
        layout.append(ok)
    out = chk.model(lines)
    for c, r, resp, lay in zip(cases, results, out, layout):
        if r["outcome"] == "timeout":
            chk.tag("model_vs_timeout", resp.split(" ")[0])
            continue
        impl = canon_impl(env, r)
        if not lay:
            chk.disagree(c, impl[:300], "?", "layout of numpy.random.normal calls differs from the modelled one (xi, tau, sources…, first visit, follow-up, then scalars)")
            continue
        mod, parts = canon_model(resp)
        if impl != mod:
            chk.disagree(c, impl[:600], mod[:600], "outcome / final visit ages (float64 bits)")
        elif parts is not None and parts.get("unused") != "0":
            chk.disagree(c, "all recorded draws consumed", resp[:200], "number of step draws consumed")


def compare_validation(chk, env, cases, outcomes):
    lines = ["validate " + lean_design(c) for c in cases]
    out = chk.model(lines)
    for c, o, resp in zip(cases, outcomes, out):
        if o != resp:
            chk.disagree(c, o, resp, "constructor outcome vs validation table")


# ---------------------------------------------------------------------------------------------- generators
def I(n):
    return {"i": n}


def F(x):
    return {"f": float(x)}


BASE = dict(visit_type="random", patient_number=I(5), first_visit_mean=F(0.0), first_visit_std=F(0.4),
            time_follow_up_mean=I(3), time_follow_up_std=F(0.5), distance_visit_mean=F(0.5), distance_visit_std=F(0.1))
VALS = [None, I(3), I(0), I(-2), F(1.5), F(0.0), F(-0.5), "nan", "pinf", "ninf", {"o": "str"}, {"o": "none"},
        {"o": "numstr"}, {"o": "list"}, {"o": "npint"}]
SPACINGS = [None, I(0), I(1), I(5), F(0.0), F(1e-4), F(0.0009999), F(0.001), F(0.00273), F(1 / 365), F(0.01),
            F(0.0099), F(0.05), F(0.1), F(0.09999), F(0.5), F(1.0), F(0.9999), F(2.5)]
FEATURE_BAD = ["notlist:tuple", "notlist:none", "notlist:str", [], ["Y0", 1], ["Y0", " "], ["", "Y1"], ["\t\n", "Y1"]]


def table(rows, id_at="column", time_at="column", time_null=False):
    return dict(rows=[list(r) for r in rows], id_at=id_at, time_at=time_at, time_null=time_null)


def validation_cases(chk):
    rng = chk.rng
    feats = ["Y0", "Y1", "Y2", "Y3"]
    cases = []

    def add(vp, features=feats):
        cases.append(dict(kind="validate", model="logistic_diag_noise", features=features, vp=vp, seed=0))

    add(dict(BASE))
    add(None)
    # one parameter at a time over every kind of value
    for k in RANDOM_KEYS + ["min_spacing_between_visits"]:
        for v in VALS:
            vp = dict(BASE)
            if v is None:
                vp.pop(k, None)
            else:
                vp[k] = v
            add(vp)
    # the mean/std decision: every sign combination (incl. the or/and boundary)
    for m in (I(1), I(0), I(-1), F(0.25), F(0.0), F(-0.25), "nan", "pinf", "ninf"):
        for s in (I(1), I(0), I(-1), F(0.25), F(0.0), F(-0.25), "nan", "pinf", "ninf", {"o": "str"}):
            vp = dict(BASE)
            vp["distance_visit_mean"], vp["distance_visit_std"] = m, s
            add(vp)
    for ms in SPACINGS + [F(-1e-9), I(-1), "nan", "pinf", "ninf"]:
        vp = dict(BASE)
        if ms is not None:
            vp["min_spacing_between_visits"] = ms
        add(vp)
    for vt in ("regular", "__none__", "Random", "dataframe", None):
        vp = dict(BASE)
        if vt is None:
            vp.pop("visit_type")
        else:
            vp["visit_type"] = vt
        add(vp)
    for fb in FEATURE_BAD + [["a"], ["Y0", "Y0"], ["x y", "z"]]:
        add(dict(BASE), fb)
        add(dict(visit_type="dataframe", df_visits=table([["a", 70.0], ["b", 71.0]])), fb)
        bad = dict(BASE)
        bad.pop("first_visit_std")
        add(bad, fb)
    rows = [["a", 70.0], ["a", 71.5], ["b", 66.0]]
    for id_at in ("column", "index", "missing"):
        for time_at in ("column", "index", "missing"):
            for tn in (False, True):
                add(dict(visit_type="dataframe", df_visits=table(rows, id_at, time_at, tn)))
    add(dict(visit_type="dataframe"))
    add(dict(visit_type="dataframe", df_visits="notframe"))
    add(dict(visit_type="dataframe", df_visits=table([])))
    add(dict(visit_type="dataframe", df_visits=table([[1, 70.0], [2, 71]])))
    add(dict(visit_type="dataframe", df_visits=table(rows), patient_number={"o": "str"}, min_spacing_between_visits=F(-1)))
    # random combinations
    n_rand = 8000 if chk.tier == "thorough" else 600
    for _ in range(n_rand):
        vp = dict(BASE)
        for k in rng.sample(RANDOM_KEYS + ["min_spacing_between_visits"], rng.choice([1, 2, 2, 3, 4])):
            v = rng.choice(VALS)
            if v is None:
                vp.pop(k, None)
            else:
                vp[k] = v
        f = feats if rng.random() < 0.85 else rng.choice(FEATURE_BAD)
        add(vp, f)
    return cases


def random_design(rng, env, thorough):
    model = rng.choice(MODELS)
    dim, src, mfeats = env.info(model)
    u = rng.random()
    feats = list(mfeats) if u < 0.8 else [f"feat_{i}" for i in range(dim)]
    mean = rng.choice([0.1, 0.25, 0.5, 1.0, 2.0, 1 / 12, 1])
    std = rng.choice([0, 0.0, mean / 10, mean / 4, mean / 2, mean])
    fum = rng.choice([0, 0.0, 1, 2.5, 4, -2.0, 6])
    if abs(fum) / mean > 60:
        fum = 2.5
    vp = dict(visit_type="random",
              patient_number=I(rng.choice([1, 1, 2, 3, 5, 8, 13] + ([40] if thorough else []))),
              # around onset, and far after / before it (saturated curves: values exactly 0 or 1 in single precision)
              first_visit_mean=rng.choice([F(0.0), I(0), F(-2.5), F(1.25), I(3), I(40), F(100.0), F(-60.0)]),
              first_visit_std=rng.choice([F(0.0), I(0), F(0.4), F(1.0), I(2)]),
              time_follow_up_mean=I(fum) if isinstance(fum, int) else F(fum),
              time_follow_up_std=rng.choice([F(0.0), I(0), F(0.5), I(1)]),
              distance_visit_mean=I(mean) if isinstance(mean, int) else F(mean),
              distance_visit_std=I(std) if isinstance(std, int) else F(std))
    ms = rng.choice(SPACINGS)
    if ms is not None:
        vp["min_spacing_between_visits"] = ms
    return dict(kind="run", model=model, features=feats, vp=vp, seed=rng.randrange(0, 10_000))


def table_design(rng, env):
    model = rng.choice(MODELS)
    dim, src, mfeats = env.info(model)
    n_ind = rng.choice([1, 1, 2, 3, 5])
    int_ids = rng.random() < 0.35
    ids = rng.sample(range(0, 40), n_ind) if int_ids else rng.sample(["p1", "p2", "a", "b", "sub-10", "07", "x y", "z"], n_ind)
    rows = []
    for i in ids:
        t = rng.choice([55.0, 62.5, 70.0, 81.25, 81.25, 110.0, 180.0, 5.0]) + rng.randrange(0, 1000) / 1000
        for _ in range(rng.choice([1, 2, 3, 4, 6])):
            kind = rng.random()
            if kind < 0.25 and rows and rows[-1][0] == i:
                t2 = rows[-1][1] + rng.choice([0.0, 0.0001, 0.0004, 0.0005, 0.00049, 0.001, -0.0003])   # near duplicate
            elif kind < 0.4:
                t2 = round(t, 2) + rng.choice([0.0005, 0.0015, 0.0025, 0.0035])   # half-way for rint
            elif kind < 0.5:
                t2 = float(int(t))
            else:
                t2 = t
            rows.append([i, t2])
            t += rng.choice([0.5, 1.0, 0.25, 1 / 12, 0.001, 0.0007])
    rng.shuffle(rows) if rng.random() < 0.5 else None
    if rng.random() < 0.1:
        rows = [[i, int(t)] for i, t in rows]
    vp = dict(visit_type="dataframe", df_visits=table(rows))
    if rng.random() < 0.2:
        vp["min_spacing_between_visits"] = rng.choice([F(0.1), F(1.0), I(1), F(-1)])   # ignored for tables
    return dict(kind="run", model=model, features=list(mfeats), vp=vp, seed=rng.randrange(0, 10_000))


def fixed_run_cases(env):
    """Edge designs always run: spacing edge values on every model, findings' regions, refusals through simulate()."""
    cases = []
    for m in MODELS:
        dim, src, mf = env.info(m)
        for ms in (F(0.0), F(1e-4), F(0.001), F(0.1), I(1), None):
            vp = dict(BASE, patient_number=I(2))
            if ms is not None:
                vp["min_spacing_between_visits"] = ms
            cases.append(dict(kind="run", model=m, features=list(mf), vp=vp, seed=11))
        cases.append(dict(kind="run", model=m, features=list(mf), vp=dict(BASE, patient_number=I(1)), seed=12))
        cases.append(dict(kind="run", model=m, features=list(mf), vp=dict(BASE, distance_visit_std=F(0.0)), seed=13))
        cases.append(dict(kind="run", model=m, features=list(mf),
                          vp=dict(visit_type="dataframe", df_visits=table([[3, 70.0], [3, 70.0004], [3, 71.0015], [12, 66]])), seed=14))
        cases.append(dict(kind="run", model=m, features=list(mf),
                          vp=dict(visit_type="dataframe", df_visits=table([["solo", 70.25]])), seed=15))
    mf = env.info("logistic_diag_noise")[2]
    D = "logistic_diag_noise"
    # refusals through the whole call (nothing may be generated)
    for over in (dict(distance_visit_mean=F(-1.0)), dict(distance_visit_mean=I(0)), dict(distance_visit_mean=F(0.0), distance_visit_std=F(0.0)),
                 dict(patient_number=I(0)), dict(first_visit_std=F(-0.1)), dict(min_spacing_between_visits=F(-1.0)),
                 dict(patient_number={"o": "numstr"}), dict(first_visit_std={"o": "none"}), dict(visit_type="regular")):
        cases.append(dict(kind="run", model=D, features=list(mf), vp=dict(BASE, **over), seed=16))
    cases.append(dict(kind="run", model=D, features=[], vp=dict(BASE), seed=16))
    cases.append(dict(kind="run", model=D, features=list(mf), vp=dict(visit_type="dataframe", df_visits=table([["a", 70.0], ["b", 71.0]], time_null=True)), seed=16))
    cases.append(dict(kind="run", model=D, features=list(mf), vp=dict(visit_type="dataframe", df_visits=table([["a", 70.0]], time_at="missing")), seed=16))
    return cases


FINDING_WITNESSES = {
    "F16e": dict(kind="run", model="logistic_diag_noise", features=["Y0", "Y1", "Y2", "Y3"],
                vp={k: v for k, v in BASE.items() if k != "first_visit_mean"}, seed=1),
    "F16f": dict(kind="run", model="logistic_diag_noise", features=["Y0", "Y1"], vp=dict(BASE), seed=1),
    "F16g": dict(kind="run", model="logistic_diag_noise", features=["Y0", "Y1", "Y2", "Y3"],
                vp=dict(visit_type="dataframe", df_visits=table([])), seed=1),
    "F16h": dict(kind="run", model="logistic_diag_noise", features=["Y0", "Y1", "Y2", "Y3"],
                vp=dict(BASE, first_visit_mean="nan"), seed=1),
}
EXTRA_FINDING_CASES = [
    dict(kind="run", model="logistic_diag_noise", features=["Y0", "Y1", "Y2", "Y3"], vp=None, seed=1),
    dict(kind="run", model="logistic_diag_noise", features=["Y0", "Y1", "Y2", "Y3"], vp={k: v for k, v in BASE.items() if k != "visit_type"}, seed=1),
    dict(kind="run", model="logistic_diag_noise", features=["Y0", "Y1", "Y2", "Y3"], vp=dict(visit_type="dataframe", df_visits="notframe"), seed=1),
    dict(kind="run", model="logistic_diag_noise", features=["Y0", "Y1", "Y2", "Y3"], vp=dict(visit_type="dataframe", df_visits=table([["a", 70.0]], id_at="missing")), seed=1),
    dict(kind="run", model="logistic_diag_noise", features=["Y0", "Y1", "Y2", "Y3", "Y4"], vp=dict(BASE), seed=1),
    dict(kind="run", model="logistic_diag_noise_custom", features=["Y0", "Y1", "Y1", "Y3"], vp=dict(BASE), seed=1),
    dict(kind="run", model="univariate_logistic", features=["Y0", "Y1"], vp=dict(visit_type="dataframe", df_visits=table([["a", 70.0]])), seed=1),
    dict(kind="run", model="logistic_diag_noise", features=["Y0", "Y1", "Y2", "Y3"], vp=dict(BASE, distance_visit_mean="nan"), seed=1),
    dict(kind="run", model="logistic_diag_noise", features=["Y0", "Y1", "Y2", "Y3"], vp=dict(BASE, time_follow_up_mean="nan"), seed=1),
    dict(kind="run", model="logistic_diag_noise", features=["Y0", "Y1", "Y2", "Y3"], vp=dict(BASE, min_spacing_between_visits="nan"), seed=1),
    dict(kind="run", model="logistic_diag_noise", features=["Y0", "Y1", "Y2", "Y3"], vp=dict(BASE, min_spacing_between_visits="pinf"), seed=1),
]


# ---------------------------------------------------------------------------------------------- driver
def exec_run_case(chk, env, case, budget):
    res = run_simulate(env, case, budget)
    if res["outcome"] == "timeout":
        # candidate non-termination: replay once with a larger budget before reporting
        res2 = run_simulate(env, case, 3 * budget)
        chk.tag("timeouts", "confirmed" if res2["outcome"] == "timeout" else "slow-run")
        res = res2
    return res


def record_run(chk, env, case, res):
    vp = case["vp"] or {}
    for what, fid in judge(env, case, res["outcome"], res["rng_untouched"], res):
        chk.impl_failure(case, what, finding=fid)
    valid, _ = documented(case)
    n_ages = 0
    dedup = False
    if res["outcome"] == "ok":
        try:
            obs = observed_individuals(env, res["result"])
            n_ages = sum(len(v) for v in obs.values())
            if vp.get("visit_type") == "random":
                raw = res["rec"].n_normal - (4 + env.info(case["model"])[1]) + len(obs)
                dedup = raw > n_ages
            else:
                dedup = len(vp["df_visits"]["rows"]) > n_ages
        except Exception:  # noqa
            pass
    chk.case(("run", repr(case)), nontrivial=(not valid) or n_ages >= 2,
             sample=case if (dedup or not valid) and len(chk.samples) < 4 else None,
             tags={"kind": "run:" + str(vp.get("visit_type", "none")), "outcome": res["outcome"].replace("err:other:", ""),
                   "model": case["model"], "precision": expected_precision(case) if valid else "-",
                   "rounding_merged_visits": dedup, "documented_valid": valid})


def run(chk: core.Check):
    env = Env()
    thorough = chk.tier == "thorough"
    budget = THOROUGH_ALARM if thorough else QUICK_ALARM
    chk.rule = ("validation: constructor outcome on a grid of parameter dictionaries (every kind of value for every key one at a time, "
                "all sign combinations of distance mean/std, spacing edge values, visit types, feature lists, table shapes, random "
                "combinations) vs the Lean decision table; runs: real model.simulate on 5 stored logistic models over random and "
                "table-driven designs (spacing edge values, n=1, int ids, near-duplicate / half-way / unsorted ages) with recorded "
                "numpy draws fed to the Lean model, final ages compared bitwise; each run under a wall-clock alarm. "
                "Non-trivial: refused design, or completed run with >= 2 visits; distinct by full design + seed.")
    # findings' witnesses, probed on every run
    for fid, case in FINDING_WITNESSES.items():
        res = exec_run_case(chk, env, case, budget)
        hits = [w for w, f in judge(env, case, res["outcome"], res["rng_untouched"], res) if f == fid]
        if hits:
            chk.known_finding_reproduces(fid, hits[0][:220])
        else:
            chk.note(f"finding {fid} no longer reproduces (outcome {res['outcome']})")
    # 1. validation grid
    vcases = [c for c in core.load_corpus(PROP) if c.get("kind") == "validate"] + validation_cases(chk)
    vout = []
    for c in vcases:
        o, untouched = run_constructor(env, c)
        vout.append(o)
        for what, fid in judge(env, c, o, untouched):
            chk.impl_failure(c, what, finding=fid)
        if not untouched:
            chk.impl_failure(c, "constructor consumed random numbers", None)
        chk.case(("validate", repr(c)), nontrivial=True, sample=c if len(chk.samples) < 2 and o == "err:algo" else None,
                 tags={"kind": "validate", "ctor": o.replace("err:other:", "")})
    compare_validation(chk, env, vcases, vout)
    # 2. runs
    rcases = [c for c in core.load_corpus(PROP) if c.get("kind") == "run"] + fixed_run_cases(env) + EXTRA_FINDING_CASES
    n_rand, n_tab = (2000, 1000) if thorough else (120, 80)
    for _ in range(n_rand):
        rcases.append(random_design(chk.rng, env, thorough))
    for _ in range(n_tab):
        rcases.append(table_design(chk.rng, env))
    results = []
    for c in rcases:
        res = exec_run_case(chk, env, c, budget)
        results.append(res)
        record_run(chk, env, c, res)
    compare_runs(chk, env, rcases, results)
    chk.exhaustive = False


def replay(chk: core.Check, payload):
    env = Env()
    case = payload.get("case") or (payload.get("disagreements") or [{}])[0].get("case")
    if not case:
        chk.note("replay file has no case")
        return
    if case.get("kind") == "validate":
        o, untouched = run_constructor(env, case)
        for what, fid in judge(env, case, o, untouched):
            chk.impl_failure(case, what, finding=fid)
        chk.case(("validate", repr(case)), sample=case)
        compare_validation(chk, env, [case], [o])
        return
    res = exec_run_case(chk, env, case, THOROUGH_ALARM)
    record_run(chk, env, case, res)
    compare_runs(chk, env, [case], [res])
