"""C14 — data ingestion yields one canonical tensor form and rejects malformed input.

Correspondence: real `Data.from_dataframe` -> `Dataset` -> `Dataset.to_pandas` -> re-ingestion (visit, event, joint and
covariate layouts), `IndividualData.add_observations`, against `Model/Ingest.lean` through `drivers/C14.lean`.

Case syntax (JSON, also the replay payload)
  {"layout": "visit", "idkind": <kind>, "tnum": <time column kind>, "cols": [<column kind>...], "store": "id"|"f32",
   "rows": [[<id index>, <age token>, [<value token>...]], ...]}
  {"layout": "event", "idkind":…, "nb": null|n, "rows": [[id, <age token>, <value token>], ...]}
  {"layout": "joint", …, "rows": [[id, age, [values], <age token>, <value token>], ...]}
  {"layout": "cov",   …, "ncov": k, "rows": [[id, age, [values], [<value token>...]], ...]}
  {"layout": "addobs", "calls": [[[age, [values]], ...], ...]}
  {"layout": "schema", "name": <one of SCHEMA_CASES>}
  age token   = [n, d]  (the float (10 n + d) / 1e7, i.e. n micro-units after the 6-digit rounding, |d| <= 4) | "nan" | "inf" | "-inf"
  value token = "p/q" | "nan" | "inf" | "-inf"
Optional keys of a table case (how the very same table is handed over; default = plain float columns, `Data.from_dataframe(df, "<layout>")`):
  "tnum" / "cols" / "ecols" / "ccols": dtype kind of the TIME / feature / event / covariate columns (NUM_KINDS are numeric for the reader)
  "index": "set" | "setrev" | "id" | "rowdup" | "rowstr" | "rownamed"   (ID / TIME as index levels in either order; meaningless row labels)
  "featnames": names of the feature columns (feature k of the rows is column featnames[k]);  "colorder": order of all the columns
  "evnames": [event time column, event indicator column] (passed to the reader through factory_kws)
  "opts": {"sort_index": bool, "drop_full_nan": bool, "warn_empty_column": bool}   (keyword options of the reader)
  "entry": "df" | "csv" (Data.from_csv_file on the table written to disk) | "reader" (a reader instance as data_type) | "enum" | "upper"
"""
from __future__ import annotations

import itertools
import math
import warnings
from fractions import Fraction

from . import core
from .core import fmt_rat, fmt_list

PROP = "C14"
THEOREMS = [
    "visits_strictly_sorted", "ids_first_appearance", "no_visit_lost", "add_observations_never_refuses", "load_ok_only_if_unique",
    "ingest_perm", "ingest_perm_same_order", "ingest_perm_lookup", "tensor_indivs", "padding_shape", "values_aligned",
    "mask_iff_present", "counts_correct", "tensor_times_sorted", "untensor_tensorise", "roundtrip_partial", "roundtrip_fixpoint",
    "roundtrip_counterexample", "rejects_iff_malformed", "events_rejects_malformed",
    "events_rejects_iff_malformed", "events_first_appearance", "events_unique_check_unreachable", "events_perm",
    "joint_accepts_iff", "joint_result", "last_visit_is_max", "last_visit_perm", "joint_cross_check_iff", "joint_perm",
    "joint_event_order_counterexample", "joint_event_order_partial",
    "covariate_accepts_iff", "covariate_result", "covariate_perm",
]
LEAN = dict(
    props="LeaspyVerif.Props.C14",
    driver="drivers/C14.lean",
    harness="c14_ingest.py",
    extra_modules=["LeaspyVerif.Model.Ingest", "LeaspyVerif.Lemmas.Ingest"],
    theorems=THEOREMS,
    trusted_extra=[
        "pandas contracts assumed by the model: groupby(sort=False, observed=True) = groups in order of first appearance with rows in table order; "
        "sort_index = lexicographic (ID, TIME) order; round(x, 6) = nearest 6-digit decimal; bisect = right insertion point in a sorted array",
        "identifiers enter the model as their rank in python's sort order of the ID values; ages as integers in micro-units",
        "single-precision storage of ages is a function parameter `store` of the model (theorems: any monotone store; driver: exact "
        "round-to-nearest-even in rational arithmetic, cross-checked against numpy on every run); values are small dyadic rationals, exact in float32",
    ],
    assumptions=[
        "order of first appearance is taken among the rows that carry at least one non-missing cell (rows that `dropna(how='all')` removes do not count)",
        "values outside the float32 range (|v| > 3.4e38, finite in the table) become inf in the tensor without an error; not generated, not claimed",
        "schema problems the property does not list (missing / swapped / duplicated columns, not a DataFrame) are only required to raise; the exception class is recorded in the evidence",
        "bool-typed TIME / feature columns are numeric for pandas and are accepted as 0/1 by the code; not treated as malformed",
        "reader options: sort_index=True is sent to the model as the same table with its rows in (ID, TIME) order (pandas contract above); "
        "drop_full_nan=False (entirely missing rows kept as visits without observation, resp. refused by the event / covariate checks) is not "
        "modelled: such cases are judged by the harness predicate only",
        "membership `id in data` is only exercised for string identifiers (documented key type; it raises LeaspyTypeError for the integer "
        "identifiers the readers accept); slicing an event-only Data object raises AttributeError (Data.from_individuals reads "
        "`observations.shape`): outside the statement (tables -> tensors), not exercised",
        "joint layout: the tolerance of the cross check is compared on integers (micro-units) in the model; an observed event dated "
        "exactly 0.001 before the latest visit is decided by the double-precision subtraction in the code (70.5 - 70.501 is refused, "
        "1.0 - 1.001 is accepted); the model accepts; such tables are not generated (generated gaps: <= 900 or >= 1001 micro-units)",
        "the rejection reason (which check raised) is compared with the tag of the model for the event, joint and covariate layouts "
        "through the text of the message (REASON table); all reasons are LeaspyDataInputError",
    ],
)

# --------------------------------------------------------------------------------------------- identifiers
_STR = ["b", "a", "d", "c", "e", "f"]
_NUMSTR = ["10", "9", "2", "100", "33", "5"]
_INT = [10, 9, 2, 100, 33, 5]
ID_KINDS_VALID = ["str", "numstr", "int", "cat", "catint", "catunused", "Int64", "stringdtype", "uint8"]
ID_KINDS_INVALID = ["float", "bool", "emptystr", "nanid", "noneid", "mixed", "negint", "bytes", "Int64NA", "catnan", "tuple"]
MODEL_IDCOL = {
    "str": "string,0,0,0", "numstr": "string,0,0,0", "stringdtype": "string,0,0,0",
    "int": "integer,0,0,0", "Int64": "integer,0,0,0", "uint8": "integer,0,0,0",
    "cat": "categorical,0,0,0", "catint": "categorical,0,0,0", "catunused": "categorical,0,0,0",
    "float": "other,0,0,0", "bool": "other,0,0,0", "mixed": "other,0,0,0", "bytes": "other,0,0,0", "tuple": "other,0,0,0",
    "emptystr": "string,0,0,1", "nanid": "string,1,0,0", "noneid": "string,1,0,0", "negint": "integer,0,1,0",
    "Int64NA": "integer,1,0,0", "catnan": "categorical,1,0,0",
}


def id_pool(kind):
    if kind in ("str", "cat", "catunused", "stringdtype", "nanid", "noneid", "emptystr", "catnan"):
        return _STR
    if kind == "numstr":
        return _NUMSTR
    return _INT


def id_rank(kind, idx):
    pool = id_pool(kind)
    return sorted(pool).index(pool[idx])


def id_column(pd, np, kind, idxs):
    """The `ID` column handed to leaspy for identifier indices `idxs`."""
    pool = id_pool(kind)
    vals = [pool[i] for i in idxs]
    if kind in ("str", "numstr", "int"):
        return vals
    if kind == "cat" or kind == "catint":
        return pd.Categorical(vals)
    if kind == "catunused":
        return pd.Categorical(vals, categories=sorted(set(vals)) + ["zz"])
    if kind == "Int64":
        return pd.array(vals, dtype="Int64")
    if kind == "stringdtype":
        return pd.array(vals, dtype="string")
    if kind == "uint8":
        return np.array(vals, dtype=np.uint8)
    # invalid kinds
    if kind == "float":
        return [float(v) for v in vals]
    if kind == "bool":
        return [bool(v % 2) for v in vals]
    if kind == "emptystr":
        return ["" if k == len(vals) - 1 else v for k, v in enumerate(vals)]
    if kind == "nanid":
        return [np.nan if k == len(vals) - 1 else v for k, v in enumerate(vals)]
    if kind == "noneid":
        return [None if k == len(vals) - 1 else v for k, v in enumerate(vals)]
    if kind == "mixed":
        return [str(v) if k == 0 else v for k, v in enumerate(vals)] if len(vals) > 1 else [1.5]
    if kind == "negint":
        return [-v if k == len(vals) - 1 else v for k, v in enumerate(vals)]
    if kind == "bytes":
        return [str(v).encode() for v in vals]
    if kind == "Int64NA":
        return pd.array([None if k == len(vals) - 1 else v for k, v in enumerate(vals)], dtype="Int64")
    if kind == "catnan":
        return pd.Categorical([np.nan if k == len(vals) - 1 else v for k, v in enumerate(vals)])
    if kind == "tuple":
        return [(v,) for v in vals]
    raise ValueError(kind)


# --------------------------------------------------------------------------------------------- tokens
def age_float(tok):
    if tok == "nan":
        return float("nan")
    if tok == "inf":
        return float("inf")
    if tok == "-inf":
        return float("-inf")
    n, d = tok
    return (10 * n + d) / 1e7


def age_model(tok):
    if tok in ("inf", "-inf"):
        return "inf"
    if tok == "nan":
        return "nan"
    return str(tok[0])


def val_float(tok):
    if tok in ("nan", "inf", "-inf"):
        return float(tok)
    return float(Fraction(tok))


def val_model(tok):
    return "inf" if tok in ("inf", "-inf") else tok


def val_frac(tok):
    return None if tok == "nan" else Fraction(tok)


def mu_of(x):
    """micro-units of a float age as the 6-digit rounding of the reader sees it (numpy: rint(x * 1e6))."""
    import numpy as np
    return int(np.rint(np.float64(x) * 1e6))


def frac_of(x):
    return Fraction(float(x))


FEATS = ["Y0", "Y1", "Y2", "Y3"]
TIME_KINDS_BAD = ["str", "object", "datetime", "complex"]
COL_KINDS_BAD = ["str", "object", "complex"]
# dtypes that are numeric for the reader: python floats / ints, numpy float32 / int32, pandas nullable Int64 / Float64 (pd.NA = missing), bool
NUM_KINDS = ("float", "int", "f32", "i32", "Int64", "Float64", "Float32", "bool")
OPT_DEFAULTS = {"sort_index": False, "drop_full_nan": True, "warn_empty_column": True}


def opt(case, name):
    return (case.get("opts") or {}).get(name, OPT_DEFAULTS[name])


def feat_names(case, dim=None):
    if case.get("featnames"):
        return list(case["featnames"])
    if dim is None:
        dim = len(case["rows"][0][2]) if case["rows"] and case["layout"] != "event" else 0
    return FEATS[:dim]


def ev_names(case):
    return list(case.get("evnames") or ["EVENT_TIME", "EVENT_BOOL"])


def cov_names(case):
    return [f"C{k}" for k in range(case.get("ncov", 0))]


def expected_headers(case):
    """feature names in the order of the columns of the table"""
    names = feat_names(case)
    if case.get("colorder"):
        return [c for c in case["colorder"] if c in names]
    return names


def row_dropped(case, r):
    """rows the reader drops (default option drop_full_nan=True): every cell besides the identifier and the age is missing"""
    if not opt(case, "drop_full_nan"):
        return False
    lay = case["layout"]
    if lay == "event":
        return r[1] == "nan" and r[2] == "nan"
    drop = all(v == "nan" for v in r[2])
    if lay == "joint":
        drop = drop and r[3] == "nan" and r[4] == "nan"
    if lay == "cov":
        drop = drop and all(v == "nan" for v in r[3])
    return drop


def typed_column(pd, np, kind, floats):
    if kind == "float":
        return floats
    if kind == "str":
        return [repr(x) for x in floats]
    if kind == "object":
        return pd.Series(floats, dtype=object)
    if kind == "datetime":
        return pd.to_datetime(["2020-01-01"] * len(floats))
    if kind == "complex":
        return [complex(x) for x in floats]
    if kind == "int":
        return [int(x) for x in floats]
    if kind == "f32":
        return np.array(floats, dtype=np.float32)
    if kind == "i32":
        return np.array([int(x) for x in floats], dtype=np.int32)
    if kind == "Int64":
        return pd.array([None if x != x else int(x) for x in floats], dtype="Int64")
    if kind in ("Float64", "Float32"):
        return pd.array([None if x != x else x for x in floats], dtype=kind)
    if kind == "bool":
        return np.array([bool(x) for x in floats], dtype=bool)
    raise ValueError(kind)


def compatible_kinds(env, tokens, age=False):
    """numeric dtypes that carry these tokens without changing any number (missing stays missing, inf stays inf)"""
    np = env.np
    fin, has_nan, has_inf = [], False, False
    for t in tokens:
        if t == "nan":
            has_nan = True
        elif t in ("inf", "-inf"):
            has_inf = True
        else:
            fin.append(age_float(t) if age else val_float(t))
    out = ["float", "Float64"]
    if all(float(np.float32(x)) == x for x in fin):
        out += ["f32", "Float32"]
    ints = all(float(x).is_integer() and abs(x) < 2 ** 31 for x in fin)
    if ints and not has_inf:
        out.append("Int64")
        if not has_nan:
            out += ["int", "i32"]
            if all(x in (0.0, 1.0) for x in fin) and not age:
                out.append("bool")
    return out


# --------------------------------------------------------------------------------------------- implementation side
class Env:
    def __init__(self):
        warnings.filterwarnings("ignore")
        import leaspy.models  # noqa: F401 (must precede leaspy.variables)
        import numpy as np
        import pandas as pd
        import torch
        from leaspy.exceptions import LeaspyDataInputError, LeaspyInputError
        from leaspy.io.data import Data, Dataset
        from leaspy.io.data.individual_data import IndividualData
        from leaspy.io.data.factory import DataframeDataReaderNames, dataframe_data_reader_factory
        import tempfile
        self.factory, self.ReaderNames = dataframe_data_reader_factory, DataframeDataReaderNames
        self.tmpdir = tempfile.gettempdir()
        self.counter = 0            # table cases seen (the deeper checks are sampled on it in the quick tier)
        self.deep_every = 1
        self.np, self.pd, self.torch = np, pd, torch
        self.Data, self.Dataset, self.IndividualData = Data, Dataset, IndividualData
        self.DIE, self.LIE = LeaspyDataInputError, LeaspyInputError

    def err(self, e):
        if isinstance(e, self.DIE):
            return "err:data"
        if isinstance(e, self.LIE):
            return "err:input"
        return f"err:other:{type(e).__name__}"


def build_df(env, case):
    pd, np = env.pd, env.np
    lay = case["layout"]
    rows = case["rows"]
    ids = id_column(pd, np, case["idkind"], [r[0] for r in rows])
    cols = {"ID": ids}
    if lay in ("visit", "joint", "cov"):
        tk = case.get("tnum", "float")
        cols["TIME"] = typed_column(pd, np, tk, [age_float(r[1]) for r in rows])
        ckinds = case.get("cols") or ["float"] * (len(rows[0][2]) if rows else 0)
        names = feat_names(case, len(ckinds))
        for k, ck in enumerate(ckinds):
            cols[names[k]] = typed_column(pd, np, ck, [val_float(r[2][k]) for r in rows])
    ek = case.get("ecols") or ["float", "float"]
    tn, bn = ev_names(case)
    if lay == "event":
        cols[tn] = typed_column(pd, np, ek[0], [age_float(r[1]) for r in rows])
        cols[bn] = typed_column(pd, np, ek[1], [val_float(r[2]) for r in rows])
    if lay == "joint":
        cols[tn] = typed_column(pd, np, ek[0], [age_float(r[3]) for r in rows])
        cols[bn] = typed_column(pd, np, ek[1], [val_float(r[4]) for r in rows])
    if lay == "cov":
        ck = case.get("ccols") or ["float"] * case["ncov"]
        for k in range(case["ncov"]):
            cols[f"C{k}"] = typed_column(pd, np, ck[k], [val_float(r[3][k]) for r in rows])
    df = pd.DataFrame(cols)
    if case.get("colorder"):
        df = df[list(case["colorder"])]
    ix = case.get("index")
    if ix == "set" and lay in ("visit", "joint", "cov"):
        df = df.set_index(["ID", "TIME"])
    elif ix == "setrev" and lay in ("visit", "joint", "cov"):
        df = df.set_index(["TIME", "ID"])
    elif ix == "id":
        df = df.set_index("ID")
    elif ix == "rowdup":
        df.index = [7] * len(df)
    elif ix == "rowstr":
        df.index = [f"r{k % 2}" for k in range(len(df))]
    elif ix == "rownamed":
        df.index = pd.Index([len(df) - k for k in range(len(df))], name="row")
    return df


def reader_args(case):
    """(data_type, keyword arguments of Data.from_dataframe): factory_kws of the reader + the reader's own options"""
    lay = case["layout"]
    kws = dict(case.get("opts") or {})
    if lay == "visit":
        return "visit", kws
    if lay in ("event", "joint"):
        fk = {}
        if case.get("nb") is not None:
            fk["nb_events"] = case["nb"]
        if case.get("evnames"):
            fk["event_time_name"], fk["event_bool_name"] = case["evnames"]
        if fk:
            kws["factory_kws"] = fk
        return lay, kws
    kws["factory_kws"] = {"covariate_names": [f"C{k}" for k in range(case["ncov"])]}
    return "covariate", kws


def ingest(env, case, df, dt, kws):
    """The table through the entry point the case names (default: Data.from_dataframe(df, "<layout>", **kws))."""
    entry = case.get("entry", "df")
    if entry == "csv":
        import os
        import tempfile
        kw = dict(kws)
        fk = kw.pop("factory_kws", {})
        fd, path = tempfile.mkstemp(suffix=".csv", dir=env.tmpdir)
        os.close(fd)
        try:
            df.to_csv(path, index=False)
            return env.Data.from_csv_file(path, dt, facto_kws=fk, **kw)
        finally:
            os.unlink(path)
    if entry == "reader":
        kw = dict(kws)
        fk = kw.pop("factory_kws", {})
        return env.Data.from_dataframe(df, env.factory(dt, **fk), **kw)
    if entry == "enum":
        return env.Data.from_dataframe(df, env.ReaderNames(dt), **kws)
    if entry == "upper":
        return env.Data.from_dataframe(df, dt.upper() if len(dt) % 2 else dt.title(), **kws)
    return env.Data.from_dataframe(df, dt, **kws)


def snapshot(env, df):
    return (df.copy(deep=True), list(df.columns), df.dtypes.tolist(), df.index.copy(deep=True))


def unchanged(env, df, snap):
    s, cols, dts, idx = snap
    try:
        if list(df.columns) != cols or df.dtypes.tolist() != dts:
            return False
        if not df.index.equals(idx) or list(df.index.names) != list(idx.names):
            return False
        return bool(df.equals(s))
    except Exception:
        return False


def rank_of_value(kind, v):
    """rank of an identifier value coming back from leaspy (python / numpy scalar)."""
    pool = id_pool(kind)
    sp = sorted(pool)
    if isinstance(v, bytes):
        return None
    for k, p in enumerate(sp):
        if type(p) is str:
            if isinstance(v, str) and v == p:
                return k
        else:
            if not isinstance(v, (str, bool)) and v == p:
                return k
    return None


def canon_dataset(env, ds, kind, case=None, full=False):
    """Observable tensor form of a Dataset, in the syntax of the Lean driver; also returns a dict for the predicate.
    The feature axis is listed in the order of the case's features (feature k = column featnames[k]): the dataset's own
    order is that of its `headers`, which must be the feature columns in table order (checked by the predicate)."""
    torch = env.torch
    out = {"ids": [rank_of_value(kind, i) for i in ds.indices]}
    s = []
    s.append("ids=" + fmt_list(out["ids"]))
    out["meta"] = {"n_individuals": ds.n_individuals, "dimension": ds.dimension,
                   "headers": None if ds.headers is None else list(ds.headers),
                   "evnames": [ds.event_time_name, ds.event_bool_name],
                   "covnames": None if ds.covariate_names is None else list(ds.covariate_names)}
    if ds.timepoints is not None:
        perm = None
        if case is not None and ds.headers is not None:
            names = feat_names(case)
            if sorted(map(str, ds.headers)) == sorted(names) and len(set(names)) == len(names):
                perm = [list(ds.headers).index(n) for n in names]
                if perm == list(range(len(names))):
                    perm = None
            elif list(ds.headers) != names:
                out["headers_unrelated"] = True

        def pf(row):      # one feature row in the order of the case
            return row if perm is None else [row[j] for j in perm]
        out["dtypes"] = (str(ds.timepoints.dtype), str(ds.values.dtype), str(ds.mask.dtype))
        out["nvis"] = list(ds.n_visits_per_individual)
        out["nmax"] = int(ds.n_visits_max)
        out["nvt"] = ds.n_visits
        out["times_f"] = [[float(x) for x in r] for r in ds.timepoints.tolist()]
        out["times"] = [[mu_of(x) for x in r] for r in out["times_f"]]
        out["values"] = [[pf([frac_of(x) if math.isfinite(x) else x for x in v]) for v in ind] for ind in ds.values.tolist()]
        out["mask"] = [[pf([x for x in v]) for v in ind] for ind in ds.mask.tolist()]
        out["nobsind"] = [pf(r) for r in ds.n_observations_per_ind_per_ft.tolist()]
        out["nobsft"] = pf(ds.n_observations_per_ft.tolist())
        out["nobs"] = ds.n_observations
        out["shapes"] = (tuple(ds.timepoints.shape), tuple(ds.values.shape), tuple(ds.mask.shape))
        if full:
            try:
                out["L2ft"] = pf([float(x) for x in ds.L2_norm_per_ft.tolist()])
                out["L2"] = float(ds.L2_norm)
                out["getters"] = [([float(x) for x in ds.get_times_patient(i).tolist()],
                                   [pf(v) for v in ds.get_values_patient(i).tolist()]) for i in range(len(ds.indices))]
            except Exception as e:  # noqa
                out["getters_error"] = f"{type(e).__name__}: {e}"

        def fv(x):
            return fmt_rat(x) if isinstance(x, Fraction) else repr(x)

        def fm(x):
            return "1" if x == 1.0 else ("0" if x == 0.0 else repr(x))
        s.append("nvis=" + fmt_list(out["nvis"]))
        s.append(f"nmax={out['nmax']} nvt={out['nvt']}")
        s.append("times=" + "|".join(fmt_list(r) for r in out["times"]))
        s.append("values=" + "|".join(";".join(fmt_list(v, fv) for v in ind) for ind in out["values"]))
        s.append("mask=" + "|".join(";".join(fmt_list(v, fm) for v in ind) for ind in out["mask"]))
        s.append("nobsind=" + "|".join(fmt_list(r) for r in out["nobsind"]))
        s.append("nobsft=" + fmt_list(out["nobsft"]))
        s.append(f"nobs={out['nobs']}")
    if ds.event_time is not None:
        out["edtypes"] = (str(ds.event_time.dtype), str(ds.event_bool.dtype))
        out["etimes"] = [[mu_of(x) for x in r] for r in ds.event_time.tolist()]
        out["ebools"] = [[bool(x) for x in r] for r in ds.event_bool.tolist()]
        nb = len(out["etimes"][0]) if out["etimes"] else 0
        pre = "e" if ds.timepoints is not None else ""
        ev = (f"{pre}ids=" + fmt_list(out["ids"]) + f" nb={nb} etimes=" + "|".join(fmt_list(r) for r in out["etimes"])
              + " ebools=" + "|".join(fmt_list(r, lambda b: "1" if b else "0") for r in out["ebools"]))
        if ds.timepoints is None:
            s = [ev]
        else:
            s.append(ev)
    if ds.covariates is not None:
        out["cdtype"] = str(ds.covariates.dtype)
        out["covs"] = ds.covariates.tolist()
        s.append("covs=" + "|".join(fmt_list(r) for r in out["covs"]))
    out["str"] = " ".join(s)
    return out


def table_tokens(env, case, tab):
    """Rows of the regenerated table (to_pandas + reset_index) in case syntax, or None when it cannot be expressed."""
    kind = case["idkind"]
    lay = case["layout"]
    pool = id_pool(kind)
    rows = []
    df = tab.reset_index()
    feats = [c for c in feat_names(case) if c in df.columns]
    covs = [c for c in cov_names(case) if c in df.columns]
    tn, bn = ev_names(case)

    def vtok(x):
        if isinstance(x, float) and math.isnan(x):
            return "nan"
        if isinstance(x, float) and math.isinf(x):
            return "inf"
        return fmt_rat(frac_of(x))
    for rec in df.to_dict(orient="records"):
        r = rank_of_value(kind, rec["ID"])
        if r is None:
            return None
        idx = pool.index(sorted(pool)[r])
        if lay == "event":
            rows.append([idx, [mu_of(rec[tn]), 0], vtok(float(rec[bn]))])
            continue
        row = [idx, [mu_of(rec["TIME"]), 0], [vtok(float(rec[f])) for f in feats]]
        if lay == "joint":
            row += [[mu_of(rec[tn]), 0], vtok(float(rec[bn]))]
        if lay == "cov":
            row.append([vtok(float(rec[c])) for c in covs])
        rows.append(row)
    return rows


def frame_rows(env, case, frame):
    """Rows of a table produced by leaspy (Data.to_dataframe / Dataset.to_pandas after reset_index) as exact tuples
    (identifier rank, age as float, feature values in the order of the case (None = missing) [, event time, event code] [, covariates])."""
    kind, lay = case["idkind"], case["layout"]
    feats, covs = feat_names(case), cov_names(case)
    tn, bn = ev_names(case)
    out = []

    def cell(x):
        x = float(x)
        return None if x != x else Fraction(x)
    for rec in frame.to_dict(orient="records"):
        row = [rank_of_value(kind, rec.get("ID"))]
        if lay != "event":
            row += [float(rec["TIME"]), tuple(cell(rec[f]) for f in feats)]
        if lay in ("event", "joint"):
            row += [float(rec[tn]), int(rec[bn])]
        if lay == "cov":
            row.append(tuple(int(rec[c]) for c in covs))
        out.append(tuple(row))
    return out


def data_api(env, case, data):
    """Facts about the `Data` object itself (independent of the tensors): the three orders it exposes, counters, names."""
    f = {}
    ids_dict = list(data.individuals)
    f["ids"] = [rank_of_value(case["idkind"], i) for i in ids_dict]
    f["iter_same"] = [ind.idx for ind in data] == ids_dict
    f["map_same"] = list(data.iter_to_idx) == list(range(len(ids_dict))) and [data.iter_to_idx[k] for k in range(len(ids_dict))] == ids_dict
    f["idx_same"] = all(ind.idx == i for i, ind in data.individuals.items())
    f["n_individuals"] = data.n_individuals
    f["positional"] = all(data[k].idx == i for k, i in enumerate(ids_dict))
    # membership is documented for string identifiers only (IDType = str: `in` raises LeaspyTypeError for the integer identifiers
    # the readers accept; not this property's matter)
    f["contains"] = all((i in data) for i in ids_dict if isinstance(i, str))
    f["headers"] = None if data.headers is None else list(data.headers)
    f["dimension"] = data.dimension
    f["n_visits"] = data.n_visits
    f["nvis"] = [None if ind.timepoints is None else len(ind.timepoints) for ind in data.individuals.values()]
    f["evnames"] = [data.event_time_name, data.event_bool_name]
    f["covnames"] = None if data.covariate_names is None else list(data.covariate_names)
    return f


def sub_cohort(env, case, data, ds_full):
    """`Data` restricted to some individuals (by position, reversed; and a slice): the rows of the tensors must be those of the
    full dataset for these individuals, in the requested order. Returns a list of complaints."""
    n = data.n_individuals
    out = []
    picks = [list(range(n - 1, -1, -1))] if n >= 2 else []
    if n >= 3:
        picks.append(slice(1, n))
    for pick in picks:
        want_pos = list(range(n))[pick] if isinstance(pick, slice) else pick
        sub = data[pick]
        ds = canon_dataset(env, env.Dataset(sub), case["idkind"], case)
        if ds["ids"] != [ds_full["ids"][k] for k in want_pos]:
            out.append(f"Data[{pick}] holds individuals {ds['ids']} instead of {[ds_full['ids'][k] for k in want_pos]}")
            continue
        for b, a in enumerate(want_pos):
            nv = ds_full["nvis"][a]
            same = (ds["nvis"][b] == nv and ds["times_f"][b][:nv] == ds_full["times_f"][a][:nv]
                    and ds["values"][b][:nv] == ds_full["values"][a][:nv] and ds["mask"][b][:nv] == ds_full["mask"][a][:nv])
            if "etimes" in ds_full:
                same = same and ds.get("etimes", [None] * len(want_pos))[b] == ds_full["etimes"][a] and ds["ebools"][b] == ds_full["ebools"][a]
            if "covs" in ds_full:
                same = same and ds.get("covs", [None] * len(want_pos))[b] == ds_full["covs"][a]
            if not same:
                out.append(f"Data[{pick}]: row {b} of its dataset is not the row of individual {ds_full['ids'][a]} in the full dataset")
    return out


def run_impl(env, case):
    """from_dataframe -> Dataset -> to_pandas -> re-ingest; every phase guarded."""
    res = {"phase": {}}
    try:
        df = build_df(env, case)
    except Exception as e:  # cannot even build the table with pandas: not a case
        res["build"] = f"{type(e).__name__}: {e}"
        return res
    env.counter += 1
    deep = (env.counter % env.deep_every) == 0
    snap = snapshot(env, df)
    dt, kws = reader_args(case)
    try:
        with core.quiet():
            data = ingest(env, case, df, dt, kws)
        res["phase"]["data"] = "ok"
    except Exception as e:
        res["phase"]["data"] = env.err(e)
        res["msg"] = str(e)
        res["unchanged"] = unchanged(env, df, snap)
        return res
    res["data_ids"] = [rank_of_value(case["idkind"], i) for i in data.individuals]
    try:
        res["data_api"] = data_api(env, case, data)
    except Exception as e:  # noqa
        res["data_api_error"] = f"{type(e).__name__}: {e}"
    frame0 = None
    if deep:
        try:
            with core.quiet():
                frame0 = data.to_dataframe()
            res["frame_rows"] = frame_rows(env, case, frame0)
            res["frame_cols"] = list(frame0.columns)
        except Exception as e:  # noqa
            res["frame_error"] = f"{type(e).__name__}: {e}"
    try:
        with core.quiet():
            ds_obj = env.Dataset(data)
        res["phase"]["dataset"] = "ok"
        res["ds"] = canon_dataset(env, ds_obj, case["idkind"], case, full=True)
    except Exception as e:
        res["phase"]["dataset"] = env.err(e)
        res["unchanged"] = unchanged(env, df, snap)
        return res
    try:
        with core.quiet():
            tab = ds_obj.to_pandas()
        res["phase"]["table"] = "ok"
        res["table_rows"] = table_tokens(env, case, tab)
    except Exception as e:
        res["phase"]["table"] = env.err(e)
        res["unchanged"] = unchanged(env, df, snap)
        return res
    re_kws = dict(kws)
    # (a) the regenerated table as it is (its TIME level is float32: the reader's 6-digit rounding then runs in float32 arithmetic)
    try:
        with core.quiet():
            tab_in = tab.reset_index()
            snap2 = snapshot(env, tab_in)
            ds2d = env.Dataset(env.Data.from_dataframe(tab_in, dt, **re_kws))
        res["phase"]["re_direct"] = "ok"
        res["ds2d"] = canon_dataset(env, ds2d, case["idkind"], case)
        res["unchanged2"] = unchanged(env, tab_in, snap2)
    except Exception as e:
        res["phase"]["re_direct"] = env.err(e)
    # (b) the same table with TIME read as float64 (what a CSV round trip gives): this is the path the model describes
    try:
        with core.quiet():
            tab_in = tab.reset_index()
            if "TIME" in tab_in.columns:
                tab_in["TIME"] = tab_in["TIME"].astype("float64")
            ds2 = env.Dataset(env.Data.from_dataframe(tab_in, dt, **re_kws))
        res["phase"]["re"] = "ok"
        res["ds2"] = canon_dataset(env, ds2, case["idkind"], case)
    except Exception as e:
        res["phase"]["re"] = env.err(e)
    if deep:
        extra = []
        try:
            with core.quiet():
                # the Data object after Dataset(data) and to_pandas: untouched (missing values still missing, same rows)
                if frame0 is not None:
                    again = data.to_dataframe()
                    if list(again.columns) != list(frame0.columns) or frame_rows(env, case, again) != res.get("frame_rows"):
                        extra.append("building the Dataset / converting it back modified the Data object (Data.to_dataframe differs before / after)")
                    # the table form of the Data object, re-ingested with the same options: the very same tensors
                    ds3 = canon_dataset(env, env.Dataset(env.Data.from_dataframe(frame0, dt, **re_kws)), case["idkind"], case)
                    if ds3["str"] != res["ds"]["str"]:
                        extra.append("re-ingesting Data.to_dataframe() does not give the same tensor dataset")
                # a second Dataset of the same Data object
                if canon_dataset(env, env.Dataset(data), case["idkind"], case)["str"] != res["ds"]["str"]:
                    extra.append("a second Dataset built from the same Data object differs from the first")
                # to_pandas restricted to the features
                if ds_obj.headers is not None:
                    only = ds_obj.to_pandas(apply_headers=True)
                    if list(only.columns) != list(ds_obj.headers) or not only.equals(tab[list(ds_obj.headers)]):
                        extra.append("to_pandas(apply_headers=True) is not the feature columns of to_pandas()")
                if case["layout"] != "event":
                    extra += sub_cohort(env, case, data, res["ds"])
        except Exception as e:  # noqa
            extra.append(f"conversion of an accepted table raised {type(e).__name__}: {str(e)[:120]}")
        res["extra"] = extra
    res["unchanged"] = unchanged(env, df, snap)
    return res


# --------------------------------------------------------------------------------------------- the property's predicate
def f32_collides(env, case):
    """F9 region: two ages of one individual, distinct after the 6-digit rounding, equal in single precision."""
    np = env.np
    seen = {}
    for r in case["rows"]:
        if not isinstance(r[1], list):
            return False
        seen.setdefault(r[0], set()).add(r[1][0])
    for ages in seen.values():
        f = {}
        for a in ages:
            k = float(np.float32(a / 1e6))
            if k in f and f[k] != a:
                return True
            f[k] = a
    return False


def f32_rounding_merges(env, case):
    """F9f region: two ages of one individual that are different float32 numbers but have the same 6-digit rounding when
    that rounding is carried out in float32 arithmetic (what numpy does on the float32 TIME column of to_pandas)."""
    np = env.np
    per = {}
    for r in case["rows"]:
        if not isinstance(r[1], list):
            return False
        per.setdefault(r[0], set()).add(float(np.float32(r[1][0] / 1e6)))
    for xs in per.values():
        rounded = [float(np.round(np.float32(x), 6)) for x in xs]
        if len(set(rounded)) != len(rounded):
            return True
    return False


def is_exact_ages(env, case):
    np = env.np
    for r in case["rows"]:
        if not isinstance(r[1], list) or r[1][1] != 0:
            continue
        a = r[1][0]
        if float(np.float32(a / 1e6)) != a / 1e6:
            return False
    return True


def malformation(case):
    """Which listed malformation the table carries (None = valid table). Independent of the Lean model."""
    lay = case["layout"]
    rows = case["rows"]
    if case["idkind"] in ID_KINDS_INVALID:
        return "invalid-identifier"
    if not rows:
        return "empty-table"
    if lay in ("visit", "joint", "cov"):
        if case.get("tnum", "float") not in NUM_KINDS:
            return "non-numeric-age"
        if any(not isinstance(r[1], list) for r in rows):
            return "missing-or-infinite-age"
        keys = [(r[0], r[1][0]) for r in rows]
        if len(set(keys)) != len(keys):
            return "duplicate-visit"
        if any(k not in NUM_KINDS for k in (case.get("cols") or [])):
            return "non-numeric-value"
        if any(v in ("inf", "-inf") for r in rows for v in r[2]):
            return "infinite-value"
    if lay == "visit":
        if not rows[0][2]:
            return "no-feature"
        if all(row_dropped(case, r) for r in rows):
            return "no-observation"
    if lay == "event":
        ids = [r[0] for r in rows]
        if len(set(ids)) != len(ids):
            return "duplicate-individual"
        return event_malformation([(r[0], r[1], r[2]) for r in rows if not row_dropped(case, r)], case.get("nb"))
    if lay == "joint":
        if not rows[0][2]:
            return "no-feature"
        kept = [r for r in rows if not row_dropped(case, r)]
        m = event_malformation([(r[0], r[3], r[4]) for r in kept], case.get("nb"))
        if m:
            return m
        last = {}
        for r in kept:
            last[r[0]] = max(last.get(r[0], r[1][0]), r[1][0])
        ev = {}
        for r in kept:
            ev.setdefault(r[0], (r[3][0], Fraction(r[4])))
        before = [i for i in ev if ev[i][0] - last[i] < -1000]
        if any(ev[i][1] != 0 for i in before):
            return "event-before-last-visit"
    if lay == "cov":
        if case["ncov"] < 1:
            return "no-covariate-name"
        if not rows[0][2]:
            return "no-feature"
        if any(v in ("inf", "-inf") for r in rows for v in r[3]):
            return "infinite-value"
        kept = [r for r in rows if not row_dropped(case, r)]
        if not kept:
            return "no-observation"
        if any(v == "nan" for r in kept for v in r[3]):
            return "missing-covariate"
        if any(Fraction(v).denominator != 1 for r in kept for v in r[3]):
            return "non-integer-covariate"
        per = {}
        for r in kept:
            per.setdefault(r[0], set()).add(tuple(r[3]))
        if any(len(s) > 1 for s in per.values()):
            return "inconsistent-covariate"
        firsts = [next(iter(s)) for s in per.values()]
        for k in range(case["ncov"]):
            if len({f[k] for f in firsts}) < 2:
                return "constant-covariate"
    return None


def event_malformation(evrows, nb):
    if not evrows:
        return "no-observation"
    for _, t, c in evrows:
        if t in ("inf", "-inf") or c in ("inf", "-inf"):
            return "infinite-value"
    for _, t, c in evrows:
        if t == "nan" or t[0] <= 0:
            return "bad-event-time"
    for _, t, c in evrows:
        if c == "nan":
            return "missing-event-indicator"
        if Fraction(c).denominator != 1:
            return "non-integer-event-indicator"
        if Fraction(c) < 0:
            return "negative-event-indicator"
    per = {}
    for i, t, c in evrows:
        per.setdefault(i, set()).add((t[0], Fraction(c)))
    if any(len(s) > 1 for s in per.values()):
        return "inconsistent-event"
    mx = max(int(Fraction(c)) for _, _, c in evrows)
    if not nb:
        if mx == 0:
            return "no-event-and-no-count"
    elif nb != mx and mx != 0:
        return "event-count-mismatch"
    return None


def reference(case):
    """Canonical form the property prescribes for a valid longitudinal table: (ids in order of first appearance among
    the kept rows, id -> sorted visits)."""
    lay = case["layout"]
    order, groups = [], {}
    for r in case["rows"]:
        vals = [val_frac(v) for v in r[2]]
        if row_dropped(case, r):
            continue
        rk = id_rank(case["idkind"], r[0])
        if rk not in groups:
            groups[rk] = []
            order.append(rk)
        groups[rk].append((r[1][0], vals))
    for g in groups.values():
        g.sort(key=lambda x: x[0])
    if opt(case, "sort_index"):
        order = sorted(order)
    return order, groups


def check_tensor(env, case, ds, order, groups, store):
    """mask / counts / alignment / padding of one canonical dataset against the prescribed form; returns failures."""
    fails = []
    if ds["ids"] != order:
        fails.append(f"individual order {ds['ids']} is not the order of first appearance {order}")
        return fails
    dim = len(case["rows"][0][2])
    n = len(order)
    nvis = [len(groups[i]) for i in order]
    nmax = max(nvis)
    if ds["dtypes"] != ("torch.float32", "torch.float32", "torch.float32"):
        fails.append(f"tensor dtypes {ds['dtypes']}")
    if ds["shapes"] != ((n, nmax), (n, nmax, dim), (n, nmax, dim)):
        fails.append(f"tensor shapes {ds['shapes']} != {(n, nmax, dim)}")
        return fails
    if ds["nvis"] != nvis or ds["nmax"] != nmax or ds["nvt"] != sum(nvis):
        fails.append(f"visit counters {ds['nvis']}/{ds['nmax']}/{ds['nvt']} != {nvis}/{nmax}/{sum(nvis)}")
    np = env.np
    nobs_ind = [[0] * dim for _ in order]
    for a, i in enumerate(order):
        for j in range(nmax):
            if j < nvis[a]:
                age, vals = groups[i][j]
                want_t = float(np.float32(age / 1e6))
                if ds["times_f"][a][j] != want_t:
                    fails.append(f"age of individual {i} visit {j}: {ds['times_f'][a][j]!r} is not the single-precision rounding of {age / 1e6!r}")
                for k in range(dim):
                    present = vals[k] is not None
                    if (ds["mask"][a][j][k] == 1.0) != present or ds["mask"][a][j][k] not in (0.0, 1.0):
                        fails.append(f"mask of individual {i} visit {j} feature {k} is {ds['mask'][a][j][k]} but value present={present}")
                    want_v = vals[k] if present else Fraction(0)
                    if ds["values"][a][j][k] != want_v:
                        fails.append(f"value of individual {i} visit {j} feature {k}: {ds['values'][a][j][k]} != {want_v}")
                    nobs_ind[a][k] += int(present)
            else:
                if ds["times_f"][a][j] != 0.0 or any(x != 0 for x in ds["values"][a][j]) or any(x != 0.0 for x in ds["mask"][a][j]):
                    fails.append(f"padding of individual {i} row {j} is not zero / unmasked")
        ts = ds["times_f"][a][:nvis[a]]
        if any(not (x < y) for x, y in zip(ts, ts[1:])):
            fails.append(f"ages of individual {i} are not strictly increasing in the tensor: {ts}")
    nobs_ft = [sum(r[k] for r in nobs_ind) for k in range(dim)]
    if ds["nobsind"] != nobs_ind or ds["nobsft"] != nobs_ft or ds["nobs"] != sum(nobs_ft):
        fails.append(f"observation counters {ds['nobsind']}/{ds['nobsft']}/{ds['nobs']} != {nobs_ind}/{nobs_ft}/{sum(nobs_ft)}")
    return fails[:4]


def expected_events(case):
    lay = case["layout"]
    per, order = {}, []
    for r in case["rows"]:
        t, c = (r[1], r[2]) if lay == "event" else (r[3], r[4])
        if row_dropped(case, r):
            continue
        rk = id_rank(case["idkind"], r[0])
        if rk not in per:
            per[rk] = (t[0], int(Fraction(c)))
            order.append(rk)
    mx = max(c for _, c in per.values())
    nb = case.get("nb") or mx
    if opt(case, "sort_index"):
        order = sorted(order)
    return order, per, nb


def ghost_category(case):
    """F9e region: categorical ID column with a category that no kept row carries (declared but unused, or all of the
    individual's rows dropped as entirely missing)."""
    if case["idkind"] not in ("cat", "catint", "catunused"):
        return False
    if case["idkind"] == "catunused":
        return True
    lay = case["layout"]
    alive, seen = set(), set()
    for r in case["rows"]:
        seen.add(r[0])
        if not row_dropped(case, r):
            alive.add(r[0])
    return alive != seen


def predicate(env, case, res):
    """C14 evaluated on the implementation's observable behaviour. Returns [(what, finding-id-or-None)]."""
    fails = []
    if res.get("unchanged") is False or res.get("unchanged2") is False:
        fails.append(("the caller's table was modified", None))
    lay = case["layout"]
    mal = malformation(case)
    ph = res["phase"]
    accepted = ph.get("data") == "ok" and ph.get("dataset") == "ok"
    if mal is not None:
        if accepted:
            fid = "F9c" if mal in ("negative-event-indicator",) else None
            fails.append((f"malformed table ({mal}) silently accepted", fid))
        elif ph.get("data") == "ok" and ph.get("dataset") != "ok":
            fid = None
            fails.append((f"malformed table ({mal}) accepted by Data.from_dataframe, Dataset raises {ph['dataset']}", fid))
        elif ph["data"] != "err:data":
            fid = "F9c" if mal in ("missing-event-indicator", "negative-event-indicator") else None
            fails.append((f"malformed table ({mal}) rejected with {ph['data']} instead of a data-input error", fid))
        return fails
    # ----- valid table
    if not accepted:
        which = ph.get("dataset") if ph.get("data") == "ok" else ph.get("data")
        fid = "F9e" if ghost_category(case) else None
        fails.append((f"valid table refused ({'Dataset' if ph.get('data') == 'ok' else 'Data.from_dataframe'}: {which})", fid))
        return fails
    ds = res["ds"]
    if lay == "event":
        order, per, nb = expected_events(case)
        if ds["ids"] != order:
            fails.append((f"individual order {ds['ids']} is not the order of first appearance {order}",
                          "F9d" if sorted(ds["ids"]) == sorted(order) and ds["ids"] == sorted(order) else None))
        else:
            want_t = [[per[i][0]] * nb for i in order]
            want_b = [[k + 1 == per[i][1] for k in range(nb)] for i in order]
            if ds["etimes"] != want_t or ds["ebools"] != want_b:
                fails.append((f"event tensors {ds['etimes']}/{ds['ebools']} != {want_t}/{want_b}", None))
    else:
        order, groups = reference(case)
        for f in check_tensor(env, case, ds, order, groups, case.get("store", "id")):
            fid = "F9" if ("strictly increasing" in f and f32_collides(env, case)) else None
            fails.append((f, fid))
        if lay == "joint":
            eo, per, nb = expected_events(case)
            if ds["ids"] == order:
                want_t = [[per[i][0]] * nb for i in order]
                want_b = [[k + 1 == per[i][1] for k in range(nb)] for i in order]
                if ds.get("etimes") != want_t or ds.get("ebools") != want_b:
                    fails.append((f"event tensors {ds.get('etimes')}/{ds.get('ebools')} != {want_t}/{want_b}", None))
        if lay == "cov" and ds["ids"] == order:
            first = {}
            for r in case["rows"]:
                rk = id_rank(case["idkind"], r[0])
                dropped = row_dropped(case, r)
                if rk in groups and not dropped and rk not in first:
                    first[rk] = [int(Fraction(v)) for v in r[3]]
            if ds.get("covs") != [first[i] for i in order]:
                fails.append((f"covariate tensor {ds.get('covs')} != {[first[i] for i in order]}", None))
    fails += [(f, None) for f in api_fails(env, case, res)]
    # ----- round trip
    if ph.get("table") != "ok":
        fid = None
        if lay in ("visit", "joint", "cov") and f32_collides(env, case):
            fid = "F9"
        fails.append((f"to_pandas raises {ph.get('table')} on an accepted dataset", fid))
        return fails
    if ph.get("re") != "ok":
        fid = "F9b" if lay == "cov" else None
        fails.append((f"re-ingesting the table produced by to_pandas raises {ph.get('re')}", fid))
        return fails
    if ph.get("re_direct") != "ok":
        fid = "F9b" if lay == "cov" else ("F9f" if f32_rounding_merges(env, case) else None)
        fails.append((f"re-ingesting the table produced by to_pandas (as is) raises {ph.get('re_direct')}", fid))
        return fails
    for ds2, exact in ((res["ds2"], is_exact_ages(env, case)), (res["ds2d"], False)):
        fails += roundtrip_fails(env, lay, ds, ds2, exact)
    return fails[:5]


def api_fails(env, case, res):
    """What else the objects expose about an accepted valid table: the `Data` object (orders, counters, names, table form),
    the ancillary attributes of the `Dataset` (names, norms, per-individual getters, dtypes), sub-cohorts, repeated conversions."""
    out = []
    lay = case["layout"]
    ds = res["ds"]
    if lay == "event":
        order, per, nb = expected_events(case)
        groups, dim, names = None, None, None
    else:
        order, groups = reference(case)
        dim = len(case["rows"][0][2])
        names = expected_headers(case)
        per = expected_events(case)[1] if lay == "joint" else None
    evn = ev_names(case) if lay in ("event", "joint") else [None, None]
    cvn = cov_names(case) if lay == "cov" else None
    # ---- Data
    if "data_api_error" in res:
        out.append(f"reading the Data object raised {res['data_api_error']}")
    d = res.get("data_api")
    if d:
        if d["ids"] != order:
            out.append(f"Data.individuals lists {d['ids']}, expected {order}")
        if not (d["iter_same"] and d["map_same"] and d["idx_same"] and d["positional"] and d["contains"]):
            out.append("the orders the Data object exposes disagree (individuals / iteration / iter_to_idx / positional access / membership): "
                       + str({k: d[k] for k in ("iter_same", "map_same", "idx_same", "positional", "contains")}))
        if d["n_individuals"] != len(order):
            out.append(f"Data.n_individuals = {d['n_individuals']} for {len(order)} individuals")
        if d["headers"] != names or d["dimension"] != dim:
            out.append(f"Data.headers / dimension = {d['headers']} / {d['dimension']}, the feature columns of the table are {names}")
        if groups is not None and (d["nvis"] != [len(groups[i]) for i in order] or d["n_visits"] != sum(len(groups[i]) for i in order)):
            out.append(f"Data: visits per individual {d['nvis']} (total {d['n_visits']}), expected {[len(groups[i]) for i in order]}")
        if d["evnames"] != evn or d["covnames"] != cvn:
            out.append(f"Data: event / covariate column names {d['evnames']} / {d['covnames']}, expected {evn} / {cvn}")
    if "frame_error" in res:
        out.append(f"Data.to_dataframe() raised {res['frame_error']}")
    if "frame_rows" in res:
        want = []
        for i in order:
            if lay == "event":
                want.append((i, per[i][0], per[i][1]))
                continue
            for age, vals in groups[i]:
                row = [i, age, tuple(vals)]
                if lay == "joint":
                    row += [per[i][0], per[i][1]]
                if lay == "cov":
                    first = next(r for r in case["rows"] if id_rank(case["idkind"], r[0]) == i and not row_dropped(case, r))
                    row.append(tuple(int(Fraction(v)) for v in first[3]))
                want.append(tuple(row))
        got = []
        for r in res["frame_rows"]:
            r = list(r)
            if lay == "event":
                r[1] = mu_of(r[1])
            else:
                r[1] = mu_of(r[1])
                if lay == "joint":
                    r[3] = mu_of(r[3])
            got.append(tuple(r))
        if got != want:
            k = next((j for j, (a, b) in enumerate(zip(got, want)) if a != b), min(len(got), len(want)))
            out.append(f"Data.to_dataframe() is not the accepted table (individuals in order, visits by age): row {k} is "
                       f"{got[k] if k < len(got) else None}, expected {want[k] if k < len(want) else None}")
        if names is not None and [c for c in res["frame_cols"] if c in names] != names:
            out.append(f"Data.to_dataframe(): feature columns {res['frame_cols']} are not in table order {names}")
    # ---- Dataset
    m = ds["meta"]
    if m["n_individuals"] != len(order) or m["dimension"] != dim or m["headers"] != names:
        out.append(f"Dataset: n_individuals / dimension / headers = {m['n_individuals']} / {m['dimension']} / {m['headers']}, expected "
                   f"{len(order)} / {dim} / {names}")
    if m["evnames"] != evn or m["covnames"] != cvn:
        out.append(f"Dataset: event / covariate column names {m['evnames']} / {m['covnames']}, expected {evn} / {cvn}")
    if "edtypes" in ds and ds["edtypes"] != ("torch.float64", "torch.bool"):
        out.append(f"dtypes of the event tensors {ds['edtypes']}")
    if "cdtype" in ds and ds["cdtype"] != "torch.int32":
        out.append(f"dtype of the covariate tensor {ds['cdtype']}")
    if "getters_error" in ds:
        out.append(f"Dataset norms / per-individual getters raised {ds['getters_error']}")
    if groups is not None and "getters" in ds and ds["ids"] == order:
        np = env.np
        sq = [Fraction(0)] * dim
        cnt = [0] * dim
        for a, i in enumerate(order):
            times, vals = ds["getters"][a]
            want_v = [[None if v is None else float(v) for v in vs] for _, vs in groups[i]]
            got_v = [[None if x != x else x for x in row] for row in vals]
            if times != ds["times_f"][a][:len(groups[i])]:
                out.append(f"get_times_patient({a}) = {times} is not the ages of individual {i}")
            if got_v != want_v:
                out.append(f"get_values_patient({a}) is not the observations of individual {i} with nan at the missing entries")
            for _, vs in groups[i]:
                for k, v in enumerate(vs):
                    if v is not None:
                        sq[k] += v * v
                        cnt[k] += 1
        if "L2ft" in ds:
            for k in range(dim):
                tol = (cnt[k] + 2) * 2.0 ** -23 * float(sq[k]) + 1e-44
                if not abs(ds["L2ft"][k] - float(sq[k])) <= tol:
                    out.append(f"L2_norm_per_ft[{k}] = {ds['L2ft'][k]!r} is not the sum of the squared observed values {float(sq[k])!r}")
            tot = float(sum(sq))
            if not abs(ds["L2"] - tot) <= (sum(cnt) + dim + 2) * 2.0 ** -23 * tot + 1e-44:
                out.append(f"L2_norm = {ds['L2']!r} is not the sum of the squared observed values {tot!r}")
    out += res.get("extra", [])
    return out[:4]


def roundtrip_fails(env, lay, ds, ds2, exact):
    fails = []
    if ds2["ids"] != sorted(ds["ids"]):
        fails.append((f"re-ingested individuals {ds2['ids']} are not the individuals {ds['ids']} in table order", None))
        return fails
    for b, i in enumerate(ds2["ids"]):
        a = ds["ids"].index(i)
        if lay != "event":
            n = ds["nvis"][a]
            if ds2["nvis"][b] != n:
                fails.append((f"round trip changes the number of visits of individual {i}", None))
                continue
            t1, t2 = ds["times_f"][a][:n], ds2["times_f"][b][:n]
            if exact:
                same_t = t1 == t2
            else:  # single-precision rounding only: at most one float32 ulp (re-rounding to 6 digits may cross a rounding boundary)
                np = env.np
                same_t = all(abs(x - y) <= float(np.spacing(np.float32(abs(x)))) for x, y in zip(t1, t2))
            if not same_t:
                fails.append((f"round trip changes the ages of individual {i} beyond single-precision rounding: {t1} -> {t2}", None))
            if ds["values"][a][:n] != ds2["values"][b][:n] or ds["mask"][a][:n] != ds2["mask"][b][:n]:
                fails.append((f"round trip changes values / mask of individual {i}", None))
            if ds["nobsind"][a] != ds2["nobsind"][b]:
                fails.append((f"round trip changes observation counts of individual {i}", None))
        if "etimes" in ds and (ds["etimes"][a] != ds2["etimes"][b] or ds["ebools"][a] != ds2["ebools"][b]):
            fails.append((f"round trip changes the event of individual {i}", None))
        if "covs" in ds and ds["covs"][a] != ds2.get("covs", [None] * len(ds2["ids"]))[b]:
            fails.append((f"round trip changes the covariates of individual {i}", None))
    return fails


# --------------------------------------------------------------------------------------------- model side
def model_line(case, rows=None):
    lay = case["layout"]
    if lay == "addobs":
        return "addobs calls=" + ("@".join(";".join(f"{a}:{fmt_list(v)}" for a, v in call) or "_" for call in case["calls"]) or "_")
    rows = case["rows"] if rows is None else rows
    kind = case["idkind"]
    rk = lambda i: id_rank(kind, i)  # noqa: E731
    store = case.get("store", "f32")
    if opt(case, "sort_index") and kind not in ID_KINDS_INVALID:
        # reader option sort_index=True = the same table with its rows in lexicographic (ID, TIME) order (pandas contract, see
        # trusted_extra); only done when every age is a number (any other table is refused whatever the order of its rows)
        tpos = 1
        if lay == "event" or all(isinstance(r[tpos], list) for r in rows):
            rows = sorted(rows, key=(lambda r: rk(r[0])) if lay == "event" else (lambda r: (rk(r[0]), r[1][0])))
    if lay == "visit":
        cols = case.get("cols") or ["float"] * (len(rows[0][2]) if rows else 0)
        rs = ";".join(f"{rk(r[0])}:{age_model(r[1])}:{fmt_list([val_model(v) for v in r[2]])}" for r in rows) or "_"
        tnum = "1" if case.get("tnum", "float") in NUM_KINDS else "0"
        return (f"visit id={MODEL_IDCOL[kind]} tnum={tnum} cols={fmt_list(['1' if c in NUM_KINDS else '0' for c in cols])} "
                f"store={store} rows={rs}")
    if lay == "event":
        rs = ";".join(f"{rk(r[0])}:{age_model(r[1])}:{val_model(r[2])}" for r in rows) or "_"
        return f"event nb={'none' if case.get('nb') is None else case['nb']} rows={rs}"
    if lay == "joint":
        rs = ";".join(f"{rk(r[0])}:{r[1][0]}:{fmt_list(r[2])}:{age_model(r[3])}:{val_model(r[4])}" for r in rows) or "_"
        return f"joint dim={len(rows[0][2]) if rows else 0} nb={'none' if case.get('nb') is None else case['nb']} store={store} rows={rs}"
    if lay == "cov":
        rs = ";".join(f"{rk(r[0])}:{r[1][0]}:{fmt_list(r[2])}:{fmt_list([val_model(v) for v in r[3]])}" for r in rows) or "_"
        return f"cov dim={len(rows[0][2]) if rows else 0} ncov={case['ncov']} store={store} rows={rs}"
    if lay == "addobs":
        return "addobs calls=" + ("@".join(";".join(f"{a}:{fmt_list(v)}" for a, v in call) or "_" for call in case["calls"]) or "_")
    raise ValueError(lay)


def model_expressible(case):
    """The Lean request syntax covers raw malformations for the visit layout and cell-level ones for the others."""
    lay = case["layout"]
    if not opt(case, "drop_full_nan"):
        return False            # the model always drops the rows that are entirely missing (the default of the reader)
    if lay == "visit":
        return True
    if case["idkind"] in ID_KINDS_INVALID or not case["rows"]:
        return False
    if lay in ("joint", "cov"):
        if case.get("tnum", "float") not in NUM_KINDS or any(k not in NUM_KINDS for k in (case.get("cols") or [])):
            return False
        if any(not isinstance(r[1], list) for r in case["rows"]):
            return False
        if any(v in ("inf", "-inf") for r in case["rows"] for v in r[2]):
            return False
    return True


def impl_string(res):
    """The implementation's behaviour in the response syntax of the driver (first generation)."""
    ph = res["phase"]
    if ph.get("data") != "ok":
        return ph["data"]
    if ph.get("dataset") != "ok":
        return "dataset:" + ph["dataset"]
    return "ok " + res["ds"]["str"]


# which check raised: tag of the model -> text that the message of the implementation must contain
REASON = {
    "idType": ["should identify individuals as string, integer or categories"],
    "idNa": ["should NOT contain any nan ("],
    "idNegative": ["should be >= 0"],
    "idEmpty": ["should be empty"],
    "timeType": ["`TIME` column should contain numeric values"],
    "timeNa": ["`TIME` column should NOT contain any nan nor inf"],
    "duplicate": ["Some raw are duplicated"],
    "valueType": ["All columns should be of numerical type"],
    "valueInf": ["Values may be nan but not infinite"],
    "noRow": ["at least 1 row", "at least 1 feature or an event"],
    "noFeature": ["at least 1 feature..."],
    "eventTime": ["Events must be above 0"],
    "eventCode": ["Events must be stored in type int"],
    "eventUnique": ["only an unique event_time"],
    "eventNone": ["There are no event"],
    "eventCount": ["number of events you provided is different"],
    "eventBefore": ["Event should happen after or at the last visit"],
    "covNone": ["at least one covariate name"],
    "covMissing": ["contains missing values"],
    "covInteger": ["must contain only integer values"],
    "covUnique": ["only an unique covariate value per patient"],
    "covConstant": ["unique value."],
}
REASON_LAYOUTS = ("event", "joint", "cov")


def compare(chk, env, items):
    """items: [(case, res)] -> send to the model, diff. Returns nothing."""
    lines, owners = [], []
    for k, (case, res) in enumerate(items):
        if "build" in res or not model_expressible(case):
            continue
        lines.append(model_line(case))
        owners.append((k, "first"))
        # second generation for layouts whose to_pandas is not modelled: feed the regenerated table to the model
        if case["layout"] in ("event", "joint", "cov") and res["phase"].get("re") == "ok" and res.get("table_rows"):
            lines.append(model_line(case, res["table_rows"]))
            owners.append((k, "second"))
    out = chk.model(lines)
    for (k, which), resp in zip(owners, out):
        case, res = items[k]
        cj = case
        if which == "second":
            want = "ok " + res["ds2"]["str"]
            if resp != want:
                chk.disagree(cj, want, resp, "dataset of the re-ingested table (second generation)")
            continue
        ph = res["phase"]
        if resp.startswith("err:data:"):
            impl = impl_string(res)
            if impl != "err:data":
                chk.disagree(cj, impl[:300], resp, "model rejects with a data-input error")
            elif case["layout"] in REASON_LAYOUTS:
                tag = resp[len("err:data:"):]
                msg = res.get("msg", "")
                chk.tag("reject_reason[%s]" % case["layout"], tag)
                if not any(t in msg for t in REASON.get(tag, [])):
                    chk.disagree(cj, "err:data: " + msg[:160].replace("\n", " "), resp, "rejection reason (which check raised)")
            continue
        if not resp.startswith("ok "):
            chk.disagree(cj, impl_string(res)[:300], resp, "unexpected model response")
            continue
        if ph.get("data") != "ok" or ph.get("dataset") != "ok":
            chk.disagree(cj, impl_string(res), resp[:300], "model accepts, implementation rejects")
            continue
        if case["layout"] == "visit":
            first, _, rest = resp.partition(" table=")
            if first != "ok " + res["ds"]["str"]:
                chk.disagree(cj, "ok " + res["ds"]["str"], first, "tensor form")
                continue
            if rest.startswith("err:data:"):
                if ph.get("table") != "err:data":
                    chk.disagree(cj, ph.get("table"), rest, "to_pandas outcome")
                continue
            tab, _, re_ = rest.partition(" re=")
            if ph.get("table") != "ok":
                chk.disagree(cj, ph.get("table"), "ok", "to_pandas outcome")
                continue
            if res.get("table_rows") is not None:
                kind = case["idkind"]
                impl_tab = ";".join(f"{id_rank(kind, r[0])}:{r[1][0]}:{fmt_list(r[2])}" for r in res["table_rows"])
                if impl_tab != tab:
                    chk.disagree(cj, impl_tab, tab, "table produced by to_pandas")
                    continue
            if ph.get("re") != "ok":
                if not re_.startswith("err:data"):
                    chk.disagree(cj, ph.get("re"), re_[:200], "re-ingestion outcome")
            elif re_ != res["ds2"]["str"]:
                chk.disagree(cj, res["ds2"]["str"], re_, "tensor form of the re-ingested table")
        else:
            if resp != "ok " + res["ds"]["str"]:
                chk.disagree(cj, "ok " + res["ds"]["str"], resp, "tensor form")


# --------------------------------------------------------------------------------------------- add_observations
def run_addobs(env, case):
    np = env.np
    p = env.IndividualData("x")
    try:
        for call in case["calls"]:
            p.add_observations([a / 1e6 for a, _ in call], [[val_float(v) for v in vals] for _, vals in call])
    except Exception as e:
        return {"out": env.err(e)}
    if p.timepoints is None:
        return {"out": "ok visits=_", "ages": [], "vals": []}
    ages = [mu_of(t) for t in p.timepoints.tolist()]
    vals = [["nan" if (isinstance(x, float) and math.isnan(x)) else fmt_rat(frac_of(x)) for x in row] for row in np.asarray(p.observations).tolist()]
    return {"out": "ok visits=" + ";".join(f"{a}:{fmt_list(v)}" for a, v in zip(ages, vals)), "ages": ages, "vals": vals}


def addobs_predicate(case, res):
    flat = [(a, v) for call in case["calls"] for a, v in call]
    ages = [a for a, _ in flat]
    dup = len(set(ages)) != len(ages)
    if dup:
        return [] if res["out"] == "err:data" else [f"a repeated age was not refused with a data-input error: {res['out'][:80]}"]
    if not res["out"].startswith("ok"):
        return [f"distinct ages refused: {res['out']}"]
    want = sorted(flat, key=lambda x: x[0])
    got = list(zip(res["ages"], res["vals"]))
    if [a for a, _ in got] != [a for a, _ in want]:
        return [f"ages not sorted / not preserved: {res['ages']}"]
    if [list(v) for _, v in got] != [list(v) for _, v in want]:
        return ["observations not aligned with their ages after sorted insertion"]
    return []


# --------------------------------------------------------------------------------------------- schema-level cases (not modelled)
SCHEMA_CASES = ["not-a-dataframe", "no-ID", "no-TIME", "dup-feature-columns", "event-extra-column", "event-missing-column",
                "event-swapped-columns", "cov-missing-column", "joint-missing-event-columns", "none"]


def run_schema(env, name):
    pd, np = env.pd, env.np
    base = {"ID": ["b", "a"], "TIME": [70.0, 71.0], "Y0": [0.5, 0.25]}
    dt, kw = "visit", {}
    if name == "not-a-dataframe":
        df = [[1, 2]]
    elif name == "none":
        df = None
    elif name == "no-ID":
        df = pd.DataFrame({"TIME": [70.0], "Y0": [0.5]})
    elif name == "no-TIME":
        df = pd.DataFrame({"ID": ["a"], "Y0": [0.5]})
    elif name == "dup-feature-columns":
        df = pd.DataFrame([["a", 70.0, 0.5, 0.25]], columns=["ID", "TIME", "Y0", "Y0"])
    elif name == "event-extra-column":
        df, dt = pd.DataFrame({"ID": ["b", "a"], "EVENT_TIME": [75.0, 73.0], "EVENT_BOOL": [1, 0], "Y0": [0.5, 0.25]}), "event"
    elif name == "event-missing-column":
        df, dt = pd.DataFrame({"ID": ["b", "a"], "EVENT_TIME": [75.0, 73.0]}), "event"
    elif name == "event-swapped-columns":
        df, dt = pd.DataFrame({"ID": ["b", "a"], "EVENT_BOOL": [1, 0], "EVENT_TIME": [75.0, 73.0]}), "event"
    elif name == "cov-missing-column":
        df, dt, kw = pd.DataFrame({**base, "C0": [1, 0]}), "covariate", {"factory_kws": {"covariate_names": ["D"]}}
    elif name == "joint-missing-event-columns":
        df, dt = pd.DataFrame(base), "joint"
    else:
        raise ValueError(name)
    snap = snapshot(env, df) if isinstance(df, pd.DataFrame) else None
    try:
        with core.quiet():
            ds = env.Dataset(env.Data.from_dataframe(df, dt, **kw))
        out = "ok"
    except Exception as e:
        out = env.err(e)
    same = True if snap is None else unchanged(env, df, snap)
    return out, same


# --------------------------------------------------------------------------------------------- generators
def g_val(rng, p_nan=0.25):
    if rng.random() < p_nan:
        return "nan"
    n = rng.choice([0, 0, 1, 2, 3, 4, 8, 12, 16, -1, -8, 24, 5, 7])
    return fmt_rat(Fraction(n, 16))


def g_age_exact(rng):
    """dyadic age with at most 6 decimals, exactly representable in single precision: k/64."""
    k = rng.choice([rng.randrange(40 * 64, 95 * 64), rng.randrange(40 * 64, 95 * 64), rng.randrange(0, 8 * 64), rng.randrange(-5 * 64, 0), rng.randrange(8 * 64, 16 * 64)])
    return [k * 15625, 0]


def g_visit_rows(rng, n_rows, dim, n_ids, exact=True, p_nan=0.25):
    rows, keys = [], set()
    while len(rows) < n_rows:
        i = rng.randrange(n_ids)
        a = g_age_exact(rng) if exact else [rng.randrange(16_000_000, 99_000_000), 0]
        if (i, a[0]) in keys:
            continue
        keys.add((i, a[0]))
        rows.append([i, a, [g_val(rng, p_nan) for _ in range(dim)]])
    return rows


def visit_cases(chk):
    rng = chk.rng
    thorough = chk.tier == "thorough"
    cases = []
    # (1) every row permutation of small tables
    n_tables = {1: 2, 2: 4, 3: 8, 4: 8, 5: 2} if not thorough else {1: 3, 2: 8, 3: 20, 4: 24, 5: 12}
    for n, cnt in n_tables.items():
        for _ in range(cnt):
            dim = rng.choice([1, 1, 2, 3])
            base = g_visit_rows(rng, n, dim, rng.choice([1, 2, 2, 3]))
            kind = rng.choice(ID_KINDS_VALID)
            group = f"perm{len(cases)}"
            for perm in itertools.permutations(range(n)):
                cases.append({"layout": "visit", "idkind": kind, "store": "f32", "rows": [base[k] for k in perm], "group": group})
    # (2) larger tables, random shuffles
    for _ in range(60 if not thorough else 400):
        n = rng.randrange(6, 30)
        dim = rng.choice([1, 2, 3, 4])
        base = g_visit_rows(rng, n, dim, rng.randrange(1, 7), p_nan=rng.choice([0.0, 0.2, 0.6]))
        kind = rng.choice(ID_KINDS_VALID)
        group = f"shuf{len(cases)}"
        for s in range(3):
            rows = list(base)
            if s:
                rng.shuffle(rows)
            c = {"layout": "visit", "idkind": kind, "store": "f32", "rows": rows, "group": group}
            if s == 2 and rng.random() < 0.5:
                c["index"] = rng.choice(["set", "id"])
            cases.append(c)
    # (3) every identifier kind on one table shape (valid and invalid kinds)
    for kind in ID_KINDS_VALID + ID_KINDS_INVALID:
        for _ in range(2):
            cases.append({"layout": "visit", "idkind": kind, "store": "f32", "rows": g_visit_rows(rng, rng.randrange(2, 6), 2, 3)})
    # (4) ages that are not single-precision exact (6 random decimals, >= 16 so that no two collide)
    for _ in range(30 if not thorough else 200):
        cases.append({"layout": "visit", "idkind": rng.choice(ID_KINDS_VALID), "store": "f32",
                      "rows": g_visit_rows(rng, rng.randrange(1, 8), rng.choice([1, 2]), 3, exact=False)})
    # (5) sub-micro perturbations that round to the same / to different micro-units
    for _ in range(20 if not thorough else 100):
        rows = g_visit_rows(rng, rng.randrange(2, 6), 1, 2)
        for r in rows:
            r[1] = [r[1][0], rng.choice([-4, -3, -1, 0, 1, 2, 4])]
        cases.append({"layout": "visit", "idkind": "str", "store": "f32", "rows": rows})
    return cases


def malformed_visit_cases(chk):
    rng = chk.rng
    cases = []
    reps = 3 if chk.tier == "quick" else 12
    for _ in range(reps):
        def base(n=None, dim=None):
            return g_visit_rows(rng, n or rng.randrange(2, 7), dim or rng.choice([1, 2]), rng.choice([1, 2, 3]))
        mk = lambda rows, **kw: {"layout": "visit", "idkind": rng.choice(["str", "int", "cat"]), "store": "f32", "rows": rows, **kw}  # noqa: E731
        # duplicates: exact and below the rounding resolution, possibly with an all-missing twin
        rows = base()
        src = rng.choice(rows)
        twin = [src[0], [src[1][0], 0], [g_val(rng) for _ in src[2]]]
        rows.insert(rng.randrange(len(rows) + 1), twin)
        cases.append(mk(rows))
        rows = base()
        src = rng.choice(rows)
        src[1] = [src[1][0], rng.choice([1, 2, 3, 4])]
        rows.insert(rng.randrange(len(rows) + 1), [src[0], [src[1][0], rng.choice([-4, -2, -1])], ["nan" for _ in src[2]]])
        cases.append(mk(rows))
        # nan / inf ages
        for tok in ("nan", "inf", "-inf"):
            rows = base()
            rng.choice(rows)[1] = tok
            cases.append(mk(rows))
        # infinite values
        for tok in ("inf", "-inf"):
            rows = base()
            r = rng.choice(rows)
            r[2][rng.randrange(len(r[2]))] = tok
            cases.append(mk(rows))
        # non numeric columns
        rows = base(dim=2)
        cases.append(mk(rows, cols=[rng.choice(COL_KINDS_BAD), "float"][:: rng.choice([1, -1])]))
        cases.append(mk(base(), tnum=rng.choice(TIME_KINDS_BAD)))
        # nothing observed / no feature / no row
        rows = base()
        for r in rows:
            r[2] = ["nan"] * len(r[2])
        cases.append(mk(rows))
        rows = base()
        for r in rows:
            r[2] = []
        cases.append(mk(rows))
        cases.append(mk([]))
        # integer-typed ages and values are fine (valid)
        rows = [[rng.randrange(3), [a * 1_000_000, 0], [str(rng.randrange(0, 4))]] for a in rng.sample(range(40, 90), 4)]
        cases.append(mk(rows, tnum="int", cols=["int"]))
    return cases


def g_event(rng, n_ids, nbmax):
    per = {}
    for i in range(n_ids):
        per[i] = ([rng.randrange(50 * 64, 99 * 64) * 15625, 0], str(rng.randrange(0, nbmax + 1)))
    if all(c == "0" for _, c in per.values()):
        per[0] = (per[0][0], "1")
    return per


def event_cases(chk):
    rng = chk.rng
    cases = []
    reps = 10 if chk.tier == "quick" else 60
    for _ in range(reps):
        n = rng.randrange(1, 6)
        nbmax = rng.choice([1, 1, 2, 3])
        per = g_event(rng, n, nbmax)
        ids = list(per)
        rng.shuffle(ids)
        rows = [[i, per[i][0], per[i][1]] for i in ids]
        kind = rng.choice(ID_KINDS_VALID)
        mx = max(int(c) for _, _, c in rows)
        cases.append({"layout": "event", "idkind": kind, "nb": rng.choice([None, None, mx, mx + 1, 0]), "rows": rows})
        if n <= 4:
            for perm in itertools.permutations(range(n)):
                cases.append({"layout": "event", "idkind": kind, "nb": None, "rows": [rows[k] for k in perm]})
        # malformed events
        def mut(f, nb=None):
            rs = [list(r) for r in rows]
            f(rs)
            cases.append({"layout": "event", "idkind": rng.choice(["str", "int"]), "nb": nb, "rows": rs})
        mut(lambda rs: rs[rng.randrange(len(rs))].__setitem__(1, rng.choice(["nan", "inf", [0, 0], [-1000000, 0], [0, 4], [0, -4]])))
        mut(lambda rs: rs[rng.randrange(len(rs))].__setitem__(2, rng.choice(["nan", "inf", "1/2", "-1", "-2", "3/2"])))
        mut(lambda rs: rs.append(list(rng.choice(rs))))
        mut(lambda rs: [r.__setitem__(2, "0") for r in rs])
        mut(lambda rs: [r.__setitem__(2, "0") for r in rs], nb=rng.choice([1, 2]))
        mut(lambda rs: rs.append([5, "nan", "nan"]))
        if mx >= 2:   # negative indicator next to a large one (wrap-around in the unpatched code)
            mut(lambda rs: rs[next(k for k, r in enumerate(rs) if int(Fraction(r[2])) != mx) if any(int(Fraction(r[2])) != mx for r in rs) else 0].__setitem__(2, "-1"))
    for kind in ID_KINDS_INVALID:
        cases.append({"layout": "event", "idkind": kind, "nb": None, "rows": [[0, [75000000, 0], "1"], [1, [73000000, 0], "0"]]})
    return cases


def joint_cases(chk):
    rng = chk.rng
    cases = []
    reps = 14 if chk.tier == "quick" else 80
    for _ in range(reps):
        n_ids = rng.randrange(1, 4)
        n = rng.randrange(n_ids, 7)
        dim = rng.choice([1, 2])
        vis = g_visit_rows(rng, n, dim, n_ids, p_nan=0.35)
        present = sorted({r[0] for r in vis})
        nbmax = rng.choice([1, 1, 2])
        last = {i: max(r[1][0] for r in vis if r[0] == i) for i in present}
        per = {}
        for i in present:
            delta = rng.choice([0, 15625, 64 * 15625, 1000000, 5 * 15625 * 64, -900, -1001, -15625, -2000000])
            per[i] = ([last[i] + delta, 0], str(rng.randrange(0, nbmax + 1)))
        if all(c == "0" for _, c in per.values()):
            i0 = present[0]
            per[i0] = ([last[i0] + 15625, 0], "1")
        rows = [[r[0], r[1], r[2], per[r[0]][0], per[r[0]][1]] for r in vis]
        kind = rng.choice(ID_KINDS_VALID)
        base = {"layout": "joint", "idkind": kind, "nb": None, "store": "f32"}
        if n <= 4:
            for perm in itertools.permutations(range(n)):
                cases.append({**base, "rows": [rows[k] for k in perm]})
        else:
            for _s in range(3):
                rs = list(rows)
                rng.shuffle(rs)
                cases.append({**base, "rows": rs})

        def mut(f, **kw):
            rs = [[r[0], list(r[1]), list(r[2]), (list(r[3]) if isinstance(r[3], list) else r[3]), r[4]] for r in rows]
            f(rs)
            cases.append({**base, "idkind": rng.choice(["str", "int"]), "rows": rs, **kw})
        mut(lambda rs: rs[rng.randrange(len(rs))].__setitem__(3, rng.choice(["nan", "inf", [0, 0], [rs[0][3][0] + 15625, 0]])))
        mut(lambda rs: rs[rng.randrange(len(rs))].__setitem__(4, rng.choice(["nan", "1/2", "-1", "inf", "2"])))
        mut(lambda rs: rs.append([rs[0][0], list(rs[0][1]), list(rs[0][2]), rs[0][3], rs[0][4]]))
        mut(lambda rs: rs.append([3, [30 * 1000000, 0], ["nan"] * dim, "nan", "nan"]))
        mut(lambda rs: rs.append([3, [30 * 1000000, 0], ["nan"] * dim, [31 * 1000000, 0], "0"]))
        mut(lambda rs: [r.__setitem__(2, []) for r in rs])
    return cases


def joint_between_cases(chk):
    """An individual with 2-3 visits whose event lies strictly between its two latest visits (more than the tolerance away from
    both), next to a second individual with an ordinary observed event; every row order, so that in some of them the event is
    after the last-listed visit but before the latest one. Observed: refused in every order; censored: accepted in every order."""
    rng = chk.rng
    cases = []
    reps = 4 if chk.tier == "quick" else 20
    for _ in range(reps):
        dim = rng.choice([1, 2])
        n_vis = rng.choice([2, 2, 3])
        start = rng.randrange(50 * 64, 80 * 64)
        ages, a = [], start
        for _k in range(n_vis):
            ages.append(a * 15625)
            a += rng.randrange(8, 4 * 64)          # gaps of 1/8 year to 4 years
        gap = (ages[-1] - ages[-2]) // 15625
        ev = ages[-2] + rng.randrange(2, gap - 1) * 15625 if gap > 3 else ages[-2] + 2 * 15625
        code = rng.choice(["1", "1", "0", "2"])
        other_age = rng.randrange(50 * 64, 80 * 64) * 15625
        other_code = "1" if code != "2" else rng.choice(["1", "2"])
        rows = [[0, [t, 0], [g_val(rng, 0.2) for _ in range(dim)], [ev, 0], code] for t in ages]
        rows.append([1, [other_age, 0], [g_val(rng, 0.0) for _ in range(dim)], [other_age + rng.choice([0, 15625, 1000000]), 0], other_code])
        kind = rng.choice(ID_KINDS_VALID)
        swap = rng.random() < 0.5                   # which identifier sorts first must not matter
        for perm in itertools.permutations(range(len(rows))):
            rs = [list(rows[k]) for k in perm]
            if swap:
                for r in rs:
                    r[0] = 1 - r[0]
            cases.append({"layout": "joint", "idkind": kind, "nb": None, "store": "f32", "rows": rs})
    return cases


def cov_within_cases(chk):
    """A covariate that differs on one row of an individual with 2-3 visits (any position), every row order; and the same table
    with the covariate made constant within the individual (valid)."""
    rng = chk.rng
    cases = []
    reps = 4 if chk.tier == "quick" else 20
    for _ in range(reps):
        dim = rng.choice([1, 2])
        ncov = rng.choice([1, 2])
        n_vis = rng.choice([2, 3])
        vis = g_visit_rows(rng, n_vis, dim, 1, p_nan=0.2)
        cov0 = [str(rng.choice([0, 1, 2])) for _ in range(ncov)]
        cov1 = [str(int(c) + 1 + rng.randrange(2)) for c in cov0]
        rows = [[0, r[1], r[2], list(cov0)] for r in vis]
        odd = rng.randrange(n_vis)
        k = rng.randrange(ncov)
        rows.append([1, g_age_exact(rng), [g_val(rng, 0.0) for _ in range(dim)], list(cov1)])
        kind = rng.choice(ID_KINDS_VALID)
        for bad in (True, False):
            for perm in itertools.permutations(range(len(rows))):
                rs = [[r[0], list(r[1]), list(r[2]), list(r[3])] for r in (rows[j] for j in perm)]
                if bad:
                    for r in rs:
                        if r[0] == 0 and r[1] == rows[odd][1]:
                            r[3][k] = str(int(r[3][k]) + 5)
                cases.append({"layout": "cov", "idkind": kind, "ncov": ncov, "store": "f32", "rows": rs})
    # no covariate name at all: refused by the constructor of the reader
    cases.append({"layout": "cov", "idkind": "str", "ncov": 0, "store": "f32",
                  "rows": [[0, [70 * 1000000, 0], ["1/2"], []], [1, [71 * 1000000, 0], ["1/4"], []]]})
    return cases


def check_order_cases(chk):
    """Two malformations in one table, the one the code looks at later standing on the earlier row: the rejection reason must be
    that of the column-wise order of the checks (time column, then indicator column; missing covariate, then fractional one;
    per-individual uniqueness before the count / the cross check / the constant-covariate check)."""
    rng = chk.rng
    cases = []
    for _ in range(3 if chk.tier == "quick" else 12):
        t = lambda y: [int(y * 64) * 15625, 0]  # noqa: E731
        y0 = rng.randrange(50, 80)
        bad_code = rng.choice(["1/2", "-1", "nan"])
        bad_time = rng.choice(["nan", [0, 0], [-1000000, 0]])
        ev = [[0, t(y0 + 5), bad_code], [1, bad_time, "1"], [2, t(y0 + 7), "1"]]
        cases.append({"layout": "event", "idkind": "str", "nb": None, "rows": ev})
        cases.append({"layout": "event", "idkind": "str", "nb": None, "rows": [ev[0], ev[2], [0, bad_time, "1"]]})   # + repeated individual
        cases.append({"layout": "event", "idkind": "int", "nb": 3, "rows": [[0, t(y0 + 5), "2"], [1, t(y0 + 6), bad_code]]})  # count and cell
        v = lambda: [g_val(rng, 0.0)]  # noqa: E731
        jr = [[0, t(y0), v(), t(y0 + 5), bad_code], [0, t(y0 + 1), v(), t(y0 + 5), "1"], [1, t(y0), v(), bad_time, "1"]]
        cases.append({"layout": "joint", "idkind": "str", "nb": None, "store": "f32", "rows": jr})
        # two events for one individual, one of them observed before the latest visit
        jr = [[0, t(y0), v(), t(y0 + 5), "1"], [0, t(y0 + 3), v(), t(y0 + 1), "1"], [1, t(y0), v(), t(y0 + 2), "1"]]
        cases.append({"layout": "joint", "idkind": "str", "nb": None, "store": "f32", "rows": jr})
        # two events for one individual and a declared count that does not fit
        jr = [[0, t(y0), v(), t(y0 + 5), "1"], [0, t(y0 + 3), v(), t(y0 + 5), "0"], [1, t(y0), v(), t(y0 + 2), "1"]]
        cases.append({"layout": "joint", "idkind": "str", "nb": 2, "store": "f32", "rows": jr})
        # observed event before the latest visit and a declared count that does not fit
        jr = [[0, t(y0), v(), t(y0 + 1), "1"], [0, t(y0 + 3), v(), t(y0 + 1), "1"], [1, t(y0), v(), t(y0 + 2), "1"]]
        cases.append({"layout": "joint", "idkind": "str", "nb": 2, "store": "f32", "rows": jr})
        cr = [[0, t(y0), v(), ["1/2"]], [0, t(y0 + 1), v(), ["1"]], [1, t(y0), v(), ["nan"]]]
        cases.append({"layout": "cov", "idkind": "str", "ncov": 1, "store": "f32", "rows": cr})
        cr = [[0, t(y0), v(), ["1", "0"]], [0, t(y0 + 1), v(), ["2", "0"]], [1, t(y0), v(), ["1", "0"]]]   # varies within 0, second constant
        cases.append({"layout": "cov", "idkind": "str", "ncov": 2, "store": "f32", "rows": cr})
        cr = [[0, t(y0), v(), ["1", "1/2"]], [0, t(y0 + 1), v(), ["2", "0"]], [1, t(y0), v(), ["1", "0"]]]   # fractional and varying
        cases.append({"layout": "cov", "idkind": "str", "ncov": 2, "store": "f32", "rows": cr})
    return cases


def cov_cases(chk):
    rng = chk.rng
    cases = []
    reps = 14 if chk.tier == "quick" else 80
    for _ in range(reps):
        n_ids = rng.randrange(2, 4)
        n = rng.randrange(n_ids, 7)
        dim = rng.choice([1, 2])
        ncov = rng.choice([1, 1, 2])
        vis = g_visit_rows(rng, n, dim, n_ids, p_nan=0.35)
        present = sorted({r[0] for r in vis})
        per = {i: [str(rng.choice([0, 1, 2, -1, 7])) for _ in range(ncov)] for i in present}
        rows = [[r[0], r[1], r[2], list(per[r[0]])] for r in vis]
        kind = rng.choice(ID_KINDS_VALID)
        base = {"layout": "cov", "idkind": kind, "ncov": ncov, "store": "f32"}
        if n <= 4:
            for perm in itertools.permutations(range(n)):
                cases.append({**base, "rows": [rows[k] for k in perm]})
        else:
            for _s in range(3):
                rs = list(rows)
                rng.shuffle(rs)
                cases.append({**base, "rows": rs})

        def mut(f):
            rs = [[r[0], list(r[1]), list(r[2]), list(r[3])] for r in rows]
            f(rs)
            cases.append({**base, "idkind": rng.choice(["str", "int"]), "rows": rs})
        mut(lambda rs: rs[rng.randrange(len(rs))][3].__setitem__(0, rng.choice(["nan", "inf", "1/2", "9"])))
        mut(lambda rs: rs.append([rs[0][0], list(rs[0][1]), list(rs[0][2]), list(rs[0][3])]))
        mut(lambda rs: [r.__setitem__(3, ["1"] * ncov) for r in rs])
        # a covariate missing on some (not all) visits of an individual, and on all of them
        multi = [i for i in present if sum(r[0] == i for r in rows) >= 2]
        if multi:
            who = rng.choice(multi)
            kc = rng.randrange(ncov)

            def partial(rs):
                idx = [j for j, r in enumerate(rs) if r[0] == who]
                for j in rng.sample(idx, rng.randrange(1, len(idx))):
                    rs[j][3][kc] = "nan"
            mut(partial)
            mut(lambda rs: [r[3].__setitem__(kc, "nan") for r in rs if r[0] == who])
        mut(lambda rs: rs.append([3, [30 * 1000000, 0], ["nan"] * dim, ["nan"] * ncov]))
        mut(lambda rs: rs.append([3, [30 * 1000000, 0], ["nan"] * dim, ["5"] * ncov]))
    return cases


def f9_cases(chk):
    rng = chk.rng
    cases = [{"layout": "visit", "idkind": "str", "store": "f32", "rows": [[0, [70000001, 0], ["1/2"]], [0, [70000002, 0], ["1/4"]]]}]
    for _ in range(4 if chk.tier == "quick" else 30):
        a = rng.randrange(32_000_000, 99_000_000)
        rows = [[0, [a, 0], [g_val(rng, 0)]], [0, [a + 1, 0], [g_val(rng, 0)]], [1, [a + 1, 0], [g_val(rng, 0)]]]
        rng.shuffle(rows)
        cases.append({"layout": "visit", "idkind": "str", "store": "f32", "rows": rows})
    return cases


def f9f_cases(chk):
    """neighbouring float32 ages of one individual (distinct in the tensor, a few 1e-6 apart)."""
    rng = chk.rng
    cases = [{"layout": "visit", "idkind": "str", "store": "f32",
              "rows": [[0, [86308384, 0], ["3/4"]], [1, [86308384, 0], ["1"]], [0, [86308383, 0], ["-1/16"]]]}]
    for _ in range(6 if chk.tier == "quick" else 40):
        a = rng.randrange(64_000_000, 99_000_000)
        rows = [[0, [a, 0], [g_val(rng, 0)]], [0, [a + rng.choice([4, 6, 8, 10]), 0], [g_val(rng, 0)]]]
        cases.append({"layout": "visit", "idkind": "str", "store": "f32", "rows": rows})
    return cases


def addobs_cases(chk):
    rng = chk.rng
    cases = []
    # every order of up to 4 distinct ages, split into calls in every way; plus repeated ages
    for n in range(0, 5):
        for perm in itertools.permutations(range(n)):
            for cut in range(0, n + 1):
                vis = [[(k + 1) * 15625 * 3, [fmt_rat(Fraction(k, 4))]] for k in perm]
                cases.append({"layout": "addobs", "calls": [c for c in (vis[:cut], vis[cut:]) if c or n == 0]})
    for _ in range(40 if chk.tier == "quick" else 300):
        n = rng.randrange(2, 9)
        ages = [rng.randrange(-3, 12) * 15625 for _ in range(n)]
        vis = [[a, [g_val(rng), g_val(rng)]] for a in ages]
        cuts = sorted(rng.sample(range(n + 1), rng.randrange(0, 3)))
        calls, prev = [], 0
        for c in cuts + [n]:
            calls.append(vis[prev:c])
            prev = c
        cases.append({"layout": "addobs", "calls": calls})
    return cases


# --------------------------------------------------------------------------------------------- the same tables handed over differently
class _Sub:
    """a generator context with its own rng: the streams above keep theirs (same cases as before for a given seed)"""

    def __init__(self, rng, tier):
        self.rng, self.tier = rng, tier


NAME_POOL = ["Y3", "Y1", "B", "a b", "Y0", "Z9", "y0", "Y10"]


def decorate(env, rng, c):
    """One generated table (valid or malformed), handed over in another of the forms the API accepts: column dtypes, index
    layout, column names and order, reader options, entry point; ages moved to another time scale, values to another unit.
    The oracle (`malformation`, `reference`, ...) reads the same keys, so the expected outcome follows."""
    import json
    c = json.loads(json.dumps({k: v for k, v in c.items() if k != "group"}))
    lay, rows = c["layout"], c["rows"]
    dim = len(rows[0][2]) if rows and lay != "event" else 0
    tcol = 1
    # ---- another time scale / another unit (exactly representable, so that every comparison stays exact)
    exact = bool(rows) and all(isinstance(r[tcol], list) and r[tcol][1] == 0 and r[tcol][0] % 15625 == 0 for r in rows)
    if exact and "tnum" not in c and rng.random() < 0.35:
        how = rng.choice(["kilo", "days", "zero"] if lay in ("visit", "cov") else ["kilo", "days"])
        if how == "zero":
            shift = -rng.choice(rows)[1][0]
        else:
            shift = (1000 if how == "kilo" else 30000) * 1_000_000
        for r in rows:
            r[1] = [r[1][0] + shift, 0]
            if lay == "joint" and isinstance(r[3], list):
                r[3] = [r[3][0] + shift, r[3][1]]
    scaled = False
    if dim and "cols" not in c and rng.random() < 0.2:
        scaled = True
        f = Fraction(2) ** rng.choice([60, -40])
        for r in rows:
            r[2] = [v if v in ("nan", "inf", "-inf") else fmt_rat(Fraction(v) * f) for v in r[2]]
    # ---- dtypes of the columns (the malformed stream sets non-numeric kinds itself: left alone)
    if rows and lay != "event" and "tnum" not in c and rng.random() < 0.5:
        c["tnum"] = rng.choice(compatible_kinds(env, [r[1] for r in rows], age=True))
    if dim and "cols" not in c and rng.random() < 0.5:
        c["cols"] = [rng.choice(compatible_kinds(env, [r[2][k] for r in rows])) for k in range(dim)]
    if rows and lay in ("event", "joint") and rng.random() < 0.6:
        t, b = (1, 2) if lay == "event" else (3, 4)
        c["ecols"] = [rng.choice(compatible_kinds(env, [r[t] for r in rows], age=True)),
                      rng.choice(compatible_kinds(env, [r[b] for r in rows]))]
    if rows and lay == "cov" and c["ncov"] and rng.random() < 0.6:
        c["ccols"] = [rng.choice(compatible_kinds(env, [r[3][k] for r in rows])) for k in range(c["ncov"])]
    # ---- names and order of the columns
    if dim and rng.random() < 0.4:
        c["featnames"] = rng.sample(NAME_POOL, dim)
    if lay in ("event", "joint") and rng.random() < 0.3:
        c["evnames"] = rng.choice([["T_EVENT", "EVENT"], ["event_time", "event_bool"], ["EVENT_BOOL_TIME", "EVB"]])
    if rows and rng.random() < 0.4:
        names = ["ID"] + (["TIME"] if lay != "event" else []) + feat_names(c, dim)
        names += (ev_names(c) if lay in ("event", "joint") else []) + (cov_names(c) if lay == "cov" else [])
        rng.shuffle(names)
        if lay in ("event", "joint"):      # the event reader wants the time column before the indicator column
            tn, bn = ev_names(c)
            i, j = names.index(tn), names.index(bn)
            if i > j:
                names[i], names[j] = names[j], names[i]
        if lay == "cov":                   # covariates in the order of `covariate_names`
            pos = sorted(names.index(n) for n in cov_names(c))
            for q, n in zip(pos, cov_names(c)):
                names[q] = n
        c["colorder"] = names
    # ---- index layout, reader options, entry point
    if "index" not in c and rng.random() < 0.45:
        # (pandas re-infers the dtype of a column that becomes an index level: an object-typed TIME column of numbers would
        #  reach the reader as a float level, i.e. as another table - such columns stay columns)
        plain = c.get("tnum", "float") in NUM_KINDS and c["idkind"] in ID_KINDS_VALID
        levels = ((["set", "setrev"] if lay != "event" else []) + ["id"]) if plain else []
        c["index"] = rng.choice(levels + ["rowdup", "rowstr", "rownamed"])
    o = {}
    if rng.random() < 0.35:
        o["sort_index"] = True
    if rng.random() < 0.3:
        o["drop_full_nan"] = False
    if rng.random() < 0.2:
        o["warn_empty_column"] = False
    if o:
        c["opts"] = o
    r = rng.random()
    numeric = c.get("tnum", "float") in NUM_KINDS and all(k in NUM_KINDS for k in (c.get("cols") or []))
    # (a float32 column is written to the file with the 8 significant digits of its float32 repr: another table)
    used = [c.get("tnum")] + list(c.get("cols") or []) + list(c.get("ecols") or []) + list(c.get("ccols") or [])
    numeric = numeric and "f32" not in used and "Float32" not in used
    # (csv: numbers of at most 15 significant digits and small exponents only - pandas' default text-to-double conversion is exact for
    #  those, it may be one ulp off for the 2^60 / 2^-40 units, which is pandas' matter)
    if r < 0.3 and c["idkind"] in ("str", "numstr") and numeric and not scaled and c.get("index") in (None, "rowdup", "rowstr", "rownamed") and rows:
        c["entry"] = "csv"
    elif r < 0.6:
        c["entry"] = rng.choice(["reader", "enum", "upper"])
    return c


def dtype_malformed_cases(chk, env, rng):
    """Every cell-level malformation in every numeric dtype that can carry it: a missing age as nan or as pd.NA (nullable Float64 /
    Float32 / Int64), an infinite age, an infinite value, in float64 / float32 / nullable columns; visit, joint and covariate layouts,
    the TIME column as a column or as an index level."""
    sub = _Sub(rng, "quick")
    pools = {"visit": visit_cases(sub)[-200:], "joint": joint_cases(sub), "cov": cov_cases(sub)}
    cases = []
    for lay, pool in pools.items():
        valid = [c for c in pool if malformation(c) is None and 2 <= len(c["rows"]) <= 8]
        for what, kinds in (("nan", ["float", "f32", "Float64", "Float32", "Int64"]), ("inf", ["float", "f32", "Float64", "Float32"]),
                            ("vinf", ["float", "f32", "Float64", "Float32"])):
            for kind in kinds:
                import json
                c = json.loads(json.dumps({k: v for k, v in rng.choice(valid).items() if k != "group"}))
                rows = c["rows"]
                if what == "vinf":
                    r = rng.choice(rows)
                    k = rng.randrange(len(r[2]))
                    r[2][k] = rng.choice(["inf", "-inf"])
                    cols = ["float"] * len(r[2])
                    cols[k] = kind
                    c["cols"] = cols
                else:
                    if kind == "Int64":      # whole years, so that the column is an integer column with one pd.NA
                        for j, r in enumerate(rows):
                            r[1] = [(40 + 3 * j) * 1_000_000, 0]
                            if lay == "joint":
                                r[3] = [200 * 1_000_000, 0]
                    elif kind in ("f32", "Float32"):
                        for j, r in enumerate(rows):
                            r[1] = [(40 * 64 + 5 * j) * 15625, 0]
                            if lay == "joint":
                                r[3] = [200 * 1_000_000, 0]
                    rng.choice(rows)[1] = "nan" if what == "nan" else rng.choice(["inf", "-inf"])
                    c["tnum"] = kind
                    if rng.random() < 0.3 and c["idkind"] in ID_KINDS_VALID and kind != "Int64":
                        c["index"] = rng.choice(["set", "setrev"])
                cases.append(c)
    return cases


def variant_cases(chk, env, rng):
    thorough = chk.tier == "thorough"
    sub = _Sub(rng, "quick")
    pools = [(visit_cases(sub), 50), (malformed_visit_cases(sub), 20), (event_cases(sub), 25),
             (joint_cases(sub) + joint_between_cases(sub), 35), (cov_cases(sub) + cov_within_cases(sub), 35),
             (check_order_cases(sub), 10)]
    cases = []
    for rounds in range(5 if thorough else 1):
        for pool, n in pools:
            for base in rng.sample(pool, min(n, len(pool))):
                cases.append(decorate(env, rng, base))
    return cases


def reader_reuse_cases(chk, env, rng):
    """One reader instance handed over for two tables in a row (`data_type` accepts an instance): the second `Data` must be the one
    a fresh reader gives for the second table, and the first `Data` must stay what it was."""
    sub = _Sub(rng, "quick")
    pools = {"visit": [c for c in visit_cases(sub)[-120:]], "event": event_cases(sub), "joint": joint_cases(sub), "cov": cov_cases(sub)}
    n = 0
    for lay, pool in pools.items():
        valid = [c for c in pool if malformation(c) is None and c["idkind"] in ("str", "int", "numstr") and len(c["rows"]) <= 8]
        for _ in range(6 if chk.tier == "thorough" else 2):
            if len(valid) < 2:
                break
            a = rng.choice(valid)
            same = [c for c in valid if c is not a and c["idkind"] == a["idkind"]]
            if not same:
                continue
            b = rng.choice(same)
            a = {k: v for k, v in a.items() if k != "group"}
            b = {k: v for k, v in b.items() if k != "group"}
            if lay == "cov" and a["ncov"] != b["ncov"]:
                b = {**a, "rows": list(reversed(a["rows"]))}
            if lay in ("event", "joint"):
                b = {**b, "nb": a.get("nb")}          # the reader is built once, with the request of the first table
                if malformation(b) is not None:
                    continue
            cj = {"kind": "reader-reuse", "first": a, "second": b}
            run_reader_reuse(chk, env, cj)
            n += 1
    return n


def run_reader_reuse(chk, env, cj):
    a, b = cj["first"], cj["second"]
    try:
        dfa, dfb = build_df(env, a), build_df(env, b)
        dt, kws = reader_args(a)
        fk = kws.pop("factory_kws", {})
        with core.quiet():
            fresh = env.Data.from_dataframe(dfb, env.factory(dt, **fk), **kws)
            fresh_b = canon_dataset(env, env.Dataset(fresh), b["idkind"], b)
            reader = env.factory(dt, **fk)
            d1 = env.Data.from_dataframe(dfa, reader, **kws)
            c1 = canon_dataset(env, env.Dataset(d1), a["idkind"], a)
            ids1 = list(d1.individuals)
    except Exception as e:  # noqa
        chk.impl_failure(cj, f"valid table refused ({env.err(e)})")
        return
    what, merged = None, False
    try:
        with core.quiet():
            d2 = env.Data.from_dataframe(dfb, reader, **kws)
        # F120 region, recomputed from the objects: the new Data holds an individual its table does not have, or counts on from
        # the earlier table, or the earlier Data has grown
        merged = (any(i not in fresh.individuals for i in d2.individuals) or list(d2.iter_to_idx) != list(range(len(fresh.individuals)))
                  or list(d1.individuals) != ids1)
        with core.quiet():
            c2 = canon_dataset(env, env.Dataset(d2), b["idkind"], b)
            c1_after = canon_dataset(env, env.Dataset(d1), a["idkind"], a)
        if c2["str"] != fresh_b["str"]:
            what = (f"the second table read with the same reader gives individuals {c2['ids']}, a fresh reader gives {fresh_b['ids']}"
                    if c2["ids"] != fresh_b["ids"] else "the second table read with the same reader gives other tensors than a fresh reader")
        elif c1_after["str"] != c1["str"]:
            what = f"reading a second table changed the Data object of the first one: individuals {c1['ids']} -> {c1_after['ids']}"
    except Exception as e:  # noqa
        msg = str(e)
        merged = merged or "number of events you provided is different" in msg
        what = f"the second (valid) table cannot be used after the reader has read another table: {env.err(e)}: {msg[:100]}"
    if what:
        chk.impl_failure(cj, what, finding="F120" if merged else None)
    chk.case(("reuse", repr(cj)), nontrivial=True, tags={"stream": "reader-reuse", "layout": a["layout"], "outcome": "differs" if what else "same"})


# --------------------------------------------------------------------------------------------- driver of the run
def nontrivial(case, res):
    if case["layout"] == "addobs":
        return sum(len(c) for c in case["calls"]) >= 2
    if case["layout"] == "schema":
        return True
    ph = res.get("phase", {})
    if ph.get("data") != "ok":
        return True     # a refused table
    rows = case["rows"]
    ids = [r[0] for r in rows]
    return len(rows) >= 2 and (len(set(ids)) < len(ids) or ids != sorted(ids))


def handle_table_cases(chk, env, cases, stream):
    items = []
    groups = {}
    for case in cases:
        res = run_impl(env, case)
        if "build" in res:
            chk.tag("not-buildable", case["layout"])
            continue
        pub = {k: v for k, v in case.items() if k != "group"}
        items.append((pub, res))
        for what, fid in predicate(env, pub, res):
            chk.impl_failure(pub, what, finding=fid)
        ph = res["phase"]
        outcome = ph.get("data") if ph.get("data") != "ok" else ("accepted" if ph.get("dataset") == "ok" else "dataset:" + str(ph.get("dataset")))
        mal = malformation(pub)
        chk.case(("t", repr(pub)), nontrivial=nontrivial(pub, res),
                 sample=pub if (len(pub["rows"]) in (3, 4) and chk.hist.get("sampled", {}).get(stream) is None
                                and not chk.tag("sampled", stream)) else None,
                 tags={"stream": stream, "layout": case["layout"], "idkind": case["idkind"], "outcome": outcome,
                       "entry": case.get("entry", "df"), "index": case.get("index", "columns"),
                       "options": ",".join(f"{k}={v}" for k, v in sorted((case.get("opts") or {}).items())) or "default",
                       "time_dtype": case.get("tnum", "float"),
                       "n_rows": min(len(case["rows"]), 10) if len(case["rows"]) < 10 else "10+",
                       "malformation": mal or "none"})
        if mal and outcome not in ("accepted",):
            chk.tag("reject_class[%s]" % mal, outcome)
        if "group" in case and ph.get("dataset") == "ok" and case["layout"] != "event":
            ds = res["ds"]
            m = {i: (ds["times"][a][:ds["nvis"][a]], ds["values"][a][:ds["nvis"][a]], ds["mask"][a][:ds["nvis"][a]]) for a, i in enumerate(ds["ids"])}
            g = groups.setdefault(case["group"], (pub, m))
            if g[1] != m:
                chk.impl_failure({"base": g[0], "permuted": pub}, "a row permutation changes the visits of some individual (id -> visits map differs)")
    compare(chk, env, items)


def run(chk: core.Check):
    env = Env()
    env.deep_every = 1 if chk.tier == "thorough" else 6
    if getattr(chk, "_tmp", None):
        import os
        os.makedirs(str(chk._tmp), exist_ok=True)
        env.tmpdir = str(chk._tmp)
    chk.max_samples = 8
    chk.rule = ("tables generated from the seeded rng: every row permutation of small visit / event / joint / covariate tables (<= 5 rows), "
                "random shuffles of larger ones, nine valid and eleven invalid identifier kinds, ages k/64 (exact in float32) plus "
                "non-exact and sub-micro-perturbed ages, values n/16 including 0 and NaN; a malformed stream (duplicates, near-duplicates below 1e-6, "
                "nan/inf ages and values, non-numeric columns, inconsistent events / covariates), joint tables whose event lies between the last-listed and "
                "the latest visit of its individual (every row order), covariates that differ on one row of an individual (every row order), tables "
                "with two malformations at once (rejection reason compared with the model's tag) and schema-level cases; every order and split of "
                "add_observations calls on <= 4 ages. Each case runs from_dataframe -> Dataset -> to_pandas -> re-ingest on the real code with a deep "
                "snapshot of the caller's table, evaluates the property predicate, and is compared with the Lean model. "
                "Non-trivial = refused table, or >= 2 rows with a repeated or unsorted identifier; distinct by full table. "
                "A further stream hands the same kinds of tables (valid and malformed, all four layouts) over in the other forms the API accepts: "
                "column dtypes (float32, int32, python int, nullable Int64 / Float64 with pd.NA, bool) for ages, values, event and covariate columns; "
                "ID / TIME as index levels in either order or meaningless row labels (duplicated, strings, named); unsorted feature names, permuted "
                "columns, custom event column names; reader options sort_index / drop_full_nan=False / warn_empty_column=False on every layout; entry "
                "points Data.from_csv_file (table written to disk), a reader instance, the enum member, another letter case; ages on other time "
                "scales (+1000, +30000, a visit at exactly 0) and values in other units (x 2^60, x 2^-40). On every accepted table the Data object "
                "(three orders, counters, names), the Dataset's ancillary attributes (headers, norms, per-individual getters, dtypes) are checked; "
                "on a sample (all in the thorough tier) also Data.to_dataframe (contents, re-ingestion), Data untouched by the conversions, a second "
                "Dataset of the same Data, to_pandas(apply_headers=True) and sub-cohorts Data[[...]] / Data[a:b]. One reader instance is used for two "
                "tables in a row (F120).")
    for c in core.load_corpus(PROP):
        one_case(chk, env, c)
    handle_table_cases(chk, env, visit_cases(chk), "visit-valid")
    handle_table_cases(chk, env, malformed_visit_cases(chk), "visit-malformed")
    handle_table_cases(chk, env, event_cases(chk), "event")
    handle_table_cases(chk, env, joint_cases(chk), "joint")
    handle_table_cases(chk, env, cov_cases(chk), "covariate")
    handle_table_cases(chk, env, joint_between_cases(chk), "joint-event-between-visits")
    handle_table_cases(chk, env, cov_within_cases(chk), "covariate-within-individual")
    handle_table_cases(chk, env, check_order_cases(chk), "order-of-checks")
    handle_table_cases(chk, env, f9_cases(chk), "float32-collision")
    handle_table_cases(chk, env, f9f_cases(chk), "float32-neighbours")
    sort_index_cases(chk, env)
    # add_observations
    acases = addobs_cases(chk)
    ares = [run_addobs(env, c) for c in acases]
    for c, r in zip(acases, ares):
        for f in addobs_predicate(c, r):
            chk.impl_failure(c, "add_observations: " + f)
        chk.case(("a", repr(c)), nontrivial=nontrivial(c, r), tags={"stream": "add_observations", "outcome": r["out"][:8]})
    for c, r, m in zip(acases, ares, chk.model([model_line(c) for c in acases])):
        if (m if not m.startswith("err:data:") else "err:data") != r["out"]:
            chk.disagree(c, r["out"], m, "add_observations")
    # schema-level
    for name in SCHEMA_CASES:
        out, same = run_schema(env, name)
        c = {"layout": "schema", "name": name}
        if out == "ok":
            chk.impl_failure(c, f"schema problem '{name}' silently accepted")
        if not same:
            chk.impl_failure(c, "the caller's table was modified")
        chk.case(("s", name), tags={"stream": "schema", "reject_class[schema:%s]" % name: out})
    # driver's single-precision read-back against numpy
    np = env.np
    ages = [chk.rng.randrange(-99_000_000, 99_000_000) for _ in range(400)] + [70000001, 70000002, 0, 15625, 7812500, 7812]
    back = chk.model(["store a=" + fmt_list(ages)])[0]
    want = fmt_list([mu_of(np.float64(np.float32(np.float64(a) / 1e6))) for a in ages])
    if back != want:
        chk.disagree({"layout": "store", "ages": ages}, want[:200], back[:200], "single-precision read-back of ages (driver instance of `store`)")
    # the same kinds of tables in the other forms the API accepts (own rng: the streams above are those of the earlier versions)
    import random as _random
    rng2 = _random.Random(chk.rng.getrandbits(64))
    handle_table_cases(chk, env, variant_cases(chk, env, rng2), "variants")
    handle_table_cases(chk, env, dtype_malformed_cases(chk, env, rng2), "malformation-x-dtype")
    reader_reuse_cases(chk, env, rng2)
    # known findings: probe the witnesses
    probe_findings(chk, env)
    chk.hist.pop("sampled", None)
    chk.max_samples = 8
    chk.exhaustive = False


def sort_index_cases(chk, env):
    """Reader option `sort_index=True` (individuals in sorted order instead of first appearance): not part of the Lean model;
    the alignment clause (values, mask and ages of row i belong to identifier i) is evaluated directly on the implementation."""
    import numpy as np
    import pandas as pd
    rng = chk.rng
    for _ in range(60 if chk.tier == "thorough" else 12):
        n_ind = rng.randrange(2, 6)
        ids = rng.sample(["z9", "b", "A", "m-3", "07", "k", "c1", "y"], n_ind)
        rows = []
        for i in ids:
            t0 = rng.randrange(50, 80)
            for v in range(rng.randrange(1, 4)):
                rows.append((i, float(t0 + v) + rng.choice([0.0, 0.25, 0.5]), rng.randrange(0, 64) / 64.0,
                             (rng.randrange(0, 64) / 64.0) if rng.random() < 0.8 else float("nan")))
        rng.shuffle(rows)
        df = pd.DataFrame(rows, columns=["ID", "TIME", "Y0", "Y1"])
        case = {"kind": "sort_index", "rows": [list(r) for r in rows]}
        try:
            with core.quiet():
                data = env.Data.from_dataframe(df, sort_index=True)
                ds = env.Dataset(data)
        except Exception as e:  # noqa
            chk.impl_failure(case, f"valid table refused with sort_index=True: {env.err(e)}")
            continue
        want_ids = sorted(set(i for i, *_ in rows))
        if list(ds.indices) != want_ids:
            chk.impl_failure(case, f"sort_index=True: individuals {list(ds.indices)}, expected sorted {want_ids}")
        if [ind.idx for ind in data] != list(ds.indices) or list(data.individuals) != list(ds.indices):
            chk.impl_failure(case, "sort_index=True: iteration order, `individuals` and dataset indices disagree")
        for pos, ident in enumerate(ds.indices):
            mine = sorted((t, a, b) for i, t, a, b in rows if i == ident)
            nv = int(ds.n_visits_per_individual[pos])
            ages = [float(x) for x in ds.timepoints[pos, :nv]]
            vals = ds.values[pos, :nv].tolist()
            mask = ds.mask[pos, :nv].tolist()
            ok = nv == len(mine) and ages == [float(np.float32(t)) for t, _, _ in mine]
            for k, (t, a, b) in enumerate(mine[:nv]):
                exp = [a, b]
                for c in range(2):
                    present = not (isinstance(exp[c], float) and exp[c] != exp[c])
                    ok = ok and bool(mask[k][c]) == present and (not present or vals[k][c] == float(np.float32(exp[c])))
            if not ok:
                chk.impl_failure(case, f"sort_index=True: row {pos} of the dataset does not hold the visits of its identifier '{ident}'")
        chk.case(("sort_index", tuple(map(tuple, rows))), nontrivial=[i for i in dict.fromkeys(r[0] for r in rows)] != want_ids,
                 tags={"layout": "visit-sort_index"})


def probe_findings(chk, env):
    w = {"layout": "visit", "idkind": "str", "store": "f32", "rows": [[0, [70000001, 0], ["1/2"]], [0, [70000002, 0], ["1/4"]]]}
    res = run_impl(env, w)
    if res["phase"].get("dataset") == "ok" and res["phase"].get("table") != "ok":
        chk.known_finding_reproduces("F9", "ages 70.000001 and 70.000002 of one individual are accepted, are equal in the float32 tensor "
                                           f"({res['ds']['times_f'][0]}), and to_pandas raises {res['phase'].get('table')}")
    elif any(f.get("id") == "F9" and f.get("status") == "finding" for f in chk.findings):
        chk.note("finding F9 no longer reproduces")
    pd = env.pd
    reader = env.factory("visit")
    with core.quiet():
        d1 = env.Data.from_dataframe(pd.DataFrame({"ID": ["b", "a", "b"], "TIME": [70., 71., 72.], "Y0": [.5, .25, .75]}), reader)
        d2 = env.Data.from_dataframe(pd.DataFrame({"ID": ["c", "d"], "TIME": [60., 61.], "Y0": [.5, .25]}), reader)
    if list(d2.individuals) != ["c", "d"] or list(d1.individuals) != ["b", "a"]:
        chk.known_finding_reproduces("F120", "one VisitDataframeDataReader instance given as data_type for two tables: the second Data holds "
                                             f"{list(d2.individuals)} (its table has c, d) and the first Data now holds {list(d1.individuals)} (its table has b, a)")
    elif any(f.get("id") == "F120" and f.get("status") == "finding" for f in chk.findings):
        chk.note("finding F120 no longer reproduces")


def one_case(chk, env, case):
    lay = case.get("layout")
    if lay == "addobs":
        r = run_addobs(env, case)
        for f in addobs_predicate(case, r):
            chk.impl_failure(case, "add_observations: " + f)
        m = chk.model([model_line(case)])[0]
        if (m if not m.startswith("err:data:") else "err:data") != r["out"]:
            chk.disagree(case, r["out"], m, "add_observations")
        chk.case(("a", repr(case)), sample=case)
    elif lay == "schema":
        out, same = run_schema(env, case["name"])
        if out == "ok":
            chk.impl_failure(case, f"schema problem '{case['name']}' silently accepted")
        if not same:
            chk.impl_failure(case, "the caller's table was modified")
        chk.case(("s", case["name"]), sample=case)
    elif lay == "store":
        np = env.np
        back = chk.model(["store a=" + fmt_list(case["ages"])])[0]
        want = fmt_list([mu_of(np.float64(np.float32(np.float64(a) / 1e6))) for a in case["ages"]])
        if back != want:
            chk.disagree(case, want[:200], back[:200], "single-precision read-back of ages")
        chk.case(("st", 0), sample=None)
    elif case.get("kind") == "reader-reuse":
        run_reader_reuse(chk, env, case)
    elif "base" in case and "permuted" in case:
        handle_table_cases(chk, env, [{**case["base"], "group": "g"}, {**case["permuted"], "group": "g"}], "replay")
    else:
        handle_table_cases(chk, env, [case], "replay")


def replay(chk: core.Check, payload):
    env = Env()
    case = payload.get("case") or (payload.get("disagreements") or [{}])[0].get("case")
    if not case and "layout" in payload:
        case = payload          # a bare case (corpus file)
    if not case:
        chk.note("replay file has no case")
        return
    one_case(chk, env, case)
