"""C05 — sufficient statistics follow the stochastic-approximation schedule.

Correspondence: real `TensorMcmcSaemAlgorithm` (constructor, `_is_burn_in`, `_maximization_step`)
and real short fits, against `Model/Saem.lean` through `drivers/C05.lean`.
"""
from __future__ import annotations

import copy
import itertools
import math
import warnings

from . import core
from .core import fmt_float, parse_float, fmt_list, split_ne

PROP = "C05"
LEAN = dict(
    props="LeaspyVerif.Props.C05",
    driver="drivers/C05.lean",
    harness="c05_saem.py",
    extra_modules=["LeaspyVerif.Model.Saem"],
    theorems=["stats_memoryless", "stats_convex", "run_flags", "run_length", "stats_forget_burnin",
              "stats_in_hull", "step_size_in_unit", "robbins_monro_iff"],
    trusted_extra=[
        "step size j**(-power): Lean Float.pow and CPython float pow both call C pow (compared bitwise on float64 stub statistics)",
        "theorems are over an ordered field / the reals; the executable instance is IEEE double",
    ],
    assumptions=["statistics of the stub model are float64 scalars/vectors; real-fit statistics are float32 tensors compared with a 2e-6 relative envelope"],
)

FRACS = [0.0, 0.1, 0.2, 0.29, 0.3, 0.4, 0.5, 0.6, 0.7, 0.8, 0.9, 1.0]
POWERS = [0.5, 0.51, 0.8, 1.0, 1.01, 0.0, -0.8, 2.0, 0.5000000000000001, float("nan"), float("inf"), float("-inf")]


def _imports():
    warnings.filterwarnings("ignore")
    import leaspy.models  # noqa: F401  (must precede leaspy.variables)
    import torch
    from leaspy.algo import AlgorithmSettings, algorithm_factory
    from leaspy.exceptions import LeaspyAlgoInputError
    return torch, AlgorithmSettings, algorithm_factory, LeaspyAlgoInputError


def err_class(e, LeaspyAlgoInputError):
    return "err:algo" if isinstance(e, LeaspyAlgoInputError) else f"err:other:{type(e).__name__}"


class StubModel:
    """Records what `_maximization_step` hands to `update_parameters`."""

    def __init__(self, torch, stats_seq):
        self.torch = torch
        self.seq = stats_seq
        self.i = 0
        self.calls = []

    def compute_sufficient_statistics(self, state):
        s = {"a": self.torch.tensor(self.seq[self.i], dtype=self.torch.float64)}
        self.i += 1
        return s

    def update_parameters(self, state, stats, *, burn_in):
        self.calls.append((stats["a"].clone().tolist(), bool(burn_in)))


def build_algo(AlgorithmSettings, algorithm_factory, n_iter, count, frac, power):
    kws = dict(n_iter=n_iter, seed=0, progress_bar=False, burn_in_step_power=power)
    if count is not None:
        kws["n_burn_in_iter"] = count
    kws["n_burn_in_iter_frac"] = frac
    with warnings.catch_warnings():
        warnings.simplefilter("ignore")
        return algorithm_factory(AlgorithmSettings("mcmc_saem", **kws))


def run_stub(env, n_iter, count, frac, power, stats_seq, reconf=None):
    """Drive the real algorithm object iteration by iteration with a stub model.
    `reconf` = (how, N): after construction the explicit count is changed through the documented `load_parameters`
    ("load") or by assignment to `algo_parameters` ("assign"); the run must then follow N."""
    torch, AlgorithmSettings, algorithm_factory, LAIE = env
    try:
        algo = build_algo(AlgorithmSettings, algorithm_factory, n_iter, count, frac, power)
        if reconf is not None:
            how, N = reconf
            if how == "load":
                algo.load_parameters({"n_burn_in_iter": N})
            else:
                algo.algo_parameters["n_burn_in_iter"] = N
    except Exception as e:  # noqa
        return {"ctor": err_class(e, LAIE)}
    nb = algo.algo_parameters["n_burn_in_iter"]
    m = StubModel(torch, stats_seq)
    try:
        for k in range(1, n_iter + 1):
            algo.current_iteration = k
            algo._maximization_step(m, None)
    except Exception as e:  # noqa
        return {"ctor": "ok", "nb": nb, "run": f"err:other:{type(e).__name__}", "calls": m.calls}
    return {"ctor": "ok", "nb": nb, "run": "ok", "calls": m.calls}


def predicate_failures(n_iter, count, frac, power, stats_seq, res):
    """The property itself, evaluated on the implementation's observable behaviour."""
    fails = []
    power_ok = 0.5 < power <= 1
    if not power_ok:
        if res["ctor"] != "err:algo":
            fails.append(f"step power {power!r} outside (0.5,1] not refused with an algorithm-input error: {res['ctor']}")
        return fails
    if count is None and frac is None:
        if res["ctor"] != "err:algo":
            fails.append("neither count nor fraction given, not refused")
        return fails
    if res["ctor"] != "ok":
        fails.append(f"valid configuration refused: {res['ctor']}")
        return fails
    nb_expected = count if count is not None else int(frac * n_iter)
    if res["nb"] != nb_expected:
        fails.append(f"memory-less length {res['nb']} != configured {nb_expected}")
    if res["run"] != "ok":
        fails.append(f"run aborted: {res['run']}")
        return fails
    nb = nb_expected
    calls = res["calls"]
    if len(calls) != n_iter:
        fails.append(f"{len(calls)} maximisations for {n_iter} iterations")
        return fails
    S_prev = None
    for k in range(1, n_iter + 1):
        S, flag = calls[k - 1]
        s = stats_seq[k - 1]
        if flag != (k <= nb):
            fails.append(f"iteration {k}: burn_in flag {flag}, memory-less phase is k<={nb}")
        if k <= nb + 1:
            if S != s:
                fails.append(f"iteration {k} (memory-less, nb={nb}): statistics used {S} != current {s}")
        else:
            e = float(k - nb) ** (-power)
            for j in range(len(s)):
                want = (1 - e) * S_prev[j] + e * s[j]
                if not math.isclose(S[j], want, rel_tol=1e-12, abs_tol=1e-12):
                    fails.append(f"iteration {k} (nb={nb}, power={power}): S={S[j]!r} but (1-e)S_prev+e*s={want!r}")
                    break
        S_prev = S
    return fails


def model_requests(n_iter, count, frac, power, stats_seq):
    """Lines for the Lean driver for one configuration (one per statistic coordinate)."""
    lines = [
        f"power p={fmt_float(power)}",
        f"nburn niter={n_iter} count={'none' if count is None else count} frac={'none' if frac is None else fmt_float(frac)}",
    ]
    return lines


def compare_with_model(chk, cases, results):
    # first pass: ctor-level lines
    lines = []
    for c in cases:
        lines += model_requests(*c)
    out = chk.model(lines)
    run_lines, run_idx = [], []
    for i, (c, res) in enumerate(zip(cases, results)):
        n_iter, count, frac, power, seq = c
        m_pow, m_nb = out[2 * i], out[2 * i + 1]
        if m_pow == "err:algo":
            model_ctor = "err:algo"
        elif m_nb == "err:algo":
            model_ctor = "err:algo"
        else:
            model_ctor = "ok"
        if model_ctor != res["ctor"]:
            chk.disagree(case_json(c), res["ctor"], model_ctor, "constructor outcome")
            continue
        if model_ctor != "ok":
            continue
        nb_model = int(m_nb.split("=")[1])
        if nb_model != res["nb"]:
            chk.disagree(case_json(c), res["nb"], nb_model, "length of memory-less phase")
            continue
        dim = len(seq[0]) if seq else 0
        for j in range(dim):
            run_lines.append(f"run nb={nb_model} power={fmt_float(power)} s={fmt_list([fmt_float(s[j]) for s in seq])}")
            run_idx.append((i, j))
    out2 = chk.model(run_lines)
    for (i, j), resp in zip(run_idx, out2):
        c, res = cases[i], results[i]
        if res["run"] != "ok":
            chk.disagree(case_json(c), res["run"], "ok", "run outcome")
            continue
        try:
            parts = dict(p.split("=") for p in resp.split(" "))
            S_model = [parse_float(x) for x in split_ne(parts["S"])]
            flags_model = [x == "1" for x in split_ne(parts["burn"])]
        except Exception:
            chk.disagree(case_json(c), "?", resp, "unparsable model response")
            continue
        S_impl = [call[0][j] for call in res["calls"]]
        flags_impl = [call[1] for call in res["calls"]]
        if flags_impl != flags_model:
            chk.disagree(case_json(c), flags_impl, flags_model, "burn_in flags")
        elif [fmt_float(x) for x in S_impl] != [fmt_float(x) for x in S_model]:
            # bitwise on float64
            chk.disagree(case_json(c), S_impl, S_model, f"statistics coordinate {j} (bitwise float64)")


def case_json(c):
    n_iter, count, frac, power, seq = c
    return {"kind": "stub", "n_iter": n_iter, "n_burn_in_iter": count, "n_burn_in_iter_frac": frac,
            "burn_in_step_power": power, "stats": seq}


def gen_stats(rng, n_iter, dim=2):
    # small dyadic numbers, sometimes large / negative
    out = []
    for _ in range(n_iter):
        out.append([rng.choice([1, -1]) * rng.randrange(0, 64) / 8.0 * rng.choice([1, 1, 1, 1024.0]) for _ in range(dim)])
    return out


def stub_cases(chk):
    rng = chk.rng
    cases = []
    max_n = 30 if chk.tier == "thorough" else 12
    # exhaustive (n_iter, count) and (n_iter, frac) with the default power
    for n in range(1, max_n + 1):
        for count in range(0, n + 2):
            cases.append((n, count, rng.choice([None, 0.9]), 0.8, gen_stats(rng, n)))
        for frac in FRACS:
            cases.append((n, None, frac, rng.choice([0.8, 0.51, 1.0]), gen_stats(rng, n)))
    for p in POWERS:
        for n in (1, 5, 9):
            cases.append((n, None, 0.5, p, gen_stats(rng, n)))
    cases.append((5, None, None, 0.8, gen_stats(rng, 5)))
    # random extras
    for _ in range(200 if chk.tier == "thorough" else 40):
        n = rng.randrange(1, 60)
        if rng.random() < 0.5:
            cases.append((n, rng.randrange(0, n + 1), None, rng.choice([0.51, 0.6, 0.75, 0.8, 0.9, 1.0]), gen_stats(rng, n, 3)))
        else:
            cases.append((n, None, rng.randrange(0, 101) / 100.0, rng.choice([0.51, 0.6, 0.75, 0.8, 0.9, 1.0]), gen_stats(rng, n, 1)))
    return cases


# ------------------------------------------------------------------ real fits
def real_fit_case(env, chk, model_name, n_iter, count, frac, power, seed):
    """Real fit with call-through recording of s_k and S_k; property predicate + model comparison."""
    torch, AlgorithmSettings, algorithm_factory, LAIE = env
    import pandas as pd
    from leaspy.io.data import Data
    from leaspy.models import model_factory
    from leaspy.utils.weighted_tensor import WeightedTensor
    df = pd.read_csv(core.REPO / "tests/_data/data_mock/multivariate_data.csv")
    data = Data.from_dataframe(df)
    kw = dict(dimension=3)
    if model_name != "linear_nosrc":
        kw["source_dimension"] = 2
    name = {"logistic": "logistic", "linear": "linear", "logistic_scalar": "logistic"}[model_name]
    if model_name == "logistic_scalar":
        kw["obs_models"] = "gaussian-scalar"
    model = model_factory(name, **kw)
    rec_s, rec_S = [], []
    orig_css, orig_up = model.compute_sufficient_statistics, model.update_parameters

    def tens(v):
        return (v.weighted_value if isinstance(v, WeightedTensor) else v).detach().clone().double()

    def css(state):
        s = orig_css(state)
        rec_s.append({k: tens(v) for k, v in s.items()})
        return s

    def up(state, ss, *, burn_in):
        rec_S.append(({k: tens(v) for k, v in ss.items()}, bool(burn_in)))
        return orig_up(state, ss, burn_in=burn_in)

    model.compute_sufficient_statistics = css
    model.update_parameters = up
    kws = dict(n_iter=n_iter, seed=seed, progress_bar=False, burn_in_step_power=power, n_burn_in_iter_frac=frac)
    if count is not None:
        kws["n_burn_in_iter"] = count
    case = {"kind": "fit", "model": model_name, "n_iter": n_iter, "n_burn_in_iter": count,
            "n_burn_in_iter_frac": frac, "burn_in_step_power": power, "seed": seed}
    try:
        with core.quiet():
            model.fit(data, "mcmc_saem", **kws)
    except Exception as e:  # noqa
        chk.impl_failure(case, f"valid fit configuration aborted: {type(e).__name__}: {e}")
        return
    nb = count if count is not None else int(frac * n_iter)
    fails = []
    if len(rec_S) != n_iter or len(rec_s) != n_iter:
        fails.append(f"{len(rec_S)} maximisations / {len(rec_s)} statistics for {n_iter} iterations")
    else:
        lines, keys = [], []
        prev = None
        for k in range(1, n_iter + 1):
            S, flag = rec_S[k - 1]
            s = rec_s[k - 1]
            if flag != (k <= nb):
                fails.append(f"iteration {k}: burn_in flag {flag} but memory-less phase is k<={nb}")
            for key in s:
                if k <= nb + 1:
                    if not torch.equal(S[key], s[key]):
                        fails.append(f"iteration {k} memory-less (nb={nb}): '{key}' used != current")
                else:
                    e = float(k - nb) ** (-power)
                    want = (1 - e) * prev[key] + e * s[key]
                    tol = 4e-6 * (want.abs() + prev[key].abs() + s[key].abs()) + 1e-30
                    if not bool(((S[key] - want).abs() <= tol).all()):
                        fails.append(f"iteration {k} (nb={nb}): '{key}' is not (1-e)S_prev + e*s, max dev {float((S[key]-want).abs().max()):.3g}")
            prev = S
        # model comparison on the scalar statistic 'nll_tot' and first coordinate of each key
        for key in sorted(rec_s[0]):
            seq = [float(rec_s[k][key].reshape(-1)[0]) for k in range(n_iter)]
            if any(math.isnan(x) or math.isinf(x) for x in seq):
                continue
            lines.append(f"run nb={nb} power={fmt_float(power)} s={fmt_list([fmt_float(x) for x in seq])}")
            keys.append((key, seq))
        out = chk.model(lines)
        for (key, seq), resp in zip(keys, out):
            parts = dict(p.split("=") for p in resp.split(" "))
            S_model = [parse_float(x) for x in split_ne(parts["S"])]
            flags_model = [x == "1" for x in split_ne(parts["burn"])]
            S_impl = [float(rec_S[k][0][key].reshape(-1)[0]) for k in range(n_iter)]
            if flags_model != [f for _, f in rec_S]:
                chk.disagree(case, [f for _, f in rec_S], flags_model, "burn_in flags (real fit)")
                break
            # float32 accumulation in the implementation: envelope grows with the number of convex steps
            for k, (a, b) in enumerate(zip(S_impl, S_model)):
                scale = max(abs(x) for x in seq[: k + 1]) + 1e-30
                if abs(a - b) > 2e-6 * scale * (1 + max(0, k - nb)):
                    chk.disagree(case, a, b, f"statistics '{key}' at iteration {k+1} (float32 envelope)")
                    break
    for f in fails[:3]:
        chk.impl_failure(case, f)
    chk.case(("fit", model_name, n_iter, count, frac, power, seed), nontrivial=(nb + 2 <= n_iter),
             sample=case if seed == 0 else None, tags={"kind": "real-fit", "model": model_name})


def ctor_grid(chk, env):
    """Constructor only, exhaustively: every explicit count 0..n for every n_iter up to N (and a few large n_iter):
    the memory-less phase must have exactly the configured length (no float round trip may lose one iteration)."""
    torch, AlgorithmSettings, algorithm_factory, LAIE = env
    N = 400 if chk.tier == "thorough" else 120
    pairs = [(n, c) for n in range(1, N + 1) for c in range(0, n + 1)]
    for n in (1000, 5000, 10000):
        pairs += [(n, c) for c in sorted({chk.rng.randrange(0, n + 1) for _ in range(300)} | {3, 6, 12, 24, 29, 57, 58, n - 1, n})]
    lines, keep = [], []
    bad = 0
    for n, c in pairs:
        try:
            algo = build_algo(AlgorithmSettings, algorithm_factory, n, c, None, 0.8)
            nb = algo.algo_parameters["n_burn_in_iter"]
        except Exception as e:  # noqa
            nb = err_class(e, LAIE)
        if nb != c:
            bad += 1
            if bad <= 3:
                chk.impl_failure({"kind": "ctor", "n_iter": n, "n_burn_in_iter": c, "n_burn_in_iter_frac": None},
                                 f"explicit memory-less count {c} with n_iter={n} became {nb}")
        lines.append(f"nburn niter={n} count={c} frac=none")
        keep.append((n, c, nb))
    out = chk.model(lines)
    for (n, c, nb), resp in zip(keep, out):
        if resp != f"nb={nb}":
            chk.disagree({"kind": "ctor", "n_iter": n, "n_burn_in_iter": c}, nb, resp, "length of memory-less phase (constructor grid)")
    chk.evaluations += len(pairs)
    chk.tag("kind", "ctor-grid", len(pairs))
    chk.extra_cov["ctor_grid"] = f"every (n_iter <= {N}, explicit count <= n_iter) + sampled counts for n_iter in 1000, 5000, 10000"


def run(chk: core.Check):
    env = _imports()
    chk.rule = ("stub: real algorithm object driven over every (n_iter<=N, explicit count 0..n+1) and (n_iter, fraction in a "
                "12-value grid) plus random configurations, float64 statistics compared bitwise with the Lean model; "
                "real fits: recorded s_k/S_k of short fits. A case is non-trivial when it contains at least one iteration with "
                "memory (nb+2 <= n_iter) or is a refused configuration; distinct by full configuration.")
    cases = core.load_corpus(PROP)
    cases = [(c["n_iter"], c["n_burn_in_iter"], c["n_burn_in_iter_frac"], c["burn_in_step_power"], c["stats"]) for c in cases if c.get("kind") == "stub"]
    cases += stub_cases(chk)
    results = []
    for c in cases:
        res = run_stub(env, *c)
        results.append(res)
        n_iter, count, frac, power, seq = c
        for f in predicate_failures(n_iter, count, frac, power, seq, res):
            chk.impl_failure(case_json(c), f)
        nontriv = res["ctor"] != "ok" or (res.get("nb", 0) + 2 <= n_iter)
        chk.case((n_iter, count, frac, power), nontrivial=nontriv,
                 sample=case_json(c) if len(chk.samples) < 3 and n_iter in (4, 5) else None,
                 tags={"kind": "stub", "ctor": res["ctor"], "n_iter_bucket": (n_iter // 10) * 10,
                       "given": "count" if count is not None else ("frac" if frac is not None else "none")})
    compare_with_model(chk, cases, results)
    # the same, with the explicit count given after construction (documented `load_parameters`, or plain assignment)
    rng = chk.rng
    recases, reresults = [], []
    for _ in range(120 if chk.tier == "thorough" else 30):
        n = rng.randrange(3, 40)
        N = rng.randrange(0, n + 1)
        how = rng.choice(["load", "assign"])
        c0 = (n, None, rng.choice(FRACS), rng.choice([0.51, 0.8, 1.0]), gen_stats(rng, n, 2))
        res = run_stub(env, *c0, reconf=(how, N))
        c = (n, N, c0[2], c0[3], c0[4])          # what the run must look like: explicit count N
        cj = dict(case_json(c), reconfigured_after_construction=how, constructed_with_fraction=c0[2])
        for f in predicate_failures(n, N, c0[2], c0[3], c0[4], res):
            chk.impl_failure(cj, f"(count set after construction by {how}) " + f)
        recases.append(c)
        reresults.append(res)
        chk.case(("reconf", n, N, how, c0[2], c0[3]), nontrivial=(N + 2 <= n), tags={"kind": "stub-reconfigured", "how": how})
    compare_with_model(chk, recases, reresults)
    ctor_grid(chk, env)
    # real fits
    fits = [("logistic", 8, None, 0.5, 0.8, 0), ("linear", 7, 2, None, 1.0, 1), ("logistic_scalar", 9, None, 0.29, 0.51, 2)]
    if chk.tier == "thorough":
        rng = chk.rng
        for i in range(24):
            n = rng.randrange(3, 25)
            if rng.random() < 0.5:
                fits.append((rng.choice(["logistic", "linear", "logistic_scalar"]), n, rng.randrange(0, n + 1), None, rng.choice([0.51, 0.8, 1.0]), 10 + i))
            else:
                fits.append((rng.choice(["logistic", "linear", "logistic_scalar"]), n, None, rng.choice(FRACS), rng.choice([0.51, 0.8, 1.0]), 10 + i))
    for f in fits:
        real_fit_case(env, chk, *f)
    chk.exhaustive = False


def replay(chk: core.Check, payload):
    env = _imports()
    case = payload.get("case") or (payload.get("disagreements") or [{}])[0].get("case")
    if not case:
        chk.note("replay file has no case")
        return
    if case.get("kind") == "fit":
        real_fit_case(env, chk, case["model"], case["n_iter"], case["n_burn_in_iter"], case["n_burn_in_iter_frac"],
                      case["burn_in_step_power"], case["seed"])
        return
    if case.get("kind") == "ctor":
        torch, AlgorithmSettings, algorithm_factory, LAIE = env
        n, cnt = case["n_iter"], case["n_burn_in_iter"]
        try:
            nb = build_algo(AlgorithmSettings, algorithm_factory, n, cnt, None, 0.8).algo_parameters["n_burn_in_iter"]
        except Exception as e:  # noqa
            nb = err_class(e, LAIE)
        if nb != cnt:
            chk.impl_failure(case, f"explicit memory-less count {cnt} with n_iter={n} became {nb}")
        out = chk.model([f"nburn niter={n} count={cnt} frac=none"])
        if out[0] != f"nb={nb}":
            chk.disagree(case, nb, out[0], "length of memory-less phase")
        chk.case(("ctor", n, cnt), sample=case)
        return
    c = (case["n_iter"], case["n_burn_in_iter"], case["n_burn_in_iter_frac"], case["burn_in_step_power"], case["stats"])
    res = run_stub(env, *c)
    for f in predicate_failures(*c, res):
        chk.impl_failure(case, f)
    chk.case(c[:4], sample=case)
    compare_with_model(chk, [c], [res])
