"""C05 — sufficient statistics follow the stochastic-approximation schedule.

Correspondence: real `TensorMcmcSaemAlgorithm` (constructor, `_is_burn_in`, `_maximization_step`)
and real short fits, against `Model/Saem.lean` through `drivers/C05.lean`.
"""
from __future__ import annotations

import copy
import itertools
import math
import warnings

from . import core
from .core import fmt_float, parse_float, fmt_list, split_ne

_core_fmt_float = fmt_float
NAN_BITS = "f9221120237041090560"      # 0x7FF8000000000000: what Lean's Float.toBits prints for every NaN


def fmt_float(x) -> str:  # noqa: F811  (NaN canonical; every other double by its bits, as core.fmt_float)
    x = float(x)
    return NAN_BITS if x != x else _core_fmt_float(x)


def same_float(a, b) -> bool:
    """equality of two doubles with nan == nan (statistics may legitimately be non-finite: `inf` deltas, see the comment in
    `_maximization_step`)"""
    return a == b or (a != a and b != b)


def same_list(a, b) -> bool:
    return len(a) == len(b) and all(same_float(x, y) for x, y in zip(a, b))


PROP = "C05"
LEAN = dict(
    props="LeaspyVerif.Props.C05",
    driver="drivers/C05.lean",
    harness="c05_saem.py",
    extra_modules=["LeaspyVerif.Model.Saem", "LeaspyVerif.Lemmas.Saem"],
    theorems=["stats_memoryless", "stats_convex", "run_flags", "run_length", "stats_forget_burnin",
              "stats_in_hull", "step_size_in_unit", "robbins_monro_iff",
              # unrolled form and weights
              "stepStatsW_eq", "stats_unrolled", "weight_closed_form", "weight_burnin_zero", "weight_future_zero",
              "weight_in_unit", "weight_sum_one",
              # step sizes
              "power_one_running_mean", "power_one_weights_uniform", "step_one_no_memory", "constant_step_one_run",
              "reset_is_unit_step", "step_size_first_is_one", "step_size_power_zero", "step_size_power_one",
              "step_size_strict_anti", "step_size_tendsto_zero", "step_size_eq_inv",
              # dictionaries of tensors
              "convexT_entrywise", "convexT_error_iff", "convexT_broadcast_new", "convexT_broadcast_old",
              "mstepD_keys", "mstepD_keywise", "mstepD_lookup", "mstepD_ok_iff", "mstepD_error_iff",
              "mstepD_ignores_other_keys", "stepD_memoryless", "memorylessZ_natCast", "runD_attributeError_iff",
              "runD_negative_no_maximisation", "runD_calls", "runD_entrywise",
              # constructor
              "truncZ_of_nonneg", "truncZ_neg", "truncZ_of_nonpos", "truncZ_bounds", "truncZ_mono", "truncZ_intCast",
              "burn_length_from_fraction", "count_has_priority", "warns_iff", "ctor_accepts_iff", "ctor_algoInput_iff",
              "ctor_raw_error_iff", "negative_burn_in_accepted_counterexample", "burn_length_nonneg",
              "negative_burn_in_refused", "ctor_repair_conservative", "accepted_never_attributeError"],
    trusted_extra=[
        "step size j**(-power): Lean Float.pow and CPython float pow both call C pow (compared bitwise on float64 stub statistics)",
        "theorems are over an ordered field / the reals; the executable instances are IEEE double and float32 (Lean Float / Float32, C casts)",
        "exact value of a double read from its bits (Model/Saem.lean: dblOfFloat) for int(frac * n_iter)",
    ],
    assumptions=["statistics are 1-D tensors of one dtype per run (float64 or float32) in the stub runs; n-D tensors of real fits "
                 "are compared flattened (equal shapes at every iteration); WeightedTensor statistics are compared on `.value` "
                 "(the mask is the data's, identical at every iteration)",
                 "n_iter, the explicit count are Python ints; the fraction a Python float (or small int); |n_iter| < 2**53"],
)

FRACS = [0.0, 0.1, 0.2, 0.29, 0.3, 0.4, 0.5, 0.6, 0.7, 0.8, 0.9, 1.0]
POWERS = [0.5, 0.51, 0.8, 1.0, 1.01, 0.0, -0.8, 2.0, 0.5000000000000001, float("nan"), float("inf"), float("-inf")]


def _imports():
    warnings.filterwarnings("ignore")
    import leaspy.models  # noqa: F401  (must precede leaspy.variables)
    import torch
    from leaspy.algo import AlgorithmSettings, algorithm_factory
    from leaspy.exceptions import LeaspyAlgoInputError
    return torch, AlgorithmSettings, algorithm_factory, LeaspyAlgoInputError


def err_class(e, LeaspyAlgoInputError):
    return "err:algo" if isinstance(e, LeaspyAlgoInputError) else f"err:other:{type(e).__name__}"


class StubModel:
    """Records what `_maximization_step` hands to `update_parameters`."""

    def __init__(self, torch, stats_seq):
        self.torch = torch
        self.seq = stats_seq
        self.i = 0
        self.calls = []

    def compute_sufficient_statistics(self, state):
        s = {"a": self.torch.tensor(self.seq[self.i], dtype=self.torch.float64)}
        self.i += 1
        return s

    def update_parameters(self, state, stats, *, burn_in):
        self.calls.append((stats["a"].clone().tolist(), bool(burn_in)))


def build_algo(AlgorithmSettings, algorithm_factory, n_iter, count, frac, power):
    kws = dict(n_iter=n_iter, seed=0, progress_bar=False, burn_in_step_power=power)
    if count is not None:
        kws["n_burn_in_iter"] = count
    kws["n_burn_in_iter_frac"] = frac
    with warnings.catch_warnings():
        warnings.simplefilter("ignore")
        return algorithm_factory(AlgorithmSettings("mcmc_saem", **kws))


def _drive(algo, model, n_iter, copy_at=None):
    """iterations 1..n_iter of the real `_maximization_step`; returns (algo, error class or 'ok', phase labels).
    copy_at = (k, how): before iteration k the algorithm object is replaced by a deep copy / a pickle round trip of itself
    (a checkpoint): the schedule must go on as if nothing had happened."""
    import pickle
    labels = []
    try:
        for k in range(1, n_iter + 1):
            if copy_at is not None and copy_at[0] == k:
                algo = copy.deepcopy(algo) if copy_at[1] == "deepcopy" else pickle.loads(pickle.dumps(algo))
            algo.current_iteration = k
            algo._maximization_step(model, None)
            try:
                labels.append(algo._get_progress_str())
            except Exception as e:  # noqa
                labels.append(f"<{type(e).__name__}>")
    except Exception as e:  # noqa
        return algo, f"err:other:{type(e).__name__}", labels
    return algo, "ok", labels


def run_stub(env, n_iter, count, frac, power, stats_seq, reconf=None, second=None, copy_at=None):
    """Drive the real algorithm object iteration by iteration with a stub model.
    `reconf` = (how, N): after construction the explicit count is changed through the documented `load_parameters`
    ("load") or by assignment to `algo_parameters` ("assign"); the run must then follow N.
    `second` = another sequence of statistics: the SAME algorithm object is then used for a second run (as a cross-validation
    loop does); result under "second"."""
    torch, AlgorithmSettings, algorithm_factory, LAIE = env
    try:
        algo = build_algo(AlgorithmSettings, algorithm_factory, n_iter, count, frac, power)
        if reconf is not None:
            how, N = reconf
            if how == "load":
                algo.load_parameters({"n_burn_in_iter": N})
            else:
                algo.algo_parameters["n_burn_in_iter"] = N
    except Exception as e:  # noqa
        return {"ctor": err_class(e, LAIE)}
    nb = algo.algo_parameters["n_burn_in_iter"]
    m = StubModel(torch, stats_seq)
    algo, out, labels = _drive(algo, m, n_iter, copy_at)
    res = {"ctor": "ok", "nb": nb, "run": out, "calls": m.calls, "labels": labels}
    if second is not None and out == "ok":
        m2 = StubModel(torch, second)
        algo, out2, labels2 = _drive(algo, m2, n_iter)
        res["second"] = {"ctor": "ok", "nb": algo.algo_parameters["n_burn_in_iter"], "run": out2, "calls": m2.calls, "labels": labels2}
    return res


def predicate_failures(n_iter, count, frac, power, stats_seq, res):
    """The property itself, evaluated on the implementation's observable behaviour."""
    fails = []
    power_ok = 0.5 < power <= 1
    if not power_ok:
        if res["ctor"] != "err:algo":
            fails.append(f"step power {power!r} outside (0.5,1] not refused with an algorithm-input error: {res['ctor']}")
        return fails
    if count is None and frac is None:
        if res["ctor"] != "err:algo":
            fails.append("neither count nor fraction given, not refused")
        return fails
    if res["ctor"] != "ok":
        fails.append(f"valid configuration refused: {res['ctor']}")
        return fails
    nb_expected = count if count is not None else int(frac * n_iter)
    if res["nb"] != nb_expected:
        fails.append(f"memory-less length {res['nb']} != configured {nb_expected}")
    if res["run"] != "ok":
        fails.append(f"run aborted: {res['run']}")
        return fails
    nb = nb_expected
    calls = res["calls"]
    if len(calls) != n_iter:
        fails.append(f"{len(calls)} maximisations for {n_iter} iterations")
        return fails
    S_prev = None
    labels = res.get("labels") or []
    for k in range(1, n_iter + 1):
        S, flag = calls[k - 1]
        s = stats_seq[k - 1]
        if flag != (k <= nb):
            fails.append(f"iteration {k}: burn_in flag {flag}, memory-less phase is k<={nb}")
        if k <= len(labels) and isinstance(labels[k - 1], str) and ("memory-less" in labels[k - 1]) != (k <= nb):
            fails.append(f"iteration {k}: the algorithm reports its phase as {labels[k-1]!r}, memory-less phase is k<={nb}")
        if k <= nb + 1:
            if not same_list(S, [float(x) for x in s]):
                fails.append(f"iteration {k} (memory-less, nb={nb}): statistics used {S} != current {s}")
        else:
            e = float(k - nb) ** (-power)
            for j in range(len(s)):
                want = (1 - e) * S_prev[j] + e * s[j]
                ok = (math.isclose(S[j], want, rel_tol=1e-12, abs_tol=1e-12) if math.isfinite(want) else same_float(S[j], want))
                if not ok:
                    fails.append(f"iteration {k} (nb={nb}, power={power}): S={S[j]!r} but (1-e)S_prev+e*s={want!r}")
                    break
        S_prev = S
        if len(fails) > 20:
            break
    return fails


def model_requests(n_iter, count, frac, power, stats_seq):
    """Lines for the Lean driver for one configuration (one per statistic coordinate)."""
    lines = [
        f"power p={fmt_float(power)}",
        f"nburn niter={n_iter} count={'none' if count is None else count} frac={'none' if frac is None else fmt_float(frac)}",
    ]
    return lines


def compare_with_model(chk, cases, results):
    # first pass: ctor-level lines
    lines = []
    for c in cases:
        lines += model_requests(*c)
    out = chk.model(lines)
    run_lines, run_idx = [], []
    for i, (c, res) in enumerate(zip(cases, results)):
        n_iter, count, frac, power, seq = c
        m_pow, m_nb = out[2 * i], out[2 * i + 1]
        if m_pow == "err:algo":
            model_ctor = "err:algo"
        elif m_nb == "err:algo":
            model_ctor = "err:algo"
        else:
            model_ctor = "ok"
        if model_ctor != res["ctor"]:
            chk.disagree(case_json(c), res["ctor"], model_ctor, "constructor outcome")
            continue
        if model_ctor != "ok":
            continue
        nb_model = int(m_nb.split("=")[1])
        if nb_model != res["nb"]:
            chk.disagree(case_json(c), res["nb"], nb_model, "length of memory-less phase")
            continue
        dim = len(seq[0]) if seq else 0
        for j in range(dim):
            run_lines.append(f"run nb={nb_model} power={fmt_float(power)} s={fmt_list([fmt_float(s[j]) for s in seq])}")
            run_idx.append((i, j))
    out2 = chk.model(run_lines)
    for (i, j), resp in zip(run_idx, out2):
        c, res = cases[i], results[i]
        if res["run"] != "ok":
            chk.disagree(case_json(c), res["run"], "ok", "run outcome")
            continue
        try:
            parts = dict(p.split("=") for p in resp.split(" "))
            S_model = [parse_float(x) for x in split_ne(parts["S"])]
            flags_model = [x == "1" for x in split_ne(parts["burn"])]
        except Exception:
            chk.disagree(case_json(c), "?", resp, "unparsable model response")
            continue
        S_impl = [call[0][j] for call in res["calls"]]
        flags_impl = [call[1] for call in res["calls"]]
        if flags_impl != flags_model:
            chk.disagree(case_json(c), flags_impl, flags_model, "burn_in flags")
        elif [fmt_float(x) for x in S_impl] != [fmt_float(x) for x in S_model]:
            # bitwise on float64
            chk.disagree(case_json(c), S_impl, S_model, f"statistics coordinate {j} (bitwise float64)")


def case_json(c):
    n_iter, count, frac, power, seq = c
    return {"kind": "stub", "n_iter": n_iter, "n_burn_in_iter": count, "n_burn_in_iter_frac": frac,
            "burn_in_step_power": power, "stats": seq}


def gen_stats(rng, n_iter, dim=2):
    # small dyadic numbers, sometimes large / negative
    out = []
    for _ in range(n_iter):
        out.append([rng.choice([1, -1]) * rng.randrange(0, 64) / 8.0 * rng.choice([1, 1, 1, 1024.0]) for _ in range(dim)])
    return out


def stub_cases(chk):
    rng = chk.rng
    cases = []
    max_n = 30 if chk.tier == "thorough" else 12
    # exhaustive (n_iter, count) and (n_iter, frac) with the default power
    for n in range(1, max_n + 1):
        for count in range(0, n + 2):
            cases.append((n, count, rng.choice([None, 0.9]), 0.8, gen_stats(rng, n)))
        for frac in FRACS:
            cases.append((n, None, frac, rng.choice([0.8, 0.51, 1.0]), gen_stats(rng, n)))
    for p in POWERS:
        for n in (1, 5, 9):
            cases.append((n, None, 0.5, p, gen_stats(rng, n)))
    cases.append((5, None, None, 0.8, gen_stats(rng, 5)))
    # random extras
    for _ in range(200 if chk.tier == "thorough" else 40):
        n = rng.randrange(1, 60)
        if rng.random() < 0.5:
            cases.append((n, rng.randrange(0, n + 1), None, rng.choice([0.51, 0.6, 0.75, 0.8, 0.9, 1.0]), gen_stats(rng, n, 3)))
        else:
            cases.append((n, None, rng.randrange(0, 101) / 100.0, rng.choice([0.51, 0.6, 0.75, 0.8, 0.9, 1.0]), gen_stats(rng, n, 1)))
    return cases


INF, NAN = float("inf"), float("nan")


def gen_stats_nonfinite(rng, n, nb, dim=2):
    """Statistics with `inf` / `-inf` / `nan` entries around the end of the memory-less phase and inside the phase with memory.
    (The code keeps non-finite statistics on purpose — "enables to keep `inf` deltas" — and the reset iteration nb+1 must hand
    over exactly the current statistics even when the kept ones are non-finite: 0 * inf would be nan.)"""
    seq = gen_stats(rng, n, dim)
    spots = [k for k in {nb - 1, nb, nb + 1, nb + 2, rng.randrange(1, n + 1)} if 1 <= k <= n]
    rng.shuffle(spots)
    for i, k in enumerate(spots):
        if i == 0 or rng.random() < 0.6:
            seq[k - 1][rng.randrange(dim)] = rng.choice([INF, -INF, NAN, INF])
    return seq


def nonfinite_cases(chk):
    """(configuration, statistics, second-run statistics): every (n_iter<=N, explicit count 0..n) once, statistics with
    non-finite entries; the same algorithm object is then run a second time on other statistics."""
    rng = chk.rng
    out = []
    N = 12 if chk.tier == "thorough" else 8
    for n in range(2, N + 1):
        for nb in range(0, n + 1):
            p = rng.choice([0.51, 0.8, 1.0])
            out.append(((n, nb, None, p, gen_stats_nonfinite(rng, n, nb)),
                        rng.choice([gen_stats(rng, n), gen_stats_nonfinite(rng, n, nb)])))
    return out


def long_cases(chk):
    """Long phases with memory (thousands of averaged iterations: steps down to 4e-5) — a legitimate configuration the short
    runs never reach; one statistic coordinate."""
    rng = chk.rng
    confs = [(rng.randrange(3200, 4200), rng.choice([0, 1, rng.randrange(2, 200)]), 1.0),
             (rng.randrange(22000, 26000), rng.choice([0, rng.randrange(1, 300)]), 0.8),
             (rng.randrange(5000, 7000), rng.randrange(0, 2000), 0.51)]
    if chk.tier == "thorough":
        confs += [(60000, rng.randrange(0, 5000), 0.8), (30000, rng.randrange(0, 3000), 1.0), (20000, 18000, 0.6)]
    return [(n, nb, None, p, gen_stats(rng, n, 1)) for n, nb, p in confs]


def jump_case(chk, env, n_iter, nb, power, ks, seq):
    """The real algorithm object driven at a sparse increasing list of iterations `ks` (starting at 1): reaches the step sizes of
    runs of 1e4..1e7 iterations (the documented default is 10000) without running them. Property predicate only."""
    torch, AlgorithmSettings, algorithm_factory, LAIE = env
    cj = {"kind": "jump", "n_iter": n_iter, "n_burn_in_iter": nb, "burn_in_step_power": power, "iterations": ks, "stats": seq}
    key = ("jump", n_iter, nb, power, len(ks))
    try:
        algo = build_algo(AlgorithmSettings, algorithm_factory, n_iter, nb, None, power)
    except Exception as e:  # noqa
        chk.impl_failure(cj, f"valid configuration refused: {err_class(e, LAIE)}")
        chk.case(key, nontrivial=True, tags={"kind": "stub-jump"})
        return
    m = StubModel(torch, seq)
    err = None
    try:
        for k in ks:
            algo.current_iteration = k
            algo._maximization_step(m, None)
    except Exception as e:  # noqa
        err = type(e).__name__
    if err is not None or len(m.calls) != len(ks):
        chk.impl_failure(cj, f"run aborted after {len(m.calls)} of {len(ks)} maximisations: {err}")
    S_prev = None
    for (S, flag), s, k in zip(m.calls, seq, ks):
        bad = None
        if flag != (k <= nb):
            bad = f"burn_in flag {flag}, memory-less phase is k<={nb}"
        elif k <= nb + 1:
            if not same_list(S, [float(x) for x in s]):
                bad = f"memory-less (nb={nb}): statistics used {S} != current {s}"
        else:
            e = float(k - nb) ** (-power)
            for j in range(len(s)):
                want = (1 - e) * S_prev[j] + e * s[j]
                # one product and one sum, each rounded once: 4 ulp of the larger magnitude (independent of |want|: cancellation)
                tol = 1e-15 * (abs(S_prev[j]) + abs(s[j])) + 1e-300
                if not (abs(S[j] - want) <= tol):
                    bad = (f"with memory (nb={nb}, power={power}): S={S[j]!r} but (1-e)S_prev+e*s={want!r} with step e={e!r}, "
                           f"S_prev={S_prev[j]!r}, s={s[j]!r}")
                    break
        if bad:
            chk.impl_failure(cj, f"iteration {k}: {bad}")
            break
        S_prev = S
    chk.case(key, nontrivial=True, tags={"kind": "stub-jump"})


def jump_cases(chk):
    rng = chk.rng
    out = []
    for i in range(12 if chk.tier == "thorough" else 5):
        n_iter = rng.choice([10 ** 4, 10 ** 5, 10 ** 6, 10 ** 7])
        nb = rng.choice([0, int(0.9 * n_iter), rng.randrange(0, n_iter // 2), 1])
        power = rng.choice([0.51, 0.6, 0.8, 0.8, 1.0])
        ks = {1, 2, nb - 1, nb, nb + 1, nb + 2, nb + 3, n_iter}
        ks |= {nb + 10 ** j + rng.randrange(0, 3) for j in range(1, 8)}
        ks |= {rng.randrange(1, n_iter + 1) for _ in range(6)}
        ks = sorted(k for k in ks if 1 <= k <= n_iter)
        out.append((n_iter, nb, power, ks, gen_stats(rng, len(ks), 2)))
    return out


# ------------------------------------------------------------------ real fits
REAL_KINDS = {
    # name: (factory name, mock cohort of api_common.cohort, number of individuals or None, hyper-parameters)
    "logistic": ("logistic", "multi", None, dict(dimension=3, source_dimension=2)),
    "linear": ("linear", "multi", None, dict(dimension=3, source_dimension=2)),
    "logistic_scalar": ("logistic", "multi", None, dict(dimension=3, source_dimension=2, obs_models="gaussian-scalar")),
    "univariate": ("logistic", "uni", None, dict(dimension=1)),
    "joint": ("joint", "joint", 6, dict(source_dimension=1)),
    "shared_speed": ("shared_speed_logistic", "multi", None, dict(source_dimension=1)),
    "mixture": ("mixture_logistic", "multi", None, dict(dimension=3, source_dimension=2, n_clusters=2)),
}


def real_fit_case(env, chk, model_name, n_iter, count, frac, power, seed, opts=None):
    """Real fit with call-through recording of s_k and S_k; property predicate + model comparison.
    opts (all optional): annealing = dict given to the algorithm (annealing x memory-less phase), print_periodicity = int (the
    output manager prints the algorithm and the model every so many iterations), via = "kwargs" | "settings" | "path" (keyword
    arguments of `fit`, an `AlgorithmSettings` object, a settings file), second_run = True (one algorithm object, `run` twice)."""
    torch, AlgorithmSettings, algorithm_factory, LAIE = env
    import os
    import tempfile
    from leaspy.models import model_factory
    from leaspy.utils.weighted_tensor import WeightedTensor
    from . import api_common as A
    opts = dict(opts or {})
    factory_name, which, n_ind, kw = REAL_KINDS[model_name]
    old_dtype = torch.get_default_dtype()
    if opts.get("float64"):
        torch.set_default_dtype(torch.float64)
    try:
        return _real_fit_case(env, chk, model_name, n_iter, count, frac, power, seed, opts,
                              A.cohort(which, n_ind=n_ind)[1], model_factory(factory_name, **kw), WeightedTensor, os, tempfile)
    finally:
        torch.set_default_dtype(old_dtype)


def _real_fit_case(env, chk, model_name, n_iter, count, frac, power, seed, opts, data, model, WeightedTensor, os, tempfile):
    torch, AlgorithmSettings, algorithm_factory, LAIE = env
    rec_s, rec_S = [], []
    orig_css, orig_up = model.compute_sufficient_statistics, model.update_parameters

    def tens(v):
        return (v.weighted_value if isinstance(v, WeightedTensor) else v).detach().clone().double()

    raw_s, raw_S = [], []

    def raw(d):
        # the tensor the arithmetic of `_maximization_step` acts on (`.value` of a WeightedTensor), flattened, exact
        return [(k, (v.value if isinstance(v, WeightedTensor) else v).detach().clone(), str((v.value if isinstance(v, WeightedTensor) else v).dtype))
                for k, v in d.items()]

    def css(state):
        s = orig_css(state)
        rec_s.append({k: tens(v) for k, v in s.items()})
        raw_s.append(raw(s))
        return s

    def up(state, ss, *, burn_in):
        rec_S.append(({k: tens(v) for k, v in ss.items()}, bool(burn_in)))
        raw_S.append(raw(ss))
        return orig_up(state, ss, burn_in=burn_in)

    model.compute_sufficient_statistics = css
    model.update_parameters = up
    kws = dict(n_iter=n_iter, seed=seed, progress_bar=False, burn_in_step_power=power, n_burn_in_iter_frac=frac)
    if count is not None:
        kws["n_burn_in_iter"] = count
    if opts.get("annealing"):
        kws["annealing"] = dict(opts["annealing"])
    case = {"kind": "fit", "model": model_name, "n_iter": n_iter, "n_burn_in_iter": count,
            "n_burn_in_iter_frac": frac, "burn_in_step_power": power, "seed": seed}
    if opts:
        case["opts"] = opts
    via = opts.get("via", "kwargs")
    pp = opts.get("print_periodicity")
    logs = {}
    if pp:
        # the output manager prints only when a logs folder is given
        logs = dict(print_periodicity=pp, path=tempfile.mkdtemp(prefix="c05_logs_"), overwrite_logs_folder=True)
    try:
        with core.quiet(), warnings.catch_warnings():
            warnings.simplefilter("ignore")
            if opts.get("second_run"):
                # ONE algorithm object run twice (as a cross-validation loop does): the second run must follow the schedule
                # from iteration 1 again; what is judged below is the second run
                from leaspy.io.data import Dataset
                dataset = Dataset(data)
                algo = algorithm_factory(AlgorithmSettings("mcmc_saem", **kws))
                model.initialize(dataset)
                algo.run(model, dataset)
                first = (len(rec_s), len(rec_S))
                for lst in (rec_s, rec_S, raw_s, raw_S):
                    del lst[:]
                algo.run(model, dataset)
                if first != (n_iter, n_iter):
                    chk.impl_failure(case, f"first run: {first[1]} maximisations / {first[0]} statistics for {n_iter} iterations")
            elif via == "kwargs":
                model.fit(data, "mcmc_saem", **kws, **logs)
            else:
                settings = AlgorithmSettings("mcmc_saem", **kws)
                if via == "path":
                    fd, path = tempfile.mkstemp(suffix=".json", prefix="c05_fit_settings_")
                    os.close(fd)
                    try:
                        settings.save(path)
                        model.fit(data, algorithm_settings_path=path)
                    finally:
                        os.unlink(path)
                else:
                    if pp:
                        settings.set_logs(**logs)
                    model.fit(data, algorithm_settings=settings)
    except Exception as e:  # noqa
        chk.impl_failure(case, f"valid fit configuration aborted: {type(e).__name__}: {e}")
        return
    finally:
        if logs:
            import shutil
            shutil.rmtree(logs["path"], ignore_errors=True)
    nb = count if count is not None else int(frac * n_iter)
    fails = []
    if len(rec_S) != n_iter or len(rec_s) != n_iter:
        fails.append(f"{len(rec_S)} maximisations / {len(rec_s)} statistics for {n_iter} iterations")
    else:
        lines, keys = [], []
        prev = None
        for k in range(1, n_iter + 1):
            S, flag = rec_S[k - 1]
            s = rec_s[k - 1]
            if flag != (k <= nb):
                fails.append(f"iteration {k}: burn_in flag {flag} but memory-less phase is k<={nb}")
            for key in s:
                if k <= nb + 1:
                    if not (S[key].shape == s[key].shape and bool(((S[key] == s[key]) | (S[key].isnan() & s[key].isnan())).all())):
                        fails.append(f"iteration {k} memory-less (nb={nb}): '{key}' used != current")
                else:
                    e = float(k - nb) ** (-power)
                    want = (1 - e) * prev[key] + e * s[key]
                    tol = 4e-6 * (want.abs() + prev[key].abs() + s[key].abs()) + 1e-30
                    fin = torch.isfinite(want)
                    # finite entries: float32 envelope; non-finite ones (inf deltas, nan) must be the same non-finite value
                    ok_fin = bool(((S[key] - want).abs() <= tol)[fin].all())
                    ok_nonfin = bool(((S[key] == want) | (S[key].isnan() & want.isnan()))[~fin].all())
                    if not (ok_fin and ok_nonfin and S[key].shape == want.shape):
                        fails.append(f"iteration {k} (nb={nb}): '{key}' is not (1-e)S_prev + e*s, max dev {float((S[key]-want).abs()[fin].max()) if bool(fin.any()) else float('nan'):.3g}")
            prev = S
        # model comparison on the scalar statistic 'nll_tot' and first coordinate of each key
        for key in sorted(rec_s[0]):
            seq = [float(rec_s[k][key].reshape(-1)[0]) for k in range(n_iter)]
            if any(math.isnan(x) or math.isinf(x) for x in seq):
                continue
            lines.append(f"run nb={nb} power={fmt_float(power)} s={fmt_list([fmt_float(x) for x in seq])}")
            keys.append((key, seq))
        out = chk.model(lines)
        for (key, seq), resp in zip(keys, out):
            parts = dict(p.split("=") for p in resp.split(" "))
            S_model = [parse_float(x) for x in split_ne(parts["S"])]
            flags_model = [x == "1" for x in split_ne(parts["burn"])]
            S_impl = [float(rec_S[k][0][key].reshape(-1)[0]) for k in range(n_iter)]
            if flags_model != [f for _, f in rec_S]:
                chk.disagree(case, [f for _, f in rec_S], flags_model, "burn_in flags (real fit)")
                break
            # float32 accumulation in the implementation: envelope grows with the number of convex steps
            for k, (a, b) in enumerate(zip(S_impl, S_model)):
                scale = max(abs(x) for x in seq[: k + 1]) + 1e-30
                if abs(a - b) > 2e-6 * scale * (1 + max(0, k - nb)):
                    chk.disagree(case, a, b, f"statistics '{key}' at iteration {k+1} (float32 envelope)")
                    break
        # every entry of every key, bitwise, in the dtype and operation order of the code (float32 / float64 tensors, double step).
        # The update is key-wise, so a run whose keys have different dtypes (joint, mixture models) is compared dtype by dtype;
        # non-finite entries included (NaN canonical).
        key_dt = {}
        for d in raw_s + raw_S:
            for k, _, dt in d:
                key_dt.setdefault(k, set()).add(dt)
        for dt_name, dt_code in (("torch.float32", "f32"), ("torch.float64", "f64")):
            keys = {k for k, dts_k in key_dt.items() if dts_k == {dt_name}}
            if not keys:
                continue
            seq = [[(k, v.double().reshape(-1).tolist()) for k, v, _ in d if k in keys] for d in raw_s]
            resp = chk.model([dict_line(nb, float(power), dt_code, seq)])[0]
            impl = dict_impl_string({"calls": [([(k, v.double().reshape(-1).tolist(), None, None) for k, v, _ in d if k in keys], fl)
                                               for d, (_, fl) in zip(raw_S, rec_S)], "err": "none"})
            if impl != resp:
                a, b = impl.split(" ")[0][2:].split(";"), resp.split(" ")[0][2:].split(";")
                where = next((i + 1 for i, (x, y) in enumerate(zip(a, b)) if x != y), "?")
                chk.disagree(case, impl[:300], resp[:300], f"real fit: statistics handed to update_parameters, bitwise {dt_name}, first difference at iteration {where}")
                chk.impl_failure(case, f"real fit: at iteration {where} (nb={nb}, power={power}) the {dt_name} statistics handed to the maximisation "
                                       "are not those of the schedule (memory-less copy, then kept*(1-e)+e*new with the double step cast to the tensors' dtype)")
            finite = all(bool(torch.isfinite(v).all()) for d in raw_s for k, v, _ in d if k in keys)
            chk.tag("real_fit_exact", "compared" + ("" if dt_name == "torch.float32" else "-float64") + ("" if finite else "-with-non-finite-entries"))
        other = sorted(k for k, dts_k in key_dt.items() if dts_k not in ({"torch.float32"}, {"torch.float64"}))
        if other:
            chk.tag("real_fit_exact", "skipped keys of changing / other dtype: " + ",".join(other))
    for f in fails[:3]:
        chk.impl_failure(case, f)
    chk.case(("fit", model_name, n_iter, count, frac, power, seed, repr(sorted(opts.items()))), nontrivial=(nb + 2 <= n_iter),
             sample=case if seed == 0 else None, tags={"kind": "real-fit", "model": model_name, "fit_via": via,
                                                        "fit_options": ",".join(sorted(k for k in opts if k != "via")) or "none"})


def history_items(chk):
    """(case, second-run statistics, checkpoint): random configurations whose algorithm object is (a) replaced half-way by a deep
    copy / a pickle round trip of itself and (b) used for a second run on other statistics."""
    rng = chk.rng
    items = []
    for _ in range(100 if chk.tier == "thorough" else 30):
        n = rng.randrange(3, 40)
        if rng.random() < 0.6:
            c = (n, rng.randrange(0, n + 1), None, rng.choice([0.51, 0.6, 0.8, 1.0]), gen_stats(rng, n, 2))
        else:
            c = (n, None, rng.choice(FRACS), rng.choice([0.51, 0.8, 1.0]), gen_stats(rng, n, 2))
        copy_at = (rng.randrange(1, n + 1), rng.choice(["deepcopy", "pickle"])) if rng.random() < 0.6 else None
        items.append((c, gen_stats(rng, n, 2), copy_at))
    return items


def check_histories(chk, env, items, kind):
    """stub runs with a second run of the same object and / or a checkpoint copy; predicate on both runs, both compared with the model"""
    cases, results, cases2, results2 = [], [], [], []
    for c, second, copy_at in items:
        n_iter, count, frac, power, seq = c
        res = run_stub(env, *c, second=second, copy_at=copy_at)
        cj = case_json(c)
        if second is not None:
            cj["second_stats"] = second
        if copy_at is not None:
            cj["checkpoint_copy"] = list(copy_at)
        for f in predicate_failures(n_iter, count, frac, power, seq, res)[:3]:
            chk.impl_failure(cj, (f"(algorithm object replaced by its {copy_at[1]} before iteration {copy_at[0]}) " if copy_at else "") + f)
        cases.append(c)
        results.append(res)
        if second is not None and res.get("run") == "ok":
            if "second" not in res:
                chk.impl_failure(cj, "second run of the same algorithm object did not take place")
            else:
                for f in predicate_failures(n_iter, count, frac, power, second, res["second"])[:3]:
                    chk.impl_failure(cj, "(second run of the same algorithm object) " + f)
                cases2.append((n_iter, count, frac, power, second))
                results2.append(res["second"])
        chk.case((kind, n_iter, count, frac, power, repr(copy_at), len(cases)), nontrivial=(res["ctor"] != "ok" or res.get("nb", 0) + 2 <= n_iter),
                 tags={"kind": kind, "checkpoint": copy_at[1] if copy_at else "none"})
    compare_with_model(chk, cases, results)
    compare_with_model(chk, cases2, results2)


def ctor_grid(chk, env):
    """Constructor only, exhaustively: every explicit count 0..n for every n_iter up to N (and a few large n_iter):
    the memory-less phase must have exactly the configured length (no float round trip may lose one iteration)."""
    torch, AlgorithmSettings, algorithm_factory, LAIE = env
    N = 400 if chk.tier == "thorough" else 120
    pairs = [(n, c) for n in range(1, N + 1) for c in range(0, n + 1)]
    for n in (1000, 5000, 10000):
        pairs += [(n, c) for c in sorted({chk.rng.randrange(0, n + 1) for _ in range(300)} | {3, 6, 12, 24, 29, 57, 58, n - 1, n})]
    lines, keep = [], []
    bad = 0
    for n, c in pairs:
        try:
            algo = build_algo(AlgorithmSettings, algorithm_factory, n, c, None, 0.8)
            nb = algo.algo_parameters["n_burn_in_iter"]
        except Exception as e:  # noqa
            nb = err_class(e, LAIE)
        if nb != c:
            bad += 1
            if bad <= 3:
                chk.impl_failure({"kind": "ctor", "n_iter": n, "n_burn_in_iter": c, "n_burn_in_iter_frac": None},
                                 f"explicit memory-less count {c} with n_iter={n} became {nb}")
        lines.append(f"nburn niter={n} count={c} frac=none")
        keep.append((n, c, nb))
    out = chk.model(lines)
    for (n, c, nb), resp in zip(keep, out):
        if resp != f"nb={nb}":
            chk.disagree({"kind": "ctor", "n_iter": n, "n_burn_in_iter": c}, nb, resp, "length of memory-less phase (constructor grid)")
    chk.evaluations += len(pairs)
    chk.tag("kind", "ctor-grid", len(pairs))
    chk.extra_cov["ctor_grid"] = f"every (n_iter <= {N}, explicit count <= n_iter) + sampled counts for n_iter in 1000, 5000, 10000"


# ------------------------------------------------------------------ constructor, whole accepted domain
F27 = "F27"
SPECIAL_FRACS = [float("nan"), float("inf"), float("-inf"), -0.55, -0.05, -1.0, 1.05, 1.55, 2.0, 5e-324, 1e-300, 1e300,
                 0.29, 0.57, 0.58, 0.7, 1 / 3, 2 / 3, 0.999999999999999, 1.0000000000000002]


def ambient_settings(c):
    """Other, valid, settings of the same algorithm (annealing longer or shorter than the memory-less phase, another population
    sampler, sampler tuning): none of them may change the length of the memory-less phase.  Deterministic in the case."""
    import zlib
    n_iter = c[0]
    if not (isinstance(n_iter, int) and n_iter >= 20):
        return {}
    h = zlib.crc32(repr(c).encode())
    which = h % 4
    if which == 0:
        return {}
    if which == 1:
        return dict(annealing=dict(do_annealing=True, n_plateau=2 + (h >> 3) % 3, initial_temperature=3.0,
                                   n_iter_frac=[0.5, 0.8, 1.0, 0.25][(h >> 5) % 4]))
    if which == 2:
        return dict(sampler_pop=["Gibbs", "FastGibbs", "Metropolis-Hastings"][(h >> 3) % 3])
    return dict(annealing=dict(do_annealing=True, n_plateau=3, initial_temperature=5.0, n_iter=max(2, (n_iter * 9) // 10)),
                sampler_ind_params=dict(acceptation_history_length=7))


def _np_typed(x, np):
    """the same number as a numpy scalar (what a configuration computed with numpy / read from a DataFrame carries)"""
    if isinstance(x, bool) or x is None:
        return x
    if isinstance(x, int):
        return np.int64(x) if abs(x) < 2 ** 62 else x
    if isinstance(x, float):
        return np.float64(x)
    return x


def ctor_outcome(env, n_iter, count, frac, power, via="kwargs"):
    """Real constructor: ('ok', nb, warned) or (error class, None, None).
    via: "kwargs" (keyword arguments of AlgorithmSettings), "json" (the settings saved with `AlgorithmSettings.save` and read back
    with `AlgorithmSettings.load`: what `fit(..., algorithm_settings_path=...)` does), "numpy" (numbers given as numpy scalars)."""
    import numbers
    import os
    import tempfile
    torch, AlgorithmSettings, algorithm_factory, LAIE = env
    kws = dict(n_iter=n_iter, seed=0, progress_bar=False, burn_in_step_power=power, n_burn_in_iter_frac=frac)
    if count is not None:
        kws["n_burn_in_iter"] = count
    kws.update(ambient_settings((n_iter, count, frac, power)))
    if via == "numpy":
        import numpy as np
        for k in ("n_iter", "burn_in_step_power", "n_burn_in_iter_frac", "n_burn_in_iter"):
            if k in kws:
                kws[k] = _np_typed(kws[k], np)
    try:
        with warnings.catch_warnings(record=True) as w:
            warnings.simplefilter("always")
            settings = AlgorithmSettings("mcmc_saem", **kws)
            if via == "json":
                fd, path = tempfile.mkstemp(suffix=".json", prefix="c05_settings_")
                os.close(fd)
                try:
                    with core.quiet():
                        settings.save(path)
                        settings = AlgorithmSettings.load(path)
                finally:
                    os.unlink(path)
            algo = algorithm_factory(settings)
        nb = algo.algo_parameters["n_burn_in_iter"]
        if type(nb) is not int and not (via == "numpy" and count is not None and isinstance(nb, numbers.Integral)):
            return (f"err:other:nb-of-type-{type(nb).__name__}", None, None)
        # only the deprecation of the explicit burn-in count is this property's matter (annealing has its own)
        return ("ok", int(nb), any(issubclass(x.category, FutureWarning) and "`n_burn_in_iter` setting" in str(x.message) for x in w))
    except Exception as e:  # noqa
        return (err_class(e, LAIE), None, None)


def ctor_line(n_iter, count, frac, power):
    return (f"ctor niter={n_iter} count={'none' if count is None else count} "
            f"frac={'none' if frac is None else fmt_float(float(frac))} p={fmt_float(float(power))}")


def ctor_case_json(c):
    n_iter, count, frac, power = c
    return {"kind": "ctorx", "n_iter": n_iter, "n_burn_in_iter": count,
            "n_burn_in_iter_frac": (repr(frac) if isinstance(frac, float) and (math.isnan(frac) or math.isinf(frac)) else frac),
            "burn_in_step_power": (repr(power) if isinstance(power, float) and (math.isnan(power) or math.isinf(power)) else power)}


def _unrepr(x):
    return float(x) if isinstance(x, str) else x


def ctor_predicate(c, out):
    """Property-level expectations on the constructor, independent of the Lean model."""
    from fractions import Fraction
    n_iter, count, frac, power = c
    kind, nb, warned = out
    fails = []
    f_ok = frac is None or (not math.isnan(frac) and not math.isinf(frac))
    power_ok = 0.5 < power <= 1
    if count is None and frac is None:
        if kind != "err:algo":
            fails.append(f"neither count nor fraction given, not refused with an algorithm-input error: {kind}")
        return fails, False
    if count is None and not f_ok:
        if kind == "ok":
            fails.append(f"fraction {frac!r} accepted with length {nb}")
        return fails, False
    if not power_ok:
        if kind != "err:algo":
            fails.append(f"step power {power!r} outside (0.5,1] not refused with an algorithm-input error: {kind}")
        return fails, False
    # a length can be derived and the power is fine
    want = count if count is not None else None
    if kind == "ok" and nb < 0:
        fails.append(f"configuration accepted with a negative memory-less length n_burn_in_iter={nb} "
                     "(the first iteration would abort with AttributeError; refused since the fix of F27)")
        return fails, False
    if count is not None:
        surely_neg, maybe_neg = count < 0, count < 0
    else:
        x = Fraction(frac) * n_iter
        lo, hi = sorted((x * (1 - Fraction(1, 2 ** 52)), x * (1 + Fraction(1, 2 ** 52))))
        surely_neg, maybe_neg = math.trunc(hi) <= -1, math.trunc(lo) <= -1
    if surely_neg:
        if kind != "err:algo":
            fails.append(f"negative memory-less length not refused with an algorithm-input error: {kind}")
        return fails, False
    if maybe_neg and kind == "err:algo":
        return fails, False          # the double product rounds to <= -1: decided by the exact model comparison
    if kind != "ok":
        fails.append(f"valid configuration refused: {kind}")
        return fails, False
    if want is not None:
        if nb != want:
            fails.append(f"explicit count {want} became {nb}")
    else:
        exact = Fraction(frac) * n_iter
        # int() of the product, the product being rounded once (relative 2**-52 covers half an ulp and subnormals → 0)
        lo, hi = sorted((exact * (1 - Fraction(1, 2 ** 52)), exact * (1 + Fraction(1, 2 ** 52))))
        if not (math.trunc(lo) <= nb <= math.trunc(hi)):      # int() is monotone
            fails.append(f"memory-less length {nb} is not int(fraction * n_iter) for fraction {frac!r} of {n_iter} iterations "
                         f"(exact product {float(exact)!r}, int = {math.trunc(exact)})")
        if 0 <= frac <= 1 and n_iter >= 0 and not (0 <= nb <= n_iter):
            fails.append(f"fraction {frac!r} in [0,1] of {n_iter} iterations gave a length {nb} outside [0, n_iter]")
    if warned != (count is not None and frac is not None):
        fails.append(f"FutureWarning emitted={warned} with count={count} fraction={frac!r}")
    return fails, False


def ctor_cases(chk):
    rng = chk.rng
    cases = []
    thorough = chk.tier == "thorough"
    # exhaustive small grid: n_iter -3..N, fraction k/20 for k=-6..26 (every multiple of 0.05 incl. negative and > 1)
    N = 60 if thorough else 24
    for n in range(-3, N + 1):
        for k in range(-6, 27):
            cases.append((n, None, k / 20, 0.8))
        for f in SPECIAL_FRACS:
            cases.append((n, None, f, 0.8))
    # which of count / fraction wins, deprecation warning, integer-typed fraction, negative counts, order of the refusals
    for n in (0, 1, 7, 10):
        for count in (None, -3, -1, 0, 1, 5, 10, 12):
            for frac in (None, 0.5, float("nan"), float("inf"), -0.5, 1, 0, 2, True):
                for p in (0.8, 0.5, float("nan"), 1, 2.0):
                    cases.append((n, count, frac, p))
    # random: large n_iter, 53-bit fractions
    for _ in range(3000 if thorough else 400):
        n = rng.choice([rng.randrange(1, 200), rng.randrange(1, 10 ** 7), rng.randrange(1, 10 ** 4)])
        r = rng.random()
        if r < 0.6:
            f = rng.random()
        elif r < 0.8:
            f = rng.randrange(0, n + 1) / n            # k/n: product one ulp around an integer
        elif r < 0.9:
            f = rng.uniform(-1.5, 2.5)
        else:
            f = rng.randrange(0, 101) / 100
        cases.append((n, None, f, rng.choice([0.8, 0.51, 1.0, 0.8, 0.8, 0.5, 1.5])))
    return cases


def ctor_check(chk, env, cases, via="kwargs"):
    outs = [ctor_outcome(env, *c, via=via) for c in cases]
    resp = chk.model([ctor_line(*c) for c in cases])
    by_n = {}
    for c, out, m in zip(cases, outs, resp):
        n_iter, count, frac, power = c
        cj = ctor_case_json(c)
        if via != "kwargs":
            cj["via"] = via
        fails, _ = ctor_predicate(c, out)
        for f in fails:
            chk.impl_failure(cj, f)
        impl = (f"nb={out[1]} warn={1 if out[2] else 0}" if out[0] == "ok" else out[0])
        if impl != m:
            chk.disagree(cj, impl, m, "constructor outcome / length of the memory-less phase / deprecation warning")
        if out[0] == "ok" and count is None and power == 0.8 and n_iter >= 0 and isinstance(frac, (int, float)) and frac == frac:
            by_n.setdefault(n_iter, []).append((frac, out[1]))
        chk.case(("ctorx", n_iter, count, repr(frac), repr(power)) + (() if via == "kwargs" else (via,)),
                 nontrivial=(out[0] != "ok" or count is None),
                 sample=cj if (len(chk.samples) < 5 and frac is not None and frac < 0) else None,
                 tags={"kind": "ctor", "ctor": out[0]} if via == "kwargs" else {"kind": "ctor-" + via, "ctor": out[0]})
    # monotone in the fraction (same n_iter >= 0)
    for n, lst in by_n.items():
        lst.sort()
        for (f1, b1), (f2, b2) in zip(lst, lst[1:]):
            if b2 < b1:
                chk.impl_failure({"kind": "ctorx", "n_iter": n, "n_burn_in_iter": None, "n_burn_in_iter_frac": f2,
                                  "burn_in_step_power": 0.8, "compare_with_fraction": f1, **({} if via == "kwargs" else {"via": via})},
                                 f"memory-less length not monotone in the fraction: {f1!r}->{b1} but {f2!r}->{b2} (n_iter={n})")
                break


def reuse_check(chk, env):
    """ONE `AlgorithmSettings` object used for a whole series of algorithms (as a grid search over `n_iter` does: the settings'
    parameters are edited in place between two uses). Every algorithm must derive its memory-less length from what the settings
    say when it is built — nothing an earlier algorithm derived may stick to the settings — and the algorithms built earlier
    keep their own length."""
    torch, AlgorithmSettings, algorithm_factory, LAIE = env
    rng = chk.rng
    for rep in range(6 if chk.tier == "thorough" else 2):
        with warnings.catch_warnings():
            warnings.simplefilter("ignore")
            settings = AlgorithmSettings("mcmc_saem", seed=0, progress_bar=False, n_iter=rng.randrange(20, 300))
        frac, count = 0.9, None          # the defaults
        built, history, lines = [], [], []
        for step in range(14):
            r = rng.random()
            if r < 0.55:
                settings.parameters["n_iter"] = rng.choice([rng.randrange(1, 300), 100, 50, 29, 1000])
            elif r < 0.8:
                frac = rng.choice(FRACS + [0.29, 0.57, 1 / 3])
                settings.parameters["n_burn_in_iter_frac"] = frac
            elif r < 0.9:
                count, frac = rng.randrange(0, 40), None
                settings.parameters["n_burn_in_iter"], settings.parameters["n_burn_in_iter_frac"] = count, None
            else:
                count, frac = None, rng.choice(FRACS)
                settings.parameters["n_burn_in_iter"], settings.parameters["n_burn_in_iter_frac"] = None, frac
            n_iter = settings.parameters["n_iter"]
            # the step power edited in place as well (a sweep over powers): a power outside (0.5, 1] is refused when the
            # algorithm is BUILT, whatever the settings object looked like when it was created
            power = rng.choice([0.8, 0.8, 0.6, 1.0, 0.51, 0.3, 0.5, 1.2, 0.0, float("nan")])
            settings.parameters["burn_in_step_power"] = power
            history.append({"n_iter": n_iter, "n_burn_in_iter": count, "n_burn_in_iter_frac": frac, "burn_in_step_power": power})
            cj = {"kind": "reuse", "settings_history": list(history)}
            if not (0.5 < power <= 1.0):
                try:
                    with warnings.catch_warnings():
                        warnings.simplefilter("ignore")
                        algorithm_factory(settings)
                    chk.impl_failure(cj, f"step power {power!r} (outside (0.5, 1]) written into an existing settings object is accepted "
                                         "when the algorithm is built")
                except Exception as e:  # noqa
                    if err_class(e, LAIE) != "err:algo":
                        chk.impl_failure(cj, f"step power {power!r} refused with {err_class(e, LAIE)}, documented: algorithm-input error")
                chk.case(("reuse-power", rep, step, repr(power)), nontrivial=True, tags={"kind": "settings-reuse-power"})
                settings.parameters["burn_in_step_power"] = 0.8
                history[-1]["burn_in_step_power_restored"] = 0.8
            try:
                with warnings.catch_warnings():
                    warnings.simplefilter("ignore")
                    algo = algorithm_factory(settings)
                nb = algo.algo_parameters["n_burn_in_iter"]
            except Exception as e:  # noqa
                chk.impl_failure(cj, f"valid configuration refused when the settings object is used for the {step+1}-th time: {err_class(e, LAIE)}")
                chk.case(("reuse", rep, step), nontrivial=True, tags={"kind": "settings-reuse"})
                continue
            want = count if count is not None else int(frac * n_iter)
            if nb != want:
                chk.impl_failure(cj, f"settings object used for the {step+1}-th time (n_iter={n_iter}, count={count}, fraction={frac}): "
                                     f"memory-less length {nb}, configured {want}")
            if settings.parameters.get("n_burn_in_iter") != count:
                chk.impl_failure(cj, f"building the algorithm wrote n_burn_in_iter={settings.parameters.get('n_burn_in_iter')!r} into the "
                                     f"caller's settings (was {count!r}): the next algorithm built from them takes it as an explicit count")
                settings.parameters["n_burn_in_iter"] = count
            built.append((algo, nb))
            lines.append((cj, nb, f"nburn niter={n_iter} count={'none' if count is None else count} frac={'none' if frac is None else fmt_float(frac)}"))
            chk.case(("reuse", rep, step, n_iter, count, frac), nontrivial=True, tags={"kind": "settings-reuse"})
        for i, (algo, nb) in enumerate(built):
            if algo.algo_parameters["n_burn_in_iter"] != nb:
                chk.impl_failure({"kind": "reuse", "settings_history": history},
                                 f"the algorithm built at step {i+1} had a memory-less length of {nb}; after later edits of the settings "
                                 f"object it has {algo.algo_parameters['n_burn_in_iter']}")
        out = chk.model([l for _, _, l in lines])
        for (cj, nb, _), resp in zip(lines, out):
            if resp != f"nb={nb}":
                chk.disagree(cj, nb, resp, "length of memory-less phase (settings object reused)")


# ------------------------------------------------------------------ unrolled weights
def weights_case(chk, env, n, nb, power):
    """Statistics = unit vectors: by linearity the statistic used at iteration k is the row of weights w_{k,1..n}."""
    seq = [[1.0 if j == k else 0.0 for j in range(n)] for k in range(n)]
    res = run_stub(env, n, nb, None, power, seq)
    cj = {"kind": "weights", "n_iter": n, "n_burn_in_iter": nb, "burn_in_step_power": power}
    if res["ctor"] != "ok" or res.get("run") != "ok" or len(res["calls"]) != n:
        chk.impl_failure(cj, f"valid configuration did not run: {res['ctor']} / {res.get('run')}")
        return None
    rows = [call[0] for call in res["calls"]]
    for k in range(1, n + 1):
        row = rows[k - 1]
        bad = None
        if any(w < 0 or w > 1 for w in row):
            bad = "a weight outside [0,1]"
        elif abs(sum(row) - 1) > 1e-12:
            bad = f"weights sum to {sum(row)!r}"
        elif any(row[j - 1] != 0 for j in range(k + 1, n + 1)):
            bad = "a later iteration has a non-zero weight"
        elif k >= nb + 1 and any(row[j - 1] != 0 for j in range(1, min(nb, n) + 1)):
            bad = "an iteration of the memory-less phase keeps a non-zero weight after the reset"
        elif k <= nb + 1 and row[k - 1] != 1:
            bad = "memory-less iteration: weight of the current statistics is not 1"
        elif power == 1.0 and k >= nb + 1 and any(abs(row[j - 1] - 1 / (k - nb)) > 1e-13 for j in range(nb + 1, k + 1)):
            bad = "power 1: weights are not the uniform 1/(k-nb) (running mean)"
        elif k >= nb + 2 and power > 0:
            e = [0, 0] + [float(j) ** (-power) for j in range(2, n + 2)]
            if not all(e[j] > e[j + 1] for j in range(2, n)) or abs(row[k - 1] - e[k - nb]) > 1e-15:
                bad = "weight of the current statistics is not the step size (k-nb)^-power"
        if bad:
            chk.impl_failure(cj, f"iteration {k}: {bad}; weights {row}")
            break
    return cj, rows


def weights_check(chk, env):
    rng = chk.rng
    confs = []
    N = 14 if chk.tier == "thorough" else 9
    for n in range(1, N + 1):
        for nb in range(0, n + 1):
            for p in (0.51, 0.8, 1.0):
                confs.append((n, nb, p))
    for _ in range(40 if chk.tier == "thorough" else 10):
        n = rng.randrange(10, 45)
        confs.append((n, rng.randrange(0, n), rng.choice([0.51, 0.6, 0.75, 0.8, 0.9, 1.0])))
    keep, lines = [], []
    for n, nb, p in confs:
        r = weights_case(chk, env, n, nb, p)
        chk.case(("weights", n, nb, p), nontrivial=(nb + 2 <= n), tags={"kind": "weights"})
        if r is not None:
            keep.append(r)
            lines.append(f"weights nb={nb} power={fmt_float(p)} n={n}")
    out = chk.model(lines)
    for (cj, rows), resp in zip(keep, out):
        impl = ";".join(fmt_list([fmt_float(x) for x in row]) for row in rows)
        if impl != resp:
            chk.disagree(cj, impl, resp, "unrolled weights (bitwise float64, unit-vector statistics through the real algorithm object)")


# ------------------------------------------------------------------ dictionaries of tensors (keys, shapes, dtype)
class DictStub:
    def __init__(self, torch, seq, dtype):
        self.torch, self.seq, self.i, self.calls = torch, seq, 0, []
        self.dtype = torch.float32 if dtype == "f32" else torch.float64

    def compute_sufficient_statistics(self, state):
        d = self.seq[self.i]
        self.i += 1
        return {k: self.torch.tensor(v, dtype=self.dtype) for k, v in d}

    def update_parameters(self, state, stats, *, burn_in):
        self.calls.append(([(k, v.detach().clone().double().reshape(-1).tolist(), tuple(v.shape), str(v.dtype)) for k, v in stats.items()],
                           bool(burn_in)))


def run_dict(env, nb, power, dtype, seq, assign=False):
    """seq: list (one per iteration) of lists of (key, values).
    assign: the count is written into `algo_parameters` after construction (the only way to run a negative one)."""
    torch, AlgorithmSettings, algorithm_factory, LAIE = env
    n = len(seq)
    try:
        algo = build_algo(AlgorithmSettings, algorithm_factory, n, 0 if assign else nb, None, power)
        if assign:
            algo.algo_parameters["n_burn_in_iter"] = nb
    except Exception as e:  # noqa
        return {"ctor": err_class(e, LAIE)}
    m = DictStub(torch, seq, dtype)
    err = "none"
    try:
        for k in range(1, n + 1):
            algo.current_iteration = k
            algo._maximization_step(m, None)
    except Exception as e:  # noqa
        err = type(e).__name__
    return {"ctor": "ok", "calls": m.calls, "err": err}


def fmt_dict(d):
    if not d:
        return "~"
    return "|".join(f"{k}:{fmt_list([fmt_float(x) for x in v])}" for k, v in d)


def dict_line(nb, power, dtype, seq):
    return f"rund nb={nb} power={fmt_float(power)} dtype={dtype} s={';'.join(fmt_dict(d) for d in seq) if seq else '_'}"


def dict_impl_string(res):
    calls = res["calls"]
    S = ";".join(fmt_dict([(k, v) for k, v, _, _ in d]) for d, _ in calls) if calls else "_"
    return f"S={S} burn={fmt_list(['1' if b else '0' for _, b in calls])} err={res['err']}"


def dict_case_json(nb, power, dtype, seq):
    return {"kind": "dict", "n_burn_in_iter": nb, "burn_in_step_power": power, "dtype": dtype,
            "stats": [[[k, v] for k, v in d] for d in seq]}


def dict_predicate(nb, power, dtype, seq, res):
    """Key-wise / entry-wise convex update, judged on what the real `_maximization_step` handed over (numpy reference
    with a dtype envelope; independent of the Lean model). Returns (failures, f27)."""
    import numpy as np
    fails = []
    calls, err = res["calls"], res["err"]
    n = len(seq)
    if nb < 0 and n >= 1:
        if err == "AttributeError" and not calls:
            return fails, True
        fails.append(f"negative memory-less length {nb}: expected the known abort, got err={err} after {len(calls)} maximisations")
        return fails, False
    tol = 4e-6 if dtype == "f32" else 1e-13
    prev = None
    for k in range(1, n + 1):
        s = seq[k - 1]
        if k - 1 >= len(calls):
            # aborted at iteration k: legitimate only if a kept key is missing or a shape cannot be broadcast
            snew = dict(s)
            missing = [key for key, _ in prev if key not in snew] if prev is not None else []
            shapes = [(len(v), len(snew[key])) for key, v in prev if key in snew] if prev is not None else []
            incompatible = [p for p in shapes if p[0] != p[1] and 1 not in p]
            if k <= nb + 1 or (not missing and not incompatible):
                fails.append(f"run aborted at iteration {k} with {err} although every kept key is present with a compatible shape")
            elif err not in ("KeyError", "RuntimeError"):
                fails.append(f"run aborted at iteration {k} with unexpected {err}")
            return fails, False
        S, flag = calls[k - 1]
        S = [(key, v) for key, v, _, _ in S]
        if flag != (k <= nb):
            fails.append(f"iteration {k}: burn_in flag {flag}, memory-less phase is k<={nb}")
        if k <= nb + 1:
            cur = [(key, list(map(float, v))) for key, v in s]
            if [key for key, _ in S] != [key for key, _ in cur] or not all(same_list(a, b) for (_, a), (_, b) in zip(S, cur)):
                fails.append(f"iteration {k} (memory-less, nb={nb}): statistics used differ from the current ones")
        else:
            if [key for key, _ in S] != [key for key, _ in prev]:
                fails.append(f"iteration {k}: keys {[key for key, _ in S]} are not the kept keys {[key for key, _ in prev]}")
                return fails, False
            e = float(k - nb) ** (-power)
            snew = dict(s)
            for (key, v), (_, pv) in zip(S, prev):
                if key not in snew:
                    fails.append(f"iteration {k}: kept key '{key}' is absent from the new statistics but the update went through (value {v})")
                    break
                if len(pv) != len(snew[key]) and 1 not in (len(pv), len(snew[key])):
                    fails.append(f"iteration {k}: key '{key}' kept length {len(pv)} vs new length {len(snew[key])} cannot be combined entry-wise but the update went through")
                    break
                with np.errstate(all="ignore"):
                    a_old, a_new = np.asarray(pv, dtype=np.float64), np.asarray(snew[key], dtype=np.float64)
                    want = a_old * (1 - e) + e * a_new
                    got = np.asarray(v, dtype=np.float64)
                    fin = np.isfinite(want)
                    mag = lambda a: np.abs(np.where(np.isfinite(a), a, 0.0)).max(initial=0)   # noqa: E731  (finite entries only)
                    ok = got.shape == want.shape
                    if ok:
                        bound = tol * (np.abs(np.where(fin, want, 0.0)) + mag(a_old) + mag(a_new)) + 1e-300
                        # finite entries within the dtype envelope; non-finite ones (inf kept, inf - inf = nan) identical
                        ok = bool(np.all((np.abs(got - want) <= bound)[fin])) and bool(np.all(((got == want) | (np.isnan(got) & np.isnan(want)))[~fin]))
                if not ok:
                    fails.append(f"iteration {k} (nb={nb}, power={power}): key '{key}' is not (1-e)*kept['{key}'] + e*new['{key}'] entry-wise: {v} vs {want.tolist()}")
                    break
        prev = S
    if err != "none":
        fails.append(f"all {n} maximisations done but the run raised {err}")
    return fails, False


def gen_value(rng, torch, dtype, nonfinite=0.0):
    r = rng.random()
    if nonfinite and rng.random() < nonfinite:
        return rng.choice([INF, -INF, NAN, INF])
    x = rng.gauss(0, 1) * rng.choice([1, 1, 1, 100.0, 1e-3]) if r < 0.8 else float(rng.randrange(-8, 9))
    if dtype == "f32":
        x = float(torch.tensor(x, dtype=torch.float32))
    return x


def gen_dict_seq(rng, torch, n, dtype, mutate, nonfinite=0.0):
    keys = rng.sample(["a", "b", "c"], rng.randrange(1, 4))
    lens = {k: rng.choice([1, 1, 2, 3, 4]) for k in keys}
    seq = []
    for _ in range(n):
        ks, ls = list(keys), dict(lens)
        if mutate and rng.random() < 0.35:
            m = rng.choice(["drop", "add", "reorder", "len1", "lenplus", "len0", "swapvals"])
            if m == "drop" and ks:
                ks.remove(rng.choice(ks))
            elif m == "add":
                ks.insert(rng.randrange(0, len(ks) + 1), "z")
                ls["z"] = rng.choice([1, 2])
            elif m == "reorder":
                rng.shuffle(ks)
            elif m == "len1" and ks:
                ls[rng.choice(ks)] = 1
            elif m == "lenplus" and ks:
                k = rng.choice(ks)
                ls[k] = ls[k] + 1
            elif m == "len0" and ks:
                ls[rng.choice(ks)] = 0
        seq.append([(k, [gen_value(rng, torch, dtype, nonfinite) for _ in range(ls[k])]) for k in ks])
    return seq


def dict_cases(chk, env):
    torch = env[0]
    rng = chk.rng
    cases = []
    # exhaustive: which keys each of 3 iterations has (subsets of {a,b}), every nb in -1..2 — missing / extra / stale keys
    subsets = [[], ["a"], ["b"], ["a", "b"], ["b", "a"]]
    for nb in (-1, 0, 1, 2):
        for combo in itertools.product(subsets, repeat=3):
            dtype = "f64"
            seq = [[(k, [gen_value(rng, torch, dtype)]) for k in ks] for ks in combo]
            cases.append((nb, 0.8, dtype, seq))
    # exhaustive: lengths of the single key over 3 iterations — entry-wise / broadcasting / shape errors
    for nb in (0, 1):
        for combo in itertools.product([0, 1, 2, 3], repeat=3):
            dtype = rng.choice(["f32", "f64"])
            seq = [[("a", [gen_value(rng, torch, dtype) for _ in range(L)])] for L in combo]
            cases.append((nb, rng.choice([0.51, 0.8, 1.0]), dtype, seq))
    # random runs: consistent dictionaries (the real situation) in both dtypes, and mutated ones
    for i in range(400 if chk.tier == "thorough" else 90):
        n = rng.randrange(1, 40 if i % 3 == 0 else 10)
        dtype = rng.choice(["f32", "f32", "f64"])
        nb = rng.choice([rng.randrange(0, n + 1), rng.randrange(0, n + 1), rng.randrange(-2, n + 3)])
        cases.append((nb, rng.choice([0.51, 0.6, 0.75, 0.8, 0.9, 1.0]), dtype, gen_dict_seq(rng, torch, n, dtype, mutate=(i % 2 == 1))))
    # consistent dictionaries with non-finite entries (`inf` deltas are kept on purpose by the update; the reset iteration must
    # hand over the current statistics whatever the kept ones are), both dtypes
    for i in range(120 if chk.tier == "thorough" else 30):
        n = rng.randrange(2, 14)
        dtype = rng.choice(["f32", "f64"])
        cases.append((rng.randrange(0, n + 1), rng.choice([0.51, 0.8, 1.0]), dtype, gen_dict_seq(rng, torch, n, dtype, mutate=False, nonfinite=0.15)))
    return cases


def dict_check(chk, env, cases):
    keep, lines = [], []
    for nb, power, dtype, seq in cases:
        cj = dict_case_json(nb, power, dtype, seq)
        res = run_dict(env, nb, power, dtype, seq)
        key = ("dict", nb, power, dtype, fmt_dict(seq[0]) if seq else "", len(seq))
        assigned = False
        if nb < 0:
            # fix of F27: the constructor must refuse; the run is then exercised with the count assigned after construction
            if res["ctor"] != "err:algo":
                chk.impl_failure(cj, f"negative memory-less length {nb} not refused with an algorithm-input error ({res['ctor']}) — F27 reproduces again")
            res = run_dict(env, nb, power, dtype, seq, assign=True)
            assigned = True
            cj = dict(cj, count_assigned_after_construction=True)
        if res["ctor"] != "ok":
            chk.impl_failure(cj, f"valid configuration refused: {res['ctor']}")
            chk.case(key, nontrivial=False, tags={"kind": "dict", "dict_run": "refused"})
            continue
        try:
            fails, expected_abort = dict_predicate(nb, power, dtype, seq, res)
        except Exception as e:  # noqa  (never let the reference computation hide a violation)
            fails, expected_abort = [f"the key-wise / entry-wise predicate cannot be evaluated on what the run handed over: {type(e).__name__}: {e}"], False
        for f in fails[:2]:
            chk.impl_failure(cj, f)
        keep.append((cj, res))
        lines.append(dict_line(nb, power, dtype, seq))
        chk.case(key, nontrivial=(res["err"] != "none" or nb + 2 <= len(seq)),
                 sample=cj if (len(chk.samples) < 6 and res["err"] == "KeyError" and len(seq) == 3) else None,
                 tags={"kind": "dict", "dict_run": res["err"] + (" (negative count assigned)" if assigned else ""), "dtype": dtype})
    out = chk.model(lines)
    for (cj, res), resp in zip(keep, out):
        impl = dict_impl_string(res)
        if impl != resp:
            chk.disagree(cj, impl, resp, f"dictionary run (keys, order, values bitwise {cj['dtype']}, flags, exception)")


def f27_probe(chk, env):
    """Witness of the (fixed) finding F27 on every run: it must be refused."""
    for kw, c in ((dict(n_burn_in_iter_frac=-0.55), (10, None, -0.55, 0.8)), (dict(n_burn_in_iter=-3, n_burn_in_iter_frac=None), (10, -3, None, 0.8))):
        out = ctor_outcome(env, *c)
        if out[0] != "err:algo":
            chk.impl_failure(ctor_case_json(c), f"F27 reproduces again: n_iter=10 with {kw} is not refused with an algorithm-input error "
                                                f"({out[0]}, n_burn_in_iter={out[1]})")


def load_parameters_observation(chk, env):
    """Recorded, not judged: what `load_parameters` does to the other settings of the schedule after construction."""
    torch, AlgorithmSettings, algorithm_factory, LAIE = env
    try:
        with core.quiet(), warnings.catch_warnings():
            warnings.simplefilter("ignore")
            algo = algorithm_factory(AlgorithmSettings("mcmc_saem", n_iter=100, seed=0, progress_bar=False))
            algo.load_parameters({"n_iter": 50})
        chk.tag("n_iter_loaded_after_construction", f"n_burn_in_iter stays {algo.algo_parameters['n_burn_in_iter']} for n_iter=50")
    except Exception as e:  # noqa
        chk.tag("n_iter_loaded_after_construction", f"raised {type(e).__name__}")


def run(chk: core.Check):
    env = _imports()
    chk.rule = ("stub: real algorithm object driven over every (n_iter<=N, explicit count 0..n+1) and (n_iter, fraction in a "
                "12-value grid) plus random configurations, float64 statistics compared bitwise with the Lean model; "
                "ctor: real constructor on every (n_iter in -3..N, fraction k/20 for k=-6..26 and 20 special doubles incl. nan/inf/"
                "subnormal), a full (count x fraction x power) table and random (n_iter up to 1e7, 53-bit fractions): length, "
                "FutureWarning and exception class compared exactly with Model/Saem.lean ctorZ; weights: unit-vector statistics "
                "through the real algorithm object for every (n<=N, nb<=n, 3 powers), rows compared bitwise with Saem.weight; "
                "dict: every assignment of key sets (subsets of {a,b}, both orders) to 3 iterations x nb in -1..2, every assignment "
                "of tensor lengths 0..3 to 3 iterations, random consistent and mutated dictionaries in float32 and float64, "
                "compared bitwise (values, key order, flags, exception) with Saem.runD; "
                "real fits: recorded s_k/S_k of short fits, every entry of every key bitwise (float32) against Saem.runD. "
                "hardening: statistics with inf / -inf / nan entries around the end of the memory-less phase (stub and dict runs); "
                "the same algorithm object used for a second run, and replaced half-way by its deepcopy / pickle; phases with memory "
                "of 3e3..2.5e4 iterations and sparse drives up to iteration 1e7 (steps down to 1e-7); the phase the algorithm reports "
                "about itself; constructor cases also through a settings file (save/load) and with numpy scalars; one settings "
                "object edited in place and used for a series of algorithms; real fits of seven model kinds (univariate, joint, "
                "shared-speed, mixture), through `fit(algorithm_settings=)` / `fit(algorithm_settings_path=)`, with annealing longer "
                "than the memory-less phase, with the printing output manager, with one algorithm object run twice; statistics of "
                "mixed dtypes compared bitwise dtype by dtype (float32 and float64), non-finite entries included. "
                "A case is non-trivial when it contains at least one iteration with "
                "memory (nb+2 <= n_iter), is a refused configuration, derives the length from a fraction, or aborts; distinct by full configuration.")
    cases = core.load_corpus(PROP)
    cases = [(c["n_iter"], c["n_burn_in_iter"], c["n_burn_in_iter_frac"], c["burn_in_step_power"], c["stats"]) for c in cases if c.get("kind") == "stub"]
    cases += stub_cases(chk)
    results = []
    for c in cases:
        res = run_stub(env, *c)
        results.append(res)
        n_iter, count, frac, power, seq = c
        for f in predicate_failures(n_iter, count, frac, power, seq, res):
            chk.impl_failure(case_json(c), f)
        nontriv = res["ctor"] != "ok" or (res.get("nb", 0) + 2 <= n_iter)
        chk.case((n_iter, count, frac, power), nontrivial=nontriv,
                 sample=case_json(c) if len(chk.samples) < 3 and n_iter in (4, 5) else None,
                 tags={"kind": "stub", "ctor": res["ctor"], "n_iter_bucket": (n_iter // 10) * 10,
                       "given": "count" if count is not None else ("frac" if frac is not None else "none")})
    compare_with_model(chk, cases, results)
    # the same, with the explicit count given after construction (documented `load_parameters`, or plain assignment)
    rng = chk.rng
    recases, reresults = [], []
    for _ in range(120 if chk.tier == "thorough" else 30):
        n = rng.randrange(3, 40)
        N = rng.randrange(0, n + 1)
        how = rng.choice(["load", "assign"])
        c0 = (n, None, rng.choice(FRACS), rng.choice([0.51, 0.8, 1.0]), gen_stats(rng, n, 2))
        res = run_stub(env, *c0, reconf=(how, N))
        c = (n, N, c0[2], c0[3], c0[4])          # what the run must look like: explicit count N
        cj = dict(case_json(c), reconfigured_after_construction=how, constructed_with_fraction=c0[2])
        for f in predicate_failures(n, N, c0[2], c0[3], c0[4], res):
            chk.impl_failure(cj, f"(count set after construction by {how}) " + f)
        recases.append(c)
        reresults.append(res)
        chk.case(("reconf", n, N, how, c0[2], c0[3]), nontrivial=(N + 2 <= n), tags={"kind": "stub-reconfigured", "how": how})
    compare_with_model(chk, recases, reresults)
    # non-finite statistics (inf deltas, nan) around the end of the memory-less phase + a second run of the same object
    check_histories(chk, env, [(c, second, None) for c, second in nonfinite_cases(chk)], "stub-nonfinite")
    # the algorithm object check-pointed (deepcopy / pickle) half-way, then used for a second run
    check_histories(chk, env, history_items(chk), "stub-history")
    # long phases with memory (thousands of averaged iterations), and sparse drives up to iteration 1e7
    check_histories(chk, env, [(c, None, None) for c in long_cases(chk)], "stub-long")
    for jc in jump_cases(chk):
        jump_case(chk, env, *jc)
    ctor_grid(chk, env)
    # the whole accepted domain of the constructor (signed, special fractions, both given, order of the refusals)
    cc = ctor_cases(chk)
    ctor_check(chk, env, cc)
    # the same through other entry points: settings written to a file and read back; numbers given as numpy scalars
    k_alt = 700 if chk.tier == "thorough" else 220
    table = [c for c in cc if c[1] is not None or c[2] is None or isinstance(c[2], (bool, int))]    # count given / no fraction / integer-typed fraction
    rest = [c for c in cc if not (c[1] is not None or c[2] is None or isinstance(c[2], (bool, int)))]
    for via in ("json", "numpy"):
        ctor_check(chk, env, chk.rng.sample(table, min(k_alt, len(table))) + chk.rng.sample(rest, min(k_alt, len(rest))), via=via)
    # one settings object edited in place and used for a series of algorithms
    reuse_check(chk, env)
    # unrolled weights through the real algorithm object
    weights_check(chk, env)
    # dictionaries of tensors: keys, order, shapes, dtype, exceptions
    dict_check(chk, env, dict_cases(chk, env))
    f27_probe(chk, env)
    chk.extra_cov["observations"] = [
        "silent broadcasting: a kept tensor of length 1 takes the length of the new statistics and a new tensor of length 1 is repeated "
        "over the kept entries, no error (Lean: convexT_broadcast_old/new; exhaustive length grid) — unreachable with leaspy's own models, "
        "whose statistics keep their shapes",
        "a key that only the new statistics have is dropped silently from the first averaged iteration on; a kept key missing from the new "
        "statistics is a raw KeyError (Lean: mstepD_keys, mstepD_error_iff) — unreachable with leaspy's own models (fixed key set)",
        "int(frac * n_iter) uses the double product: fraction 0.29 of 100 iterations is 28, 0.57 -> 56, 0.58 -> 57 (Lean example on the exact value of the double)",
        "a non-integer explicit count (n_burn_in_iter=2.5) is accepted: no reset iteration exists and the first averaged step is 0.5**-power > 1 "
        "(weights outside [0,1]); outside the modelled domain (integer counts)",
    ]
    # real fits
    fits = [("logistic", 8, None, 0.5, 0.8, 0), ("linear", 7, 2, None, 1.0, 1), ("logistic_scalar", 9, None, 0.29, 0.51, 2)]
    # other model kinds, other entry points of `fit`, and features that are each tested elsewhere on their own: annealing longer
    # than the memory-less phase, the output manager printing the algorithm
    anneal = dict(do_annealing=True, initial_temperature=4, n_plateau=3, n_iter=8, n_iter_frac=None)
    fits += [("univariate", 8, 2, None, 0.8, 3, dict(via="settings", print_periodicity=3)),
             ("joint", 7, None, 0.3, 1.0, 4, dict(via="path")),
             ("logistic", 10, 3, None, 0.8, 5, dict(annealing=anneal)),
             ("shared_speed", 8, 0, None, 0.51, 6, dict(print_periodicity=2)),
             ("mixture", 8, None, 0.5, 0.8, 7, {}),
             ("linear", 9, 4, None, 0.8, 8, dict(second_run=True))]
    # (not generated: an ambient float64 default dtype — a fit then aborts inside the model's own tensor algebra,
    #  "expected m1 and m2 to have the same dtype", before any statistic exists; not this property's matter)
    if chk.tier == "thorough":
        rng = chk.rng
        for i in range(24):
            n = rng.randrange(3, 25)
            if rng.random() < 0.5:
                fits.append((rng.choice(["logistic", "linear", "logistic_scalar"]), n, rng.randrange(0, n + 1), None, rng.choice([0.51, 0.8, 1.0]), 10 + i))
            else:
                fits.append((rng.choice(["logistic", "linear", "logistic_scalar"]), n, None, rng.choice(FRACS), rng.choice([0.51, 0.8, 1.0]), 10 + i))
        for i in range(16):
            n = rng.randrange(5, 20)
            opts = {}
            if rng.random() < 0.4:
                P = rng.choice([2, 3, 4])
                opts["annealing"] = dict(do_annealing=True, initial_temperature=rng.choice([2, 5, 10]), n_plateau=P,
                                         n_iter=rng.randrange(P - 1, n + 2), n_iter_frac=None)
            if rng.random() < 0.3:
                opts["print_periodicity"] = rng.randrange(1, 5)
            opts["via"] = rng.choice(["kwargs", "settings", "path"])
            if rng.random() < 0.25:
                opts = dict(second_run=True, **({"annealing": opts["annealing"]} if "annealing" in opts else {}))
            cnt, fr = (rng.randrange(0, n + 1), None) if rng.random() < 0.5 else (None, rng.choice(FRACS))
            fits.append((rng.choice(sorted(REAL_KINDS)), n, cnt, fr, rng.choice([0.51, 0.8, 1.0]), 40 + i, opts))
    for f in fits:
        real_fit_case(env, chk, *f)
    load_parameters_observation(chk, env)
    chk.exhaustive = False


def replay(chk: core.Check, payload):
    env = _imports()
    case = payload.get("case") or (payload.get("disagreements") or [{}])[0].get("case")
    if not case:
        chk.note("replay file has no case")
        return
    if case.get("kind") == "fit":
        real_fit_case(env, chk, case["model"], case["n_iter"], case["n_burn_in_iter"], case["n_burn_in_iter_frac"],
                      case["burn_in_step_power"], case["seed"], case.get("opts"))
        return
    if case.get("kind") == "ctorx":
        c = (case["n_iter"], case["n_burn_in_iter"], _unrepr(case["n_burn_in_iter_frac"]), _unrepr(case["burn_in_step_power"]))
        cs = [c]
        if "compare_with_fraction" in case:
            cs.append((c[0], c[1], case["compare_with_fraction"], c[3]))
        ctor_check(chk, env, cs, via=case.get("via", "kwargs"))
        return
    if case.get("kind") == "jump":
        jump_case(chk, env, case["n_iter"], case["n_burn_in_iter"], case["burn_in_step_power"], case["iterations"], case["stats"])
        return
    if case.get("kind") == "reuse":
        # the series of uses of one settings object, replayed literally
        torch, AlgorithmSettings, algorithm_factory, LAIE = env
        with warnings.catch_warnings():
            warnings.simplefilter("ignore")
            settings = AlgorithmSettings("mcmc_saem", seed=0, progress_bar=False)
            for i, h in enumerate(case["settings_history"]):
                settings.parameters.update(n_iter=h["n_iter"], n_burn_in_iter=h["n_burn_in_iter"], n_burn_in_iter_frac=h["n_burn_in_iter_frac"])
                try:
                    nb = algorithm_factory(settings).algo_parameters["n_burn_in_iter"]
                except Exception as e:  # noqa
                    nb = err_class(e, LAIE)
                want = h["n_burn_in_iter"] if h["n_burn_in_iter"] is not None else int(h["n_burn_in_iter_frac"] * h["n_iter"])
                if nb != want or settings.parameters.get("n_burn_in_iter") != h["n_burn_in_iter"]:
                    chk.impl_failure(case, f"use {i+1} of the settings object: memory-less length {nb}, configured {want}; "
                                           f"settings now carry n_burn_in_iter={settings.parameters.get('n_burn_in_iter')!r}")
                    break
        chk.case(("reuse", len(case["settings_history"])), sample=case)
        return
    if case.get("kind") == "stub" and ("second_stats" in case or "checkpoint_copy" in case):
        c = (case["n_iter"], case["n_burn_in_iter"], case["n_burn_in_iter_frac"], case["burn_in_step_power"], case["stats"])
        cp = case.get("checkpoint_copy")
        check_histories(chk, env, [(c, case.get("second_stats"), tuple(cp) if cp else None)], "stub-history")
        return
    if case.get("kind") == "weights":
        r = weights_case(chk, env, case["n_iter"], case["n_burn_in_iter"], case["burn_in_step_power"])
        chk.case(("weights", case["n_iter"], case["n_burn_in_iter"]), sample=case)
        if r is not None:
            resp = chk.model([f"weights nb={case['n_burn_in_iter']} power={fmt_float(case['burn_in_step_power'])} n={case['n_iter']}"])[0]
            impl = ";".join(fmt_list([fmt_float(x) for x in row]) for row in r[1])
            if impl != resp:
                chk.disagree(case, impl, resp, "unrolled weights")
        return
    if case.get("kind") == "dict":
        seq = [[(k, v) for k, v in d] for d in case["stats"]]
        dict_check(chk, env, [(case["n_burn_in_iter"], case["burn_in_step_power"], case["dtype"], seq)])
        return
    if case.get("kind") == "ctor":
        torch, AlgorithmSettings, algorithm_factory, LAIE = env
        n, cnt = case["n_iter"], case["n_burn_in_iter"]
        try:
            nb = build_algo(AlgorithmSettings, algorithm_factory, n, cnt, None, 0.8).algo_parameters["n_burn_in_iter"]
        except Exception as e:  # noqa
            nb = err_class(e, LAIE)
        if nb != cnt:
            chk.impl_failure(case, f"explicit memory-less count {cnt} with n_iter={n} became {nb}")
        out = chk.model([f"nburn niter={n} count={cnt} frac=none"])
        if out[0] != f"nb={nb}":
            chk.disagree(case, nb, out[0], "length of memory-less phase")
        chk.case(("ctor", n, cnt), sample=case)
        return
    c = (case["n_iter"], case["n_burn_in_iter"], case["n_burn_in_iter_frac"], case["burn_in_step_power"], case["stats"])
    res = run_stub(env, *c)
    for f in predicate_failures(*c, res):
        chk.impl_failure(case, f)
    chk.case(c[:4], sample=case)
    compare_with_model(chk, [c], [res])
