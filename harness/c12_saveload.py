"""C12 — a fitted model is self-consistent and survives save/load unchanged.

Real models (every stateful kind x dimension x sources x noise structure x feature names x instance names),
parameters from a short real fit or random, are saved, loaded, compared and saved again; the same file content is
sent to `Model/Api.lean` (`toDict` / `parseSettings` / `Kind.ofName` / `loadParameters`) through `drivers/C12.lean`.
"""
from __future__ import annotations

import json
import os
import shutil
import tempfile
from fractions import Fraction

from . import core
from . import api_common as A
from .core import fmt_rat, fmt_list

PROP = "C12"
LEAN = dict(
    props="LeaspyVerif.Props.C12",
    driver="drivers/C12.lean",
    harness="c12_saveload.py",
    extra_modules=["LeaspyVerif.Model.Api"],
    theorems=["fit_end_prior_mode", "pop_prior_mode_invariant", "load_pop_prior_mode", "roundtrip_params",
              "roundtrip_resave_identical", "roundtrip_any_name_counterexample", "roundtrip_any_name_partial",
              "load_unknown_name", "resave_double_precision_counterexample"],
    trusted_extra=[
        "json round-trips python floats exactly; file equality is modelled as equality of the modelled fields (name, features, dimension, source_dimension, noise structure, nb_events, n_clusters, parameters) — the hyperparameters block and the derived mixing_matrix entry are compared on the real files only",
        "float32 narrowing: Lean `roundF32` (exact, on rationals) is compared with torch on every parameter value seen",
        "external kernels of part (c) (SAEM, samplers) are uninterpreted; the end-of-fit theorem is about where their output is stored",
    ],
    assumptions=["LME and constant models have their own save/load and are outside this model",
                 "sub-normal / overflowing float32 values are not generated"],
)

NAMES_OK = ["{kind}", "{KIND}", "{Kind}"]
NAMES_BAD = ["my_model", "model-1", "Study2024", "m", "logistic_v2"]


# ------------------------------------------------------------------------------ case generation
def gen_random_case(rng, kinds):
    kind = rng.choice(kinds)
    if kind == "mixture_logistic":
        d = rng.choice([2, 3])
        s = rng.randrange(1, d)
        hyp = dict(n_clusters=rng.choice([2, 3]))
    elif kind == "joint":
        d = rng.choice([1, 2, 3, 4])
        s = 0 if d == 1 else rng.randrange(0, d)
        hyp = {}
    else:
        d = rng.choice([1, 1, 2, 3, 4, 5])
        s = 0 if d == 1 else rng.randrange(0, d)
        hyp = {}
    noise = rng.choice(["gaussian-scalar", "gaussian-diagonal"]) if d > 1 else "gaussian-scalar"
    fstyle = rng.choice(["plain", "plain", "odd", "odd", "odd", "dimension-only"])
    if fstyle == "plain":
        feats = [f"Y{i}" for i in range(d)]
    elif fstyle == "odd":
        pool = ["ADAS 11", "mmse-total", "β-amyloid", "x.1", "feature,with,commas", "Été", "a" * 40, "0", "y"]
        feats = rng.sample(pool, d)
    else:
        feats = None
    # "written by hand": in a third of the cases the parameters are replaced a second time, in place, on the same object
    return dict(src="random", kind=kind, d=d, s=s, noise=noise, feats=feats, hyp=hyp, name=pick_name(rng, kind),
                pseed=rng.randrange(10 ** 6), rewrite=(rng.randrange(10 ** 6) if rng.random() < 0.35 else None))


def pick_name(rng, kind):
    r = rng.random()
    if r < 0.45:
        return kind
    if r < 0.6:
        return rng.choice([kind.upper(), kind.capitalize()])
    if r < 0.7:
        # a *different* model kind as instance name
        return rng.choice([k for k in A.KINDS if k != kind])
    return rng.choice(NAMES_BAD)


def gen_fit_case(rng, kinds):
    kind = rng.choice(kinds)
    if kind == "joint":
        which = rng.choice(["joint", "joint", "joint_uni"])
    elif kind == "mixture_logistic":
        which = "multi"
    else:
        which = rng.choice(["multi", "multi", "uni", "tiny"])
    ncols = {"multi": 3, "uni": 1, "tiny": 4, "joint": 4, "joint_uni": 1}[which]
    d = ncols if which in ("uni", "joint_uni") else rng.randrange(2, ncols + 1)
    if kind == "mixture_logistic":
        d = 3
    s = 0 if d == 1 else rng.randrange(1 if kind == "mixture_logistic" else 0, d)
    noise = rng.choice(["gaussian-scalar", "gaussian-diagonal", None]) if d > 1 else rng.choice(["gaussian-scalar", None])
    if kind == "mixture_logistic":
        noise = "gaussian-diagonal"
    rename = rng.random() < 0.4
    return dict(src="fit", kind=kind, which=which, d=d, s=s, noise=noise, rename=rename, name=pick_name(rng, kind),
                give_dim=rng.random() < 0.5, n_iter=rng.randrange(5, 11), n_burn=rng.randrange(0, 4), seed=rng.randrange(1000),
                hyp=dict(n_clusters=2) if kind == "mixture_logistic" else {})


def random_parameters(E, rng_seed, model):
    """plausible random values for every ModelParameter of the DAG (python doubles)"""
    import random
    rng = random.Random(rng_seed)
    out = {}
    for name, var in model.dag.sorted_variables_by_type[E.ModelParameter].items():
        shape = var.shape if isinstance(var.shape, tuple) else (var.shape,)
        n = 1
        for k in shape:
            n *= k
        if name == "noise_std":
            vals = [rng.uniform(0.02, 0.3) for _ in range(n)]
        elif name in ("tau_std",):
            vals = [rng.uniform(2, 12) for _ in range(n)]
        elif name in ("xi_std",):
            vals = [rng.uniform(0.2, 1.0) for _ in range(n)]
        elif name == "tau_mean":
            vals = [rng.uniform(60, 85) for _ in range(n)]
        elif name == "probs":
            w = [rng.uniform(0.2, 1) for _ in range(n)]
            vals = [x / sum(w) for x in w]
        elif name == "log_v0_mean":
            vals = [rng.uniform(-5, -3) for _ in range(n)]
        elif name in ("xi_mean", "sources_mean"):
            vals = [rng.uniform(-0.3, 0.3) for _ in range(n)]
        else:
            vals = [rng.choice([rng.uniform(-1, 1), rng.randrange(-8, 9) / 8.0]) for _ in range(n)]
        t = E.torch.tensor(vals, dtype=E.torch.float64).reshape(shape)
        out[name] = t.tolist()
    return out


def build_model(E, case):
    """returns (model, info) ; raises on construction problems (caller canonicalises)"""
    kind = case["kind"]
    kw = dict(case.get("hyp", {}))
    if case["src"] == "random":
        if case["feats"] is not None:
            kw["features"] = list(case["feats"])
        else:
            kw["dimension"] = case["d"]
        kw["source_dimension"] = case["s"]
        kw["obs_models"] = case["noise"]
        m = E.model_factory(kind, instance_name=case["name"], **kw)
        m._initialize_state()
        m.load_parameters(random_parameters(E, case["pseed"], m))
        m._is_initialized = True          # what BaseModel.load does after load_parameters
        if case.get("rewrite") is not None:
            # parameters written by hand on an object that already holds population variables
            m.load_parameters(random_parameters(E, case["rewrite"], m))
        return m, None
    which = case["which"]
    df0, _ = A.cohort(which)
    cols = A.feature_columns(df0)[: case["d"]]
    rename = {c: f"ft {i} é" for i, c in enumerate(cols)} if case["rename"] else None
    n_ind = None if which in ("multi", "uni") else 8
    df, data = A.cohort(which, n_ind=n_ind, columns=cols, rename=rename)
    if case["give_dim"]:
        kw["dimension"] = case["d"]
    if case["d"] > 1:
        kw["source_dimension"] = case["s"]
    if case["noise"] is not None:
        kw["obs_models"] = case["noise"]
    m = E.model_factory(kind, instance_name=case["name"], **kw)
    with core.quiet():
        # a short memory-less phase, so that the final parameters are averages and differ from the last realisations
        m.fit(data, "mcmc_saem", n_iter=case["n_iter"], seed=case["seed"], progress_bar=False,
              n_burn_in_iter=case.get("n_burn", max(0, case["n_iter"] // 3)))
    return m, (df, data)


# ------------------------------------------------------------------------------ observation helpers
def modelled_fields(j):
    ps = {k: A.nested_canon(v) for k, v in j["parameters"].items() if k != "mixing_matrix"}
    return dict(name=j["name"], features=j.get("features"), dimension=j.get("dimension"),
                source_dimension=j.get("source_dimension"), noise=(j.get("obs_models") or {}).get("y"),
                nb_events=j.get("nb_events"), n_clusters=j.get("n_clusters"), parameters=ps)


def params_line(ps: dict) -> str:
    return fmt_list([f"{k}|{A.fmt_shape(sh)}|{fmt_list(map(fmt_rat, data))}" for k, (sh, data) in ps.items()], sep=";")


def lean_request(j1, kind):
    f = modelled_fields(j1)
    feats = "none" if f["features"] is None else fmt_list([f"f{i}" for i in range(len(f["features"]))])
    noise = "scalar" if f["noise"] == "gaussian-scalar" else "diag"
    return (f"rt kind={kind} name={f['name']} feats={feats} dim={'none' if f['dimension'] is None else f['dimension']} "
            f"src={'none' if f['source_dimension'] is None else f['source_dimension']} noise={noise} "
            f"K={f['n_clusters'] or 0} E={f['nb_events'] or 1} p={params_line(f['parameters'])}")


def trajectories(E, rng_seed, model, n=3):
    import random
    rng = random.Random(rng_seed)
    ids = [f"s{i}" for i in range(n)]
    ips = A.random_ips(rng, model, ids)
    tps = {i: sorted(rng.uniform(60, 90) for _ in range(rng.randrange(1, 5))) for i in ids}
    out = model.estimate(tps, ips)
    return {i: E.torch.as_tensor(out[i]) for i in ids}


def same_bits(torch, a, b):
    """equal including NaN positions (random hand-written parameters may give NaN survival values)"""
    return a.shape == b.shape and a.dtype == b.dtype and bool(((a == b) | (torch.isnan(a) & torch.isnan(b))).all())


def float_diff_is_f32_narrowing(E, a, b):
    """json values a (first file) and b (second file): same nesting, and every number of b is float32(a)"""
    if isinstance(a, list) and isinstance(b, list) and len(a) == len(b):
        return all(float_diff_is_f32_narrowing(E, x, y) for x, y in zip(a, b))
    if isinstance(a, (int, float)) and isinstance(b, (int, float)):
        return float(E.np.float32(a)) == float(b)
    return False


def run_case(chk, E, case, tmp):
    """One model: property predicate on the implementation + canonical observation for the Lean comparison.
    Returns (request line or None, implementation answer or None)."""
    torch = E.torch
    cj = dict(case)
    tags = {"source": case["src"], "kind": case["kind"]}
    try:
        m, fitinfo = build_model(E, case)
    except Exception as e:  # construction / fit problems are not this property's business, but must be visible
        chk.tag("construction", A.err_class(e) + ":" + str(e)[:60])
        chk.case(("construct", repr(case)), nontrivial=False, tags=tags)
        return None, None
    kind = case["kind"]
    name_is_kind = case["name"].lower() == kind
    cl = A.variable_classes(m)
    p1 = os.path.join(tmp, "m1.json")
    p2 = os.path.join(tmp, "m2.json")
    p3 = os.path.join(tmp, "m3.json")
    for p in (p1, p2, p3):
        if os.path.exists(p):
            os.remove(p)
    params0 = {k: torch.as_tensor(v).detach().clone() for k, v in m.parameters.items()}
    hyper0 = {k: torch.as_tensor(v).detach().clone() for k, v in m.hyperparameters.items()}
    double_params = sorted(k for k, v in params0.items() if v.dtype == torch.float64)
    tags["double_params"] = bool(double_params)
    # --- P1: after a fit the population variables are the prior modes
    if case["src"] == "fit":
        for pv in cl["pop"]:
            a, b = m.state[pv], m.state[pv + "_mean"]
            if not (a.shape == b.shape and torch.equal(a.double(), b.double())):
                chk.impl_failure(cj, f"after fit population variable '{pv}' differs from the prior mode '{pv}_mean'")
    try:
        m.save(p1)
    except Exception as e:
        chk.impl_failure(cj, f"save raised {type(e).__name__}: {e}")
        chk.case(("save", repr(case)), tags=tags)
        return None, None
    j1 = json.load(open(p1))
    req = lean_request(j1, kind)
    # --- P2: load
    try:
        with core.quiet():
            m2 = E.BaseModel.load(p1)
    except Exception as e:
        ec = "err:value" if isinstance(e, ValueError) and not isinstance(e, tuple(E.errs.values())) else A.err_class(e)
        if isinstance(e, RuntimeError):
            ec = "err:runtime"
        if isinstance(e, TypeError):
            ec = "err:type"
        in_f7 = not name_is_kind
        in_f18 = (name_is_kind and case["src"] == "fit" and j1.get("dimension") == 1 and (j1.get("source_dimension") or 0) >= 1
                  and "Unknown model variables" in str(e))
        in_f19 = name_is_kind and j1.get("features") is None and isinstance(e, TypeError)
        chk.impl_failure(cj, f"saved model cannot be loaded: {type(e).__name__}: {str(e)[:120]}",
                         finding="F7" if in_f7 else ("F22" if in_f18 else ("F23" if in_f19 else None)))
        tags["outcome"] = ec
        chk.case(("rt", kind, case["name"], case.get("d"), case.get("s"), case.get("noise"), ec), tags=tags,
                 sample={k: v for k, v in case.items()} if len(chk.samples) < 2 else None)
        return req, ec
    if type(m2) is not type(m):
        # the stored instance name is another model kind: load built another class (F7 region)
        chk.impl_failure(cj, f"load returned a {type(m2).__name__} for a saved {type(m).__name__}", finding="F7" if not name_is_kind else None)
        tags["outcome"] = "wrong-class"
        chk.case(("rt", kind, case["name"], "wrong-class"), tags=tags)
        return None, None          # LME / constant loading is outside the Lean model
    # --- P3: parameters / hyperparameters to single precision
    fails = []
    for k, v in params0.items():
        w = m2.parameters.get(k)
        if w is None:
            fails.append(f"parameter '{k}' missing after reload")
            continue
        if not isinstance(w, torch.Tensor):
            chk.tag("non_tensor_parameter_after_load", f"{case['kind']}:{k}:{type(w).__name__}")
            w = torch.as_tensor(w)
        if v.numel() != w.numel() or not torch.equal(v.reshape(-1).float(), w.reshape(-1)):
            fails.append(f"parameter '{k}' differs after reload (single precision): {v.reshape(-1)[:3].tolist()} vs {w.reshape(-1)[:3].tolist()}")
        elif tuple(v.shape) != tuple(w.shape):
            if k == "noise_std" and v.dim() == 0 and tuple(w.shape) == (1,):
                chk.tag("shape_remark", "noise_std 0-d -> (1,)")
            else:
                fails.append(f"parameter '{k}' changes shape {tuple(v.shape)} -> {tuple(w.shape)}")
    for k in m2.parameters:
        if k not in params0:
            fails.append(f"extra parameter '{k}' after reload")
    for k, v in hyper0.items():
        w = m2.hyperparameters.get(k)
        if w is None or not torch.equal(v.reshape(-1).float(), torch.as_tensor(w).reshape(-1).float()):
            fails.append(f"hyperparameter '{k}' differs after reload")
    if m2.features != m.features or m2.dimension != m.dimension or getattr(m2, "source_dimension", None) != getattr(m, "source_dimension", None):
        fails.append("features / dimension / source_dimension differ after reload")
    if [o.to_string() for o in m2.obs_models] != [o.to_string() for o in m.obs_models]:
        fails.append("observation models differ after reload")
    # --- derived population-level quantities agree (fitted object vs reloaded)
    exact = not double_params
    n_derived = 0
    roles = set(cl["params"] + cl["hyper"] + cl["pop"] + cl["ind"] + cl["data"])
    for v in m2.dag:
        if v in roles:
            continue
        try:
            b = m2.state[v]
        except Exception:
            continue           # needs data / individual values
        try:
            a = m.state[v]
        except Exception as e:
            fails.append(f"derived '{v}' computable on the reloaded model but not on the original: {type(e).__name__}")
            continue
        if isinstance(a, E.WeightedTensor) or isinstance(b, E.WeightedTensor):
            continue
        n_derived += 1
        ok = torch.equal(a.float(), b.float()) if exact else torch.allclose(a.double(), b.double(), rtol=1e-5, atol=1e-7)
        if a.shape != b.shape or not ok:
            fails.append(f"derived quantity '{v}' of the original object disagrees with the reloaded one")
    chk.tag("derived_compared", n_derived)
    # --- P4: trajectories
    try:
        with core.quiet():
            t1 = trajectories(E, case.get("pseed", case.get("seed", 0)), m)
            t2 = trajectories(E, case.get("pseed", case.get("seed", 0)), m2)
        for i in t1:
            ok = same_bits(torch, t1[i], t2[i]) if exact else torch.allclose(t1[i].double(), t2[i].double(), rtol=2e-5, atol=1e-6, equal_nan=True)
            if not ok:
                fails.append(f"trajectory of individual {i} differs after reload (max {float((t1[i].double()-t2[i].double()).abs().max()):.3g})")
                break
    except Exception as e:
        fails.append(f"estimate raised {type(e).__name__}: {str(e)[:100]}")
    for f in fails[:4]:
        chk.impl_failure(cj, f, finding=None)
    # --- P5: re-save
    m2.save(p2)
    b1, b2 = open(p1, "rb").read(), open(p2, "rb").read()
    j2 = json.load(open(p2))
    with core.quiet():
        m3 = E.BaseModel.load(p2)
    m3.save(p3)
    b3 = open(p3, "rb").read()
    if b3 != b2:
        chk.impl_failure(cj, "a second save/load round trip still changes the file")
    if b1 != b2:
        # classify the difference narrowly
        diffs = []
        for k in set(j1) | set(j2):
            if j1.get(k) == j2.get(k):
                continue
            if k in ("parameters", "hyperparameters") and isinstance(j1.get(k), dict) and isinstance(j2.get(k), dict):
                for kk in set(j1[k]) | set(j2[k]):
                    if j1[k].get(kk) != j2[k].get(kk):
                        diffs.append((k, kk))
            else:
                diffs.append((k, None))
        def classify(k, kk):
            if k == "name" and j1["name"].lower() == j2["name"]:
                return "name-case"
            if k in ("parameters",) and kk is not None:
                a, b = j1[k].get(kk), j2[k].get(kk)
                if a is None or b is None:
                    return "other"
                if kk == "noise_std" and isinstance(a, float) and isinstance(b, list) and len(b) == 1:
                    if b == [a]:
                        return "noise-shape"
                    if "noise_std" in double_params and float(E.np.float32(a)) == b[0]:
                        return "noise-shape+narrowing"
                if (kk in double_params or kk == "mixing_matrix") and float_diff_is_f32_narrowing(E, a, b):
                    return "narrowing"
            return "other"
        classes = {(k, kk): classify(k, kk) for k, kk in diffs}
        kinds_of_diff = set(classes.values())
        if "other" in kinds_of_diff:
            chk.impl_failure(cj, f"re-saved file differs from the first one in {[d for d, c in classes.items() if c == 'other'][:4]}")
        if "name-case" in kinds_of_diff:
            chk.impl_failure(cj, f"re-saved file differs: instance name '{j1['name']}' comes back as '{j2['name']}'",
                             finding="F7" if case["name"] != kind else None)
        if kinds_of_diff & {"narrowing", "noise-shape+narrowing"}:
            chk.impl_failure(cj, f"re-saved file differs: double-precision parameters {double_params} were narrowed to float32 by load",
                             finding="F21" if double_params else None)
        if kinds_of_diff & {"noise-shape", "noise-shape+narrowing"}:
            # the property says "saving the reloaded model reproduces the file": x vs [x] is a difference (finding F25)
            chk.tag("resave_diff", "noise_std x -> [x]")
            chk.impl_failure(cj, "re-saved file differs: scalar noise_std is written as a bare number after the fit and as a "
                                 "one-element list after load", finding="F25")
    same_model_level = modelled_fields(j2) == modelled_fields(j1)
    again = modelled_fields(json.load(open(p3))) == modelled_fields(j2)
    ps2 = {}
    for k, v in m2.parameters.items():
        ps2[k] = A.tensor_canon(torch.as_tensor(v))
    pops = sorted(cl["pop"])
    ans = (f"ok name={m2.name} same={int(same_model_level)} again={int(again)} p={params_line(ps2)} "
           f"pop={fmt_list(sorted(A.variable_classes(m2)['pop']))}")
    tags["outcome"] = "ok"
    tags["name"] = "kind" if case["name"] == kind else ("kind-other-case" if name_is_kind else "other")
    chk.case(("rt", kind, case["name"], case.get("d"), case.get("s"), case.get("noise"), case["src"], bool(double_params)),
             tags=tags, sample={k: v for k, v in case.items()} if len(chk.samples) < 4 and case["src"] == "fit" else None)
    return req, ans


def compare(chk, cases, reqs, answers):
    lines = [r for r in reqs if r is not None]
    idx = [i for i, r in enumerate(reqs) if r is not None]
    out = chk.model(lines)
    for i, resp in zip(idx, out):
        impl = answers[i]
        if resp.startswith("ok "):
            parts = dict(p.split("=", 1) for p in resp.split(" ")[1:])
            pop = fmt_list(sorted(core.split_ne(parts.get("pop", "_"))))
            resp_c = f"ok name={parts['name']} same={parts['same']} again={parts['again']} p={parts['p']} pop={pop}"
            canon_flag = parts.get("canon")
        else:
            resp_c = resp
            canon_flag = "1"
        other_kind = cases[i]["name"].lower() in A.KINDS and cases[i]["name"].lower() != cases[i]["kind"]
        if other_kind and (impl.startswith("err:") or resp_c.startswith("err:")):
            # the stored name dispatched to another model class (F7 region): which check of that class fails first —
            # or whether missing parameters only warn — is not modelled and not compared
            chk.tag("mis-dispatched", f"{impl} / {resp_c}")
            continue
        if canon_flag != "1" and not other_kind:
            chk.disagree(cases[i], impl, resp, "model says the loaded object is not canonical")
        if impl != resp_c:
            chk.disagree(cases[i], impl, resp_c, "save/load outcome (loaded name, re-save identity, parameters, population variables)")


def side_checks(chk, E, all_values, specs, names):
    """roundF32 vs torch; paramSpec vs the real DAG; ModelName lookup"""
    torch = E.torch
    lines, meta = [], []
    vals = sorted(set(all_values))[:4000]
    for i in range(0, len(vals), 200):
        chunk = vals[i:i + 200]
        lines.append("f32 x=" + fmt_list(map(fmt_rat, chunk)))
        meta.append(("f32", chunk))
    for key, shapes in specs.items():
        kind, d, s, noise, K, Ev = key
        lines.append(f"spec kind={kind} d={d} s={s} noise={'scalar' if noise == 'gaussian-scalar' else 'diag'} K={K} E={Ev}")
        meta.append(("spec", (key, shapes)))
    names = sorted(set(names))
    lines.append("kinds n=" + fmt_list(names))
    meta.append(("kinds", names))
    out = chk.model(lines)
    from leaspy.models.factory import ModelName
    for (what, payload), resp in zip(meta, out):
        if what == "f32":
            want = [fmt_rat(Fraction(float(torch.tensor(float(x), dtype=torch.float64).float()))) for x in payload]
            got = core.split_ne(resp)
            if got != want:
                bad = [(str(x), a, b) for x, a, b in zip(payload, want, got) if a != b][:3]
                chk.disagree({"kind": "f32", "values": [str(x) for x in payload[:5]]}, want[:3], got[:3], f"float32 rounding {bad}")
        elif what == "spec":
            key, shapes = payload
            want = fmt_list([f"{k}|{A.fmt_shape(sh)}" for k, sh in shapes], sep=";")
            if resp != want:
                chk.disagree({"kind": "spec", "key": list(key)}, want, resp, "parameter names / shapes of the DAG")
        else:
            want = []
            for n in payload:
                try:
                    want.append(ModelName(n.lower()).value)
                except ValueError:
                    want.append("none")
            if core.split_ne(resp) != want:
                chk.disagree({"kind": "kinds", "names": payload}, want, resp, "ModelName lookup")


def probe_findings(chk, E, tmp):
    """the listed witnesses, on every run"""
    torch = E.torch
    # F7
    case = dict(src="random", kind="logistic", d=1, s=0, noise="gaussian-scalar", feats=["Y"], hyp={}, name="my_model", pseed=7)
    try:
        m, _ = build_model(E, case)
        p = os.path.join(tmp, "f7.json")
        m.save(p)
        try:
            with core.quiet():
                E.BaseModel.load(p)
            chk.note("finding F7 no longer reproduces")
        except ValueError as e:
            chk.known_finding_reproduces("F7", f"model_factory('logistic', instance_name='my_model') -> save -> load: {type(e).__name__}: {e}")
    except Exception as e:
        chk.note(f"F7 probe could not run: {type(e).__name__}")
    # F23
    case = dict(src="random", kind="logistic", d=2, s=1, noise="gaussian-diagonal", feats=None, hyp={}, name="logistic", pseed=3)
    try:
        m, _ = build_model(E, case)
        p = os.path.join(tmp, "f19.json")
        m.save(p)
        try:
            with core.quiet():
                E.BaseModel.load(p)
            chk.note("finding F23 no longer reproduces")
        except TypeError as e:
            chk.known_finding_reproduces("F23", f"model_factory('logistic', dimension=2, source_dimension=1) + load_parameters -> save writes \"features\": null -> load: {type(e).__name__}: {e}")
    except Exception as e:
        chk.note(f"F23 probe could not run: {type(e).__name__}")
    # F21
    case = dict(src="fit", kind="joint", which="joint", d=2, s=1, noise="gaussian-diagonal", rename=False, name="joint",
                give_dim=True, n_iter=5, seed=0, hyp={})
    try:
        m, _ = build_model(E, case)
        dbl = [k for k, v in m.parameters.items() if v.dtype == torch.float64]
        p, q = os.path.join(tmp, "f17a.json"), os.path.join(tmp, "f17b.json")
        m.save(p)
        with core.quiet():
            E.BaseModel.load(p).save(q)
        if open(p, "rb").read() != open(q, "rb").read() and dbl:
            chk.known_finding_reproduces("F21", f"joint fit leaves float64 parameters {dbl}; load narrows them, the re-saved file differs")
        else:
            chk.note("finding F21 no longer reproduces")
    except Exception as e:
        chk.note(f"F21 probe could not run: {type(e).__name__}")


def collect_side(E, case, req, values, specs, names):
    names.append(case["name"])
    if req is None:
        return
    parts = dict(p.split("=", 1) for p in req.split(" ")[1:])
    for ent in core.split_ne(parts["p"], ";"):
        n, sh, data = ent.split("|")
        for x in core.split_ne(data):
            q = Fraction(x)
            if q != 0 and 1e-30 < abs(q) < 1e30:
                values.append(q)


def real_spec(E, kind, d, s, noise, K, Ev):
    kw = dict(dimension=d, source_dimension=s, obs_models=noise)
    if kind == "mixture_logistic":
        kw["n_clusters"] = K
    m = E.model_factory(kind, **kw)
    m._initialize_state()
    out = []
    for n, var in m.dag.sorted_variables_by_type[E.ModelParameter].items():
        sh = var.shape if isinstance(var.shape, tuple) else (var.shape,)
        out.append((n, tuple(sh)))
    return out


def run(chk: core.Check):
    E = A.env()
    rng = chk.rng
    chk.rule = ("one case = one model object (kind, dimension, sources, noise structure, feature names, instance name; parameters from a "
                "short real fit on a mock cohort or random) taken through save -> load -> compare -> save -> load -> save; distinct by "
                "(kind, instance name, dimension, sources, noise, parameter source, precision); every case is non-trivial except models that "
                "could not be constructed. The same file content goes to the Lean model; float32 rounding, DAG parameter shapes and the "
                "ModelName lookup are compared separately.")
    tmp = tempfile.mkdtemp(prefix="c12_")
    try:
        kinds = ["logistic", "linear", "shared_speed_logistic", "joint", "mixture_logistic"]
        n_rand, n_fit = (100, 36) if chk.tier == "quick" else (500, 200)
        cases = [c["case"] for c in core.load_corpus(PROP) if "case" in c]
        # one deterministic representative of every kind with parameters from a fit, then random ones
        fixed = [
            dict(src="fit", kind="logistic", which="multi", d=3, s=2, noise=None, rename=False, name="logistic", give_dim=False, n_iter=8, seed=0, hyp={}),
            dict(src="fit", kind="logistic", which="multi", d=3, s=1, noise="gaussian-scalar", rename=True, name="my_model", give_dim=True, n_iter=6, seed=1, hyp={}),
            dict(src="fit", kind="linear", which="uni", d=1, s=0, noise=None, rename=False, name="linear", give_dim=False, n_iter=6, seed=2, hyp={}),
            dict(src="fit", kind="shared_speed_logistic", which="tiny", d=4, s=2, noise="gaussian-diagonal", rename=False, name="shared_speed_logistic", give_dim=True, n_iter=6, seed=3, hyp={}),
            dict(src="fit", kind="joint", which="joint", d=3, s=1, noise="gaussian-diagonal", rename=False, name="joint", give_dim=True, n_iter=6, seed=4, hyp={}),
            dict(src="fit", kind="mixture_logistic", which="multi", d=3, s=1, noise="gaussian-diagonal", rename=False, name="mixture_logistic", give_dim=True, n_iter=5, seed=5, hyp=dict(n_clusters=2)),
        ]
        cases += fixed
        cases += [gen_fit_case(rng, kinds) for _ in range(n_fit)]
        cases += [gen_random_case(rng, kinds) for _ in range(n_rand)]
        reqs, answers, values, names = [], [], [], []
        specs = {}
        for case in cases:
            req, ans = run_case(chk, E, case, tmp)
            reqs.append(req)
            answers.append(ans)
            collect_side(E, case, req, values, specs, names)
        compare(chk, cases, reqs, answers)
        # DAG shapes for a grid of hyperparameters
        for kind in kinds:
            for d in (1, 2, 3, 5):
                for s in sorted({0, 1, d - 1}):
                    if s > d - 1 or s < 0 or (d == 1 and s != 0):
                        continue
                    if kind == "mixture_logistic" and s == 0:
                        continue
                    for noise in (["gaussian-scalar"] if d == 1 else ["gaussian-scalar", "gaussian-diagonal"]):
                        K = 3 if kind == "mixture_logistic" else 0
                        try:
                            specs[(kind, d, s, noise, K, 1)] = real_spec(E, kind, d, s, noise, K, 1)
                        except Exception as e:
                            chk.tag("spec_construction", f"{kind}:d={d},s={s}:{A.err_class(e)}:{str(e)[:50]}")
        side_checks(chk, E, values, specs, names + A.KINDS + ["Logistic", "LINEAR", "univariate_logistic", "my_model", ""])
        probe_findings(chk, E, tmp)
    finally:
        shutil.rmtree(tmp, ignore_errors=True)


def replay(chk: core.Check, payload):
    E = A.env()
    case = payload.get("case") or (payload.get("disagreements") or [{}])[0].get("case")
    if not case or "src" not in case:
        chk.note("replay file has no model case (side check disagreement): re-running the side checks only")
        run(chk)
        return
    tmp = tempfile.mkdtemp(prefix="c12_")
    try:
        req, ans = run_case(chk, E, case, tmp)
        compare(chk, [case], [req], [ans])
    finally:
        shutil.rmtree(tmp, ignore_errors=True)
