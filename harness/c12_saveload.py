"""C12 — a fitted model is self-consistent and survives save/load unchanged.

Real models (every stateful kind x dimension x sources x noise structure x feature names x instance names),
parameters from a short real fit or random, are saved, loaded, compared and saved again; the same file content is
sent to `Model/Api.lean` (`toDict` / `parseSettings` / `Kind.ofName` / `loadParameters`) through `drivers/C12.lean`.
"""
from __future__ import annotations

import copy
import json
import os
import shutil
import tempfile
from fractions import Fraction

from . import core
from . import api_common as A
from .core import fmt_rat, fmt_list

PROP = "C12"
LEAN = dict(
    props="LeaspyVerif.Props.C12",
    driver="drivers/C12.lean",
    harness="c12_saveload.py",
    extra_modules=["LeaspyVerif.Model.Api", "LeaspyVerif.Model.Codec", "LeaspyVerif.Lemmas.Codec"],
    theorems=["fit_end_prior_mode", "pop_prior_mode_invariant", "load_pop_prior_mode", "roundtrip_params",
              "roundtrip_resave_identical", "roundtrip_any_name_counterexample", "roundtrip_any_name_partial",
              "load_unknown_name", "resave_double_precision_counterexample",
              # tensor <-> nested list codec
              "tolist_sizes", "tensor_reload_closed_form", "tensor_roundtrip_iff", "tensor_roundtrip_zero_axis_counterexample",
              "tensor_reload_double_narrows", "tensor_reload_double_counterexample", "view_reload",
              "scalar_parameter_gets_an_axis", "resave_stable",
              # file-level dictionary
              "load_toDict", "load_toDict_identity", "resave_identical", "reloaded_canonical", "resave_stable_after_one_round",
              "load_toDict_unknown_name", "load_mandatory_keys", "load_toDict_features_null", "toDict_reads_live_state",
              "initialized_hypWf", "paramSpec_agrees_with_api", "resave_scalar_noise_counterexample",
              "load_toDict_any_name_counterexample", "unknown_key_ignored_counterexample", "unknown_key_refused_iff",
              "stale_mixing_matrix_accepted_counterexample", "load_ignores_version_and_hyperparameters"],
    trusted_extra=[
        "text layer of the file (not modelled): json.dump(indent=2) writes a python int in decimal, a float by float.__repr__ (shortest string "
        "that parses back to the same double; NaN / Infinity tokens), keys in insertion order, and json.load inverts it; so the text is an "
        "injective function of the tree and byte equality of files is equality of trees. Checked on every file of every run "
        "(json.dumps(json.loads(text), indent=2) == text) and, for tensors, through the decimal text (tolist -> dumps -> loads -> torch.tensor)",
        "float32 narrowing: Lean `narrow32` (exact on rationals, ties to even, sub-normals, overflow to inf, signed zero) is compared with torch "
        "over the whole double range; the theorems use only `narrow x = x` for float32 values (part of `wf`) and idempotence (`hidem`), both "
        "checked on the implementation",
        "Hyperparameter nodes of the DAG and the derived mixing_matrix are externals of the file model (`Ext.hyper`, `Ext.mixing`): their values "
        "are read from the real objects and passed to the model; what the model fixes is where they are written, that the mixing matrix comes "
        "from the live population variables, and that `load` converts but never compares them",
        "DAG metadata for non-parameter entries of a parameters block (node exists / computable on a loaded model / has a shape attribute / "
        "current shape) is read from the real DAG and passed to the model (`Other`)",
        "external kernels of part (c) (SAEM, samplers) are uninterpreted; the end-of-fit theorem is about where their output is stored",
        "the older field-level model (Model/Api.lean b) is kept: `roundF32` there has no sub-normals / overflow and is compared with torch on "
        "every parameter value seen",
    ],
    assumptions=["LME and constant models have their own save/load and are outside this model (`Err.outside`)",
                 "python's float repr/parse round trip (float(repr(x)) == x bitwise for every double) and insertion-ordered dicts",
                 "integers converted to float32 by torch.tensor go through a double: exact below 2^53, larger ints are generated only as powers "
                 "of two; integer-typed values are only put into parameters that do not feed the mixing matrix (whether a derived value is "
                 "computable from int64 inputs depends on torch kernels)",
                 "file keys that reach a constructor as keywords but are never written by to_dict (`variables_to_track`, `initialization_method`, a "
                 "second `Name`), python bools as dimensions, lists as obs_models, non-string feature names: declared outside by the model "
                 "(`Err.outside`), not generated, counted in `outside_model_domain` if they ever occur",
                 "json.load yields unique keys (python dict); duplicate keys after lower-casing are resolved last-wins as ModelSettings does"],
)

NAMES_OK = ["{kind}", "{KIND}", "{Kind}"]
NAMES_BAD = ["my_model", "model-1", "Study2024", "m", "logistic_v2"]


# ------------------------------------------------------------------------------ case generation
def gen_random_case(rng, kinds):
    kind = rng.choice(kinds)
    if kind == "mixture_logistic":
        d = rng.choice([2, 3])
        s = rng.randrange(1, d)
        hyp = dict(n_clusters=rng.choice([2, 3]))
    elif kind == "joint":
        d = rng.choice([1, 2, 3, 4])
        s = 0 if d == 1 else rng.randrange(0, d)
        hyp = {}
    else:
        # (also more than ten features / sources: names and indices with two digits)
        d = rng.choice([1, 1, 2, 3, 4, 5, 5, 8, 11])
        s = 0 if d == 1 else rng.choice([rng.randrange(0, d), d - 1])
        hyp = {}
    noise = rng.choice(["gaussian-scalar", "gaussian-diagonal"]) if d > 1 else "gaussian-scalar"
    fstyle = rng.choice(["plain", "plain", "odd", "odd", "odd", "dimension-only"])
    if fstyle == "plain":
        feats = [f"Y{i}" for i in range(d)]
    elif fstyle == "odd":
        pool = ["ADAS 11", "mmse-total", "β-amyloid", "x.1", "feature,with,commas", "Été", "a" * 40, "0", "y",
                # headers as they come out of spreadsheets: surrounding blanks / tabs, upper case, inner double blank
                "MMSE ", " ADAS-Cog 13", "CDR\t", "  padded  ", "UPPER", "Two  blanks", "trailing.", "'quoted'"]
        feats = rng.sample(pool, d) if d <= len(pool) else None
        if d > 5:
            feats = rng.sample(pool, 5) + [f"Col {i}" for i in range(5, d)]
    else:
        feats = None
    # "written by hand": in a third of the cases the parameters are replaced a second time, in place, on the same object
    # pstyle "edge": hand-written values up to the edge of what a parameter may hold (several decades, zero, float32 sub-normals);
    # pcont: the container / dtype each value is handed over in (nested list, nested tuple, float32 numpy array or tensor, bare number)
    return dict(src="random", kind=kind, d=d, s=s, noise=noise, feats=feats, hyp=hyp, name=pick_name(rng, kind),
                pseed=rng.randrange(10 ** 6), rewrite=(rng.randrange(10 ** 6) if rng.random() < 0.35 else None),
                pstyle=("edge" if rng.random() < 0.35 else "plain"), pcont=(rng.randrange(1, 10 ** 6) if rng.random() < 0.4 else None))


def pick_name(rng, kind):
    r = rng.random()
    if r < 0.45:
        return kind
    if r < 0.6:
        return rng.choice([kind.upper(), kind.capitalize()])
    if r < 0.7:
        # a *different* model kind as instance name
        return rng.choice([k for k in A.KINDS if k != kind])
    return rng.choice(NAMES_BAD)


def gen_fit_case(rng, kinds):
    kind = rng.choice(kinds)
    if kind == "joint":
        which = rng.choice(["joint", "joint", "joint_uni"])
    elif kind == "mixture_logistic":
        which = "multi"
    else:
        which = rng.choice(["multi", "multi", "uni", "tiny"])
    ncols = {"multi": 3, "uni": 1, "tiny": 4, "joint": 4, "joint_uni": 1}[which]
    d = ncols if which in ("uni", "joint_uni") else rng.randrange(2, ncols + 1)
    if kind == "mixture_logistic":
        d = 3
    s = 0 if d == 1 else rng.randrange(1 if kind == "mixture_logistic" else 0, d)
    noise = rng.choice(["gaussian-scalar", "gaussian-diagonal", None]) if d > 1 else rng.choice(["gaussian-scalar", None])
    if kind == "mixture_logistic":
        noise = "gaussian-diagonal"
    rename = rng.random() < 0.4
    n_iter = rng.choice([1, 2, 3]) if rng.random() < 0.2 else rng.randrange(5, 11)
    if kind == "mixture_logistic":
        n_iter = max(n_iter, 3)        # (a one-iteration mixture fit leaves a zero variance: the next call refuses the model)
    # the memory-less phase: shorter than the run, the whole run, longer than the run
    n_burn = rng.choice([n_iter, n_iter - 1, n_iter + 3, 0]) if rng.random() < 0.3 else rng.randrange(0, min(4, n_iter + 1))
    algo = {}
    if rng.random() < 0.3 and n_iter >= 2:
        n_plateau = rng.choice([1, 2, 3])
        algo["annealing"] = dict(do_annealing=True, initial_temperature=rng.choice([2, 10]), n_plateau=n_plateau,
                                 n_iter=rng.randrange(n_plateau, max(n_plateau, n_iter) + 1))     # (documented: at least n_plateau - 1)
    if rng.random() < 0.3:
        algo["sampler_pop"] = rng.choice(["Gibbs", "FastGibbs", "Metropolis-Hastings"])
    return dict(src="fit", kind=kind, which=which, d=d, s=s, noise=noise, rename=rename, name=pick_name(rng, kind),
                give_dim=rng.random() < 0.5, n_iter=n_iter, n_burn=n_burn, seed=rng.choice([0, rng.randrange(1000)]),
                hyp=dict(n_clusters=2) if kind == "mixture_logistic" else {},
                refit=(rng.randrange(3, 6) if rng.random() < 0.25 else None),
                # (a plain table cannot say that two of its columns are the event: joint cohorts go as Data / Dataset only;
                #  the mixture model documents that it takes no `initialization_method`)
                algo=algo, data_as=rng.choice(["data", "data", "dataset"] + ([] if kind == "joint" else ["dataframe", "dataframe"])),
                settings_obj=rng.random() < 0.3,
                init=("random" if rng.random() < 0.15 and kind != "mixture_logistic" else None), logs=rng.random() < 0.08,
                # warm start: the fitted model is saved, loaded, and the *loaded* object is fitted some more
                warm=(rng.randrange(1, 5) if rng.random() < 0.25 else None))


EDGE_POS = [1e-40, 1e-30, 1e-6, 1e-3, 1.0, 50.0, 1e4, 0.0, 0.1, 3.0000000000000004]       # standard deviations, weights
EDGE_ANY = [0.0, -0.0, 1e-40, -1e-30, 1e-6, -12.0, 8.0, 30.0, -30.0, 1e3, -1e3, 1e6, 0.1, 1 / 3, 16777217.0, 2.5e-7]


EDGE_LOG = [0.0, -0.0, 1e-40, -1e-6, -12.0, 8.0, 30.0, -30.0, -40.0, 0.1, 1 / 3, 2.5e-7]


def as_container(E, rng, nested, shape):
    """the same numbers handed over the way a user may: nested list / tuple, float32 numpy array / tensor, bare number"""
    torch, np = E.torch, E.np
    r = rng.random()

    def tup(x):
        return tuple(tup(y) for y in x) if isinstance(x, list) else x
    n = 1
    for k in shape:
        n *= k
    if r < 0.2:
        return tup(nested)
    if r < 0.4:
        return np.array(nested, dtype=np.float32)
    if r < 0.6:
        return torch.tensor(nested, dtype=torch.float32)
    if r < 0.7 and n == 1:
        return torch.tensor(nested, dtype=torch.float32).reshape(())       # 0-d for a one-element parameter
    if r < 0.8 and n == 1:
        x = nested
        while isinstance(x, list):
            x = x[0]
        return x
    return nested


def random_parameters(E, rng_seed, model, style="plain", containers=None):
    """random values for every ModelParameter of the DAG (python doubles in nested lists).
    style "plain": plausible values; "edge": each parameter, with probability 1/2, takes values from the edge of its range
    (several decades, zero, signed zero, float32 sub-normals, integers beyond 2**24).  containers: seed of the container choice."""
    import random
    rng = random.Random(rng_seed)
    crng = random.Random(containers) if containers is not None else None
    out = {}
    for name, var in model.dag.sorted_variables_by_type[E.ModelParameter].items():
        shape = var.shape if isinstance(var.shape, tuple) else (var.shape,)
        n = 1
        for k in shape:
            n *= k
        edge = style == "edge" and rng.random() < 0.5
        if edge and name == "probs":
            w = [rng.choice([1e-6, 1e-3, 1.0, 1.0]) for _ in range(n)]
            vals = [x / sum(w) for x in w]
        elif edge and (name.endswith("_std") or name == "noise_std"):
            vals = [rng.choice(EDGE_POS) for _ in range(n)]
        elif edge and "log_" in name:
            # log-scale parameters: exp() of them must stay a finite positive float32, its square too (the model refuses a metric
            # that overflowed: "Incoherent 1D metric"), so the edge is a few tens, not thousands
            vals = [rng.choice(EDGE_LOG + [rng.gauss(0, 1) * 10.0 ** rng.randrange(-8, 2)]) for _ in range(n)]
        elif edge:
            vals = [rng.choice(EDGE_ANY + [rng.gauss(0, 1) * 10.0 ** rng.randrange(-8, 5)]) for _ in range(n)]
        elif name == "noise_std":
            vals = [rng.uniform(0.02, 0.3) for _ in range(n)]
        elif name in ("tau_std",):
            vals = [rng.uniform(2, 12) for _ in range(n)]
        elif name in ("xi_std",):
            vals = [rng.uniform(0.2, 1.0) for _ in range(n)]
        elif name == "tau_mean":
            vals = [rng.uniform(60, 85) for _ in range(n)]
        elif name == "probs":
            w = [rng.uniform(0.2, 1) for _ in range(n)]
            vals = [x / sum(w) for x in w]
        elif name == "log_v0_mean":
            vals = [rng.uniform(-5, -3) for _ in range(n)]
        elif name in ("xi_mean", "sources_mean"):
            vals = [rng.uniform(-0.3, 0.3) for _ in range(n)]
        else:
            vals = [rng.choice([rng.uniform(-1, 1), rng.randrange(-8, 9) / 8.0]) for _ in range(n)]
        t = E.torch.tensor(vals, dtype=E.torch.float64).reshape(shape)
        out[name] = t.tolist()
        if crng is not None:
            out[name] = as_container(E, crng, out[name], shape)
    return out


def scribble(E, given):
    """Overwrite, in place, the numpy arrays and nested lists a caller handed over (torch tensors are documented to be taken as
    they are and are left alone): what the model holds must not follow."""
    import numpy as np

    def walk(x):
        if isinstance(x, np.ndarray):
            if x.flags.writeable and x.dtype.kind in "fiu" and x.size:
                x += 3
        elif isinstance(x, list):
            for i, y in enumerate(x):
                if isinstance(y, (list, np.ndarray)):
                    walk(y)
                elif isinstance(y, (int, float)) and not isinstance(y, bool):
                    x[i] = y + 3
    for v in given.values():
        walk(v)


def build_model(E, case):
    """returns (model, info) ; raises on construction problems (caller canonicalises)"""
    kind = case["kind"]
    kw = dict(case.get("hyp", {}))
    if case["src"] == "random":
        if case["feats"] is not None:
            kw["features"] = list(case["feats"])
        else:
            kw["dimension"] = case["d"]
        kw["source_dimension"] = case["s"]
        kw["obs_models"] = case["noise"]
        m = E.model_factory(kind, instance_name=case["name"], **kw)
        m._initialize_state()
        style, cont = case.get("pstyle", "plain"), case.get("pcont")
        given = random_parameters(E, case["pseed"], m, style, cont)
        m.load_parameters(given)
        scribble(E, given)                # the caller re-uses its buffers afterwards: the model holds its own numbers
        m._is_initialized = True          # what BaseModel.load does after load_parameters
        last = (case["pseed"], None)
        if case.get("rewrite") is not None:
            # parameters written by hand on an object that already holds population variables; the object is *read*
            # through its public accessors in between (a reader must not freeze what a later save writes)
            _ = (m.parameters, m.hyperparameters, m.to_dict())
            try:
                trajectories(E, case["pseed"], m)      # ... and USED (trajectories computed) before it is written again
            except Exception:  # noqa  (judged later, on the final object)
                pass
            given = random_parameters(E, case["rewrite"], m, style, None if cont is None else cont + 1)
            m.load_parameters(given)
            scribble(E, given)
            last = (case["rewrite"], None)
        # what was handed over last, as plain nested lists of doubles (same seed, no container): the reference for "written by hand"
        return m, {"handed": random_parameters(E, last[0], m, style, None)}
    which = case["which"]
    df0, _ = A.cohort(which)
    cols = A.feature_columns(df0)[: case["d"]]
    rename = {c: (f"ft {i} é" if i % 2 == 0 else f" Ft{i} \t") for i, c in enumerate(cols)} if case["rename"] else None   # headers taken over by fit, blanks included
    n_ind = None if which in ("multi", "uni") else 8
    df, data = A.cohort(which, n_ind=n_ind, columns=cols, rename=rename)
    if case["give_dim"]:
        kw["dimension"] = case["d"]
    if case["d"] > 1:
        kw["source_dimension"] = case["s"]
    if case["noise"] is not None:
        kw["obs_models"] = case["noise"]
    if case.get("init"):
        kw["initialization_method"] = case["init"]
    m = E.model_factory(kind, instance_name=case["name"], **kw)
    # the cohort in every form `fit` accepts
    data_as = case.get("data_as", "data")
    if data_as == "dataframe":
        given = df.reset_index() if case["seed"] % 2 else df
    elif data_as == "dataset":
        from leaspy.io.data.dataset import Dataset
        given = Dataset(data)
    else:
        given = data
    algo_kw = dict(n_iter=case["n_iter"], seed=case["seed"], progress_bar=False,
                   n_burn_in_iter=case.get("n_burn", max(0, case["n_iter"] // 3)), **copy.deepcopy(case.get("algo") or {}))
    logdir = None
    with core.quiet():
        # a short memory-less phase, so that the final parameters are averages and differ from the last realisations
        # (or none at all / the whole run: see gen_fit_case); settings as keywords or as a settings object, with or without logs
        if case.get("settings_obj") or case.get("logs"):
            st = E.AlgorithmSettings("mcmc_saem", **algo_kw)
            if case.get("logs"):
                logdir = tempfile.mkdtemp(prefix="c12_logs_")
                st.set_logs(path=os.path.join(logdir, "logs"), save_periodicity=2, plot_periodicity=None, print_periodicity=None,
                            overwrite_logs_folder=True)
            try:
                m.fit(given, algorithm_settings=st)
            finally:
                if logdir:
                    shutil.rmtree(logdir, ignore_errors=True)
        else:
            m.fit(given, "mcmc_saem", **algo_kw)
        if case.get("refit"):
            # the fitted object is read (parameters, to_dict), then fitted some more: the file must hold the final state
            _ = (m.parameters, m.hyperparameters, m.to_dict())
            m.fit(data, "mcmc_saem", n_iter=case["refit"], seed=case["seed"] + 1, progress_bar=False, n_burn_in_iter=1)
        if case.get("warm") and case["name"].lower() == kind:
            # warm start from a file: save, load, fit the loaded object some more (it is the object the case goes on with)
            wp = os.path.join(tempfile.gettempdir(), f"c12_warm_{os.getpid()}.json")
            try:
                m.save(wp)
                m = E.BaseModel.load(wp)
                m.fit(data, "mcmc_saem", n_iter=case["warm"], seed=case["seed"] + 2, progress_bar=False,
                      n_burn_in_iter=min(1, case["warm"]))
            finally:
                if os.path.exists(wp):
                    os.remove(wp)
    return m, (df, data)


# ------------------------------------------------------------------------------ observation helpers
def modelled_fields(j):
    ps = {k: A.nested_canon(v) for k, v in j["parameters"].items() if k != "mixing_matrix"}
    return dict(name=j["name"], features=j.get("features"), dimension=j.get("dimension"),
                source_dimension=j.get("source_dimension"), noise=(j.get("obs_models") or {}).get("y"),
                nb_events=j.get("nb_events"), n_clusters=j.get("n_clusters"), parameters=ps)


def params_line(ps: dict) -> str:
    return fmt_list([f"{k}|{A.fmt_shape(sh)}|{fmt_list(map(fmt_rat, data))}" for k, (sh, data) in ps.items()], sep=";")


def lean_request(j1, kind):
    f = modelled_fields(j1)
    feats = "none" if f["features"] is None else fmt_list([f"f{i}" for i in range(len(f["features"]))])
    noise = "scalar" if f["noise"] == "gaussian-scalar" else "diag"
    return (f"rt kind={kind} name={f['name']} feats={feats} dim={'none' if f['dimension'] is None else f['dimension']} "
            f"src={'none' if f['source_dimension'] is None else f['source_dimension']} noise={noise} "
            f"K={f['n_clusters'] or 0} E={f['nb_events'] or 1} p={params_line(f['parameters'])}")


def trajectories(E, rng_seed, model, n=3):
    import random
    rng = random.Random(rng_seed)
    ids = [f"s{i}" for i in range(n)]
    ips = A.random_ips(rng, model, ids)
    tps = {i: sorted(rng.uniform(60, 90) for _ in range(rng.randrange(1, 5))) for i in ids}
    out = model.estimate(tps, ips)
    return {i: E.torch.as_tensor(out[i]) for i in ids}


def same_bits(torch, a, b):
    """equal including NaN positions (random hand-written parameters may give NaN survival values)"""
    return a.shape == b.shape and a.dtype == b.dtype and bool(((a == b) | (torch.isnan(a) & torch.isnan(b))).all())


def float_diff_is_f32_narrowing(E, a, b):
    """json values a (first file) and b (second file): same nesting, and every number of b is float32(a)"""
    if isinstance(a, list) and isinstance(b, list) and len(a) == len(b):
        return all(float_diff_is_f32_narrowing(E, x, y) for x, y in zip(a, b))
    if isinstance(a, (int, float)) and isinstance(b, (int, float)):
        return float(E.np.float32(a)) == float(b)
    return False


def run_case(chk, E, case, tmp, FC=None, bases=None):
    """One model: property predicate on the implementation + canonical observation for the Lean comparison.
    Returns (request line or None, implementation answer or None)."""
    torch = E.torch
    cj = dict(case)
    tags = {"source": case["src"], "kind": case["kind"]}
    try:
        m, fitinfo = build_model(E, case)
    except Exception as e:  # construction / fit problems are not this property's business, but must be visible
        chk.tag("construction", A.err_class(e) + ":" + str(e)[:60])
        chk.case(("construct", repr(case)), nontrivial=False, tags=tags)
        return None, None
    kind = case["kind"]
    name_is_kind = case["name"].lower() == kind
    cl = A.variable_classes(m)
    p1 = os.path.join(tmp, "m1.json")
    p2 = os.path.join(tmp, "m2.json")
    p3 = os.path.join(tmp, "m3.json")
    for p in (p1, p2, p3):
        if os.path.exists(p):
            os.remove(p)
    params0 = {k: torch.as_tensor(v).detach().clone() for k, v in m.parameters.items()}
    hyper0 = {k: torch.as_tensor(v).detach().clone() for k, v in m.hyperparameters.items()}
    double_params = sorted(k for k, v in params0.items() if v.dtype == torch.float64)
    tags["double_params"] = bool(double_params)
    # --- P0: a value written by hand is the value the model holds (single precision), whatever its size: the reference is the
    # number handed over, not what the model says it holds
    if case["src"] == "random" and fitinfo and fitinfo.get("handed"):
        for k, v in fitinfo["handed"].items():
            want = torch.tensor(v, dtype=torch.float64).float().reshape(-1)
            got = params0.get(k)
            if got is None or got.numel() != want.numel() or not same_bits(torch, got.reshape(-1).float(), want):
                chk.impl_failure(cj, f"parameter '{k}' written by hand ({str(v)[:60]}) is held by the model as "
                                     f"{None if got is None else got.reshape(-1)[:4].tolist()}")
                break
    # --- P1: after a fit the population variables are the prior modes
    if case["src"] == "fit":
        for pv in cl["pop"]:
            a, b = m.state[pv], m.state[pv + "_mean"]
            if not (a.shape == b.shape and torch.equal(a.double(), b.double())):
                chk.impl_failure(cj, f"after fit population variable '{pv}' differs from the prior mode '{pv}_mean'")
    try:
        m.save(p1)
    except Exception as e:
        chk.impl_failure(cj, f"save raised {type(e).__name__}: {e}")
        chk.case(("save", repr(case)), tags=tags)
        return None, None
    j1 = json.load(open(p1))
    try:
        req = lean_request(j1, kind)
    except (ValueError, OverflowError):
        # non-finite parameters (a mixture fit that collapsed, finding F26 family): the field-level request speaks exact
        # rationals; the property predicate below and the file-level requests (tokens for nan / inf) still run
        req = None
        chk.tag("non_finite_parameters_field_request_skipped", case["kind"])
    # --- P2: load
    try:
        with core.quiet():
            m2 = E.BaseModel.load(p1)
    except Exception as e:
        ec = "err:value" if isinstance(e, ValueError) and not isinstance(e, tuple(E.errs.values())) else A.err_class(e)
        if isinstance(e, RuntimeError):
            ec = "err:runtime"
        if isinstance(e, TypeError):
            ec = "err:type"
        in_f7 = not name_is_kind
        in_f18 = (name_is_kind and case["src"] == "fit" and j1.get("dimension") == 1 and (j1.get("source_dimension") or 0) >= 1
                  and "Unknown model variables" in str(e))
        in_f19 = name_is_kind and j1.get("features") is None and isinstance(e, TypeError)
        chk.impl_failure(cj, f"saved model cannot be loaded: {type(e).__name__}: {str(e)[:120]}",
                         finding="F7" if in_f7 else ("F22" if in_f18 else ("F23" if in_f19 else None)))
        tags["outcome"] = ec
        if FC is not None:
            file_level(chk, E, FC, case, m, p1, None, None, tmp)
        chk.case(("rt", kind, case["name"], case.get("d"), case.get("s"), case.get("noise"), ec), tags=tags,
                 sample={k: v for k, v in case.items()} if len(chk.samples) < 2 else None)
        return req, ec
    if type(m2) is not type(m):
        # the stored instance name is another model kind: load built another class (F7 region)
        chk.impl_failure(cj, f"load returned a {type(m2).__name__} for a saved {type(m).__name__}", finding="F7" if not name_is_kind else None)
        tags["outcome"] = "wrong-class"
        chk.case(("rt", kind, case["name"], "wrong-class"), tags=tags)
        return None, None          # LME / constant loading is outside the Lean model
    # --- P3: parameters / hyperparameters to single precision
    fails = []
    for k, v in params0.items():
        w = m2.parameters.get(k)
        if w is None:
            fails.append(f"parameter '{k}' missing after reload")
            continue
        if not isinstance(w, torch.Tensor):
            chk.tag("non_tensor_parameter_after_load", f"{case['kind']}:{k}:{type(w).__name__}")
            w = torch.as_tensor(w)
        if v.numel() != w.numel() or not same_bits(torch, v.reshape(-1).float(), w.reshape(-1)):      # (nan is nan)
            fails.append(f"parameter '{k}' differs after reload (single precision): {v.reshape(-1)[:3].tolist()} vs {w.reshape(-1)[:3].tolist()}")
        elif tuple(v.shape) != tuple(w.shape):
            if k == "noise_std" and v.dim() == 0 and tuple(w.shape) == (1,):
                chk.tag("shape_remark", "noise_std 0-d -> (1,)")
            else:
                fails.append(f"parameter '{k}' changes shape {tuple(v.shape)} -> {tuple(w.shape)}")
    for k in m2.parameters:
        if k not in params0:
            fails.append(f"extra parameter '{k}' after reload")
    for k, v in hyper0.items():
        w = m2.hyperparameters.get(k)
        if w is None or not same_bits(torch, v.reshape(-1).float(), torch.as_tensor(w).reshape(-1).float()):
            fails.append(f"hyperparameter '{k}' differs after reload")
    if m2.features != m.features or m2.dimension != m.dimension or getattr(m2, "source_dimension", None) != getattr(m, "source_dimension", None):
        fails.append("features / dimension / source_dimension differ after reload")
    if [o.to_string() for o in m2.obs_models] != [o.to_string() for o in m.obs_models]:
        fails.append("observation models differ after reload")
    # --- derived population-level quantities agree (fitted object vs reloaded)
    exact = not double_params
    n_derived = 0
    roles = set(cl["params"] + cl["hyper"] + cl["pop"] + cl["ind"] + cl["data"])
    for v in m2.dag:
        if v in roles:
            continue
        try:
            b = m2.state[v]
        except Exception:
            continue           # needs data / individual values
        try:
            a = m.state[v]
        except Exception as e:
            fails.append(f"derived '{v}' computable on the reloaded model but not on the original: {type(e).__name__}")
            continue
        if isinstance(a, E.WeightedTensor) or isinstance(b, E.WeightedTensor):
            continue
        n_derived += 1
        # (hand-written edge values may overflow a derived value to inf / nan: then on both sides, at the same positions)
        ok = (a.shape == b.shape and same_bits(torch, a.float(), b.float())) if exact else \
            torch.allclose(a.double(), b.double(), rtol=1e-5, atol=1e-7, equal_nan=True)
        if a.shape != b.shape or not ok:
            fails.append(f"derived quantity '{v}' of the original object disagrees with the reloaded one")
    chk.tag("derived_compared", n_derived)
    # --- P4: trajectories
    try:
        with core.quiet():
            t1 = trajectories(E, case.get("pseed", case.get("seed", 0)), m)
            t2 = trajectories(E, case.get("pseed", case.get("seed", 0)), m2)
        for i in t1:
            ok = same_bits(torch, t1[i], t2[i]) if exact else torch.allclose(t1[i].double(), t2[i].double(), rtol=2e-5, atol=1e-6, equal_nan=True)
            if not ok:
                fails.append(f"trajectory of individual {i} differs after reload (max {float((t1[i].double()-t2[i].double()).abs().max()):.3g})")
                break
    except Exception as e:
        fails.append(f"estimate raised {type(e).__name__}: {str(e)[:100]}")
    for f in fails[:4]:
        chk.impl_failure(cj, f, finding=None)
    # --- P5: re-save
    m2.save(p2)
    b1, b2 = open(p1, "rb").read(), open(p2, "rb").read()
    j2 = json.load(open(p2))
    if FC is not None:
        file_level(chk, E, FC, case, m, p1, m2, p2, tmp)
        if bases is not None and name_is_kind and j1.get("features") is not None and not double_params:
            bases.append(j1)
    with core.quiet():
        m3 = E.BaseModel.load(p2)
    m3.save(p3)
    b3 = open(p3, "rb").read()
    if b3 != b2:
        chk.impl_failure(cj, "a second save/load round trip still changes the file")
    try:
        entry_points(chk, E, cj, case, m, m2, j1, b1, b2, tmp, tags)
    except core.Infra:
        raise
    except Exception as e:  # noqa  (an object that came out of one of the ways in cannot even be inspected / saved)
        chk.impl_failure(cj, f"save / load through another public way in: unexpected {type(e).__name__}: {str(e)[:120]}")
    if b1 != b2:
        # classify the difference narrowly
        diffs = []
        for k in set(j1) | set(j2):
            if j1.get(k) == j2.get(k):
                continue
            if k in ("parameters", "hyperparameters") and isinstance(j1.get(k), dict) and isinstance(j2.get(k), dict):
                for kk in set(j1[k]) | set(j2[k]):
                    if j1[k].get(kk) != j2[k].get(kk):
                        diffs.append((k, kk))
            else:
                diffs.append((k, None))
        def classify(k, kk):
            if k == "name" and j1["name"].lower() == j2["name"]:
                return "name-case"
            if k in ("parameters",) and kk is not None:
                a, b = j1[k].get(kk), j2[k].get(kk)
                if a is None or b is None:
                    return "other"
                if kk == "noise_std" and isinstance(a, float) and isinstance(b, list) and len(b) == 1:
                    if b == [a]:
                        return "noise-shape"
                    if "noise_std" in double_params and float(E.np.float32(a)) == b[0]:
                        return "noise-shape+narrowing"
                if (kk in double_params or kk == "mixing_matrix") and float_diff_is_f32_narrowing(E, a, b):
                    return "narrowing"
            return "other"
        classes = {(k, kk): classify(k, kk) for k, kk in diffs}
        kinds_of_diff = set(classes.values())
        if "other" in kinds_of_diff:
            chk.impl_failure(cj, f"re-saved file differs from the first one in {[d for d, c in classes.items() if c == 'other'][:4]}")
        if "name-case" in kinds_of_diff:
            chk.impl_failure(cj, f"re-saved file differs: instance name '{j1['name']}' comes back as '{j2['name']}'",
                             finding="F7" if case["name"] != kind else None)
        if kinds_of_diff & {"narrowing", "noise-shape+narrowing"}:
            chk.impl_failure(cj, f"re-saved file differs: double-precision parameters {double_params} were narrowed to float32 by load",
                             finding="F21" if double_params else None)
        if kinds_of_diff & {"noise-shape", "noise-shape+narrowing"}:
            # the property says "saving the reloaded model reproduces the file": x vs [x] is a difference (finding F25)
            chk.tag("resave_diff", "noise_std x -> [x]")
            chk.impl_failure(cj, "re-saved file differs: scalar noise_std is written as a bare number after the fit and as a "
                                 "one-element list after load", finding="F25")
    ans = None
    if req is not None:         # (the field-level answer speaks exact rationals too: only for finite parameters)
        same_model_level = modelled_fields(j2) == modelled_fields(j1)
        again = modelled_fields(json.load(open(p3))) == modelled_fields(j2)
        ps2 = {}
        for k, v in m2.parameters.items():
            ps2[k] = A.tensor_canon(torch.as_tensor(v))
        ans = (f"ok name={m2.name} same={int(same_model_level)} again={int(again)} p={params_line(ps2)} "
               f"pop={fmt_list(sorted(A.variable_classes(m2)['pop']))}")
    tags["outcome"] = "ok"
    tags["name"] = "kind" if case["name"] == kind else ("kind-other-case" if name_is_kind else "other")
    chk.case(("rt", kind, case["name"], case.get("d"), case.get("s"), case.get("noise"), case["src"], bool(double_params)),
             tags=tags, sample={k: v for k, v in case.items()} if len(chk.samples) < 4 and case["src"] == "fit" else None)
    return req, ans


def model_fingerprint(E, m):
    """class, name, features, parameters (dtype, shape, bits) of a loaded model"""
    return (type(m).__name__, m.name, None if m.features is None else list(m.features), m.dimension, getattr(m, "source_dimension", None),
            named_tok(m.parameters), named_tok(m.hyperparameters), json.dumps(m.fit_metrics, sort_keys=True, default=str))


def entry_points(chk, E, cj, case, m, m2, j1, b1, b2, tmp, tags):
    """The same save / load through every public way in: a `pathlib.Path`, a dictionary (straight from `to_dict`, or parsed from the
    file), the classmethod reached through the concrete class, the documented options of `save` (`with_mixing_matrix`, json.dump
    keywords), a deep copy of the object, a second save of the original after it has been read and used.  Each must give the model /
    the file the plain `save(str)` / `load(str)` gave (m2, b1, b2).  A deterministic sub-sample per case (all of them in the first cases)."""
    import pathlib
    import random
    import zlib
    torch = E.torch
    rng = random.Random(zlib.crc32(repr(sorted((k, repr(v)) for k, v in case.items())).encode()))
    want = model_fingerprint(E, m2)
    every = chk.evaluations < 12 or chk.tier == "thorough"
    p1 = os.path.join(tmp, "m1.json")

    def pick(prob=0.3):
        return every or rng.random() < prob

    def loaded_same(m_alt, how):
        got = model_fingerprint(E, m_alt)
        if got != want:
            k = next((i for i, (a, b) in enumerate(zip(got, want)) if a != b), None)
            what = ["class", "name", "features", "dimension", "source_dimension", "parameters", "hyperparameters", "fit_metrics"][k]
            chk.impl_failure(cj, f"load {how}: the model differs from the one load(str path) gives ({what})")
            return
        q = os.path.join(tmp, "ep_resave.json")
        m_alt.save(q)
        if open(q, "rb").read() != b2:
            chk.impl_failure(cj, f"load {how}: saving the result does not give the file that load(str path) + save gives")

    def attempt(how, fn, finding_if=None):
        try:
            with core.quiet():
                return fn()
        except Exception as e:  # noqa
            fid = finding_if(e) if finding_if else None
            chk.impl_failure(cj, f"{how} raised {type(e).__name__}: {str(e)[:120]}", finding=fid)
            if fid:
                tags["entry_point_finding"] = fid
            return None

    if pick():
        # F110 region: exactly "load given a pathlib.Path is refused as a bad type"
        r = attempt("BaseModel.load(pathlib.Path)", lambda: E.BaseModel.load(pathlib.Path(p1)),
                    lambda e: "F110" if (isinstance(e, E.errs["model"]) and "Bad type for model settings" in str(e)) else None)
        if r is not None:
            loaded_same(r, "from a pathlib.Path")
    if pick():
        d = m.to_dict()
        before = tree_str(d)
        r = attempt("BaseModel.load(model.to_dict())", lambda: E.BaseModel.load(d))
        if r is not None:
            loaded_same(r, "from the dictionary to_dict() returns")
            if tree_str(d) != before:
                chk.impl_failure(cj, "BaseModel.load(dict) modified the dictionary it was given")
    if pick():
        d = json.load(open(p1))
        before = tree_str(d)
        r = attempt("BaseModel.load(dict parsed from the file)", lambda: E.BaseModel.load(d))
        if r is not None:
            loaded_same(r, "from the parsed dictionary")
            if tree_str(d) != before:
                chk.impl_failure(cj, "BaseModel.load(dict) modified the dictionary it was given")
    if pick(0.2):
        r = attempt(f"{type(m).__name__}.load(path)", lambda: type(m).load(p1))
        if r is not None:
            loaded_same(r, "through the concrete class")
    # --- save variants
    q = os.path.join(tmp, "ep_save.json")
    if pick(0.2):
        if attempt("save(pathlib.Path)", lambda: (m.save(pathlib.Path(q)), True)[1]) and open(q, "rb").read() != b1:
            chk.impl_failure(cj, "save(pathlib.Path) writes another file than save(str)")
    if pick():
        if attempt("save(with_mixing_matrix=False)", lambda: (m.save(q, with_mixing_matrix=False), True)[1]):
            jq = json.load(open(q))
            ref = copy.deepcopy(j1)
            ref["parameters"].pop("mixing_matrix", None)
            if "mixing_matrix" in jq.get("parameters", {}):
                chk.impl_failure(cj, "save(with_mixing_matrix=False) still writes the mixing matrix")
            elif tree_str(jq) != tree_str(ref):
                chk.impl_failure(cj, "save(with_mixing_matrix=False) differs from the plain file in more than the mixing matrix")
            else:
                r = attempt("load of a file saved without mixing matrix", lambda: E.BaseModel.load(q))
                if r is not None:
                    loaded_same(r, "of a file saved with with_mixing_matrix=False")
    if pick():
        kw = rng.choice([dict(indent=None), dict(sort_keys=True), dict(indent=4, sort_keys=True), dict(separators=(",", ":"), indent=None),
                         dict(ensure_ascii=False)])
        if attempt(f"save(**{kw})", lambda: (m.save(q, **kw), True)[1]):
            try:
                jq = json.load(open(q, encoding="utf-8"))
            except Exception as e:  # noqa
                jq = None
                chk.impl_failure(cj, f"save(**{kw}) wrote a file json cannot parse: {type(e).__name__}")
            if jq is not None:
                if jq != j1 and json.dumps(jq, sort_keys=True) != json.dumps(j1, sort_keys=True):     # (nan != nan: compare the text too)
                    chk.impl_failure(cj, f"save(**{kw}) writes another content than the plain save")
                else:
                    r = attempt(f"load of a file saved with {kw}", lambda: E.BaseModel.load(q))
                    if r is not None:
                        loaded_same(r, f"of a file saved with {kw}")
    if pick(0.2):
        mc = attempt("copy.deepcopy(model)", lambda: copy.deepcopy(m))
        if mc is not None and attempt("save of a deep copy", lambda: (mc.save(q), True)[1]) and open(q, "rb").read() != b1:
            chk.impl_failure(cj, "a deep copy of the model saves another file than the model")
    # --- the original object has been read, used for trajectories and copied: it still saves the same file
    if attempt("second save of the original", lambda: (m.save(q), True)[1]) and open(q, "rb").read() != b1:
        chk.impl_failure(cj, "the model saves another file after it has been loaded from / used for estimates / copied (nothing was fitted in between)")
    tags["entry_points"] = "all" if every else "sampled"


def ambient_dtype_probe(chk, E, tmp):
    """A file written under the usual default dtype is loaded while the ambient torch default dtype is float64: the parameters are the
    same to single precision, and saved again (still under float64) the file holds the same parameter values.  Nothing else is demanded:
    what is recomputed (mixing matrix) is recomputed in double, and estimates under a float64 default dtype fail on a model that was
    never saved either (float32 ages against float64 matrices) - not this property's matter."""
    torch = E.torch
    for case in (dict(src="random", kind="logistic", d=3, s=2, noise="gaussian-diagonal", feats=["A", "B", "C"], hyp={}, name="logistic", pseed=21),
                 dict(src="random", kind="joint", d=2, s=1, noise="gaussian-scalar", feats=["A", "B"], hyp={}, name="joint", pseed=22),
                 dict(src="random", kind="mixture_logistic", d=3, s=1, noise="gaussian-diagonal", feats=["A", "B", "C"], hyp=dict(n_clusters=2),
                      name="mixture_logistic", pseed=23)):
        cj = dict(case, ambient="float64")
        try:
            m, _ = build_model(E, case)
            p = os.path.join(tmp, "amb.json")
            m.save(p)
            j1 = json.load(open(p))
        except Exception as e:  # noqa
            chk.note(f"ambient dtype probe could not be set up: {type(e).__name__}")
            continue
        old = torch.get_default_dtype()
        try:
            torch.set_default_dtype(torch.float64)
            try:
                with core.quiet():
                    m2 = E.BaseModel.load(p)
                    q = os.path.join(tmp, "amb2.json")
                    m2.save(q)
                    j2 = json.load(open(q))
            except Exception as e:  # noqa
                chk.impl_failure(cj, f"a saved model cannot be loaded / saved again while the torch default dtype is float64: {type(e).__name__}: {str(e)[:100]}")
                continue
            for k in set(j1) | set(j2):
                a, b = j1.get(k), j2.get(k)
                if k == "parameters":
                    a = {n: v for n, v in a.items() if n != "mixing_matrix"}
                    b = {n: v for n, v in b.items() if n != "mixing_matrix"}
                if k != "hyperparameters" and tree_str(a) != tree_str(b):
                    chk.impl_failure(cj, f"loaded and saved again under default dtype float64, the file differs in '{k}'")
            if type(m2) is not type(m) or sorted(m2.parameters) != sorted(m.parameters):
                chk.impl_failure(cj, f"loaded under default dtype float64, the file of a {type(m).__name__} gives a {type(m2).__name__} with "
                                     f"parameters {sorted(m2.parameters)}")
                continue
            for k, v in m.parameters.items():
                w = torch.as_tensor(m2.parameters[k])
                if v.numel() != w.numel() or not torch.equal(v.reshape(-1).float(), w.reshape(-1).float()):
                    chk.impl_failure(cj, f"parameter '{k}' differs (single precision) when the file is loaded under default dtype float64")
        finally:
            torch.set_default_dtype(old)
        chk.case(("ambient-f64", case["kind"]), nontrivial=True, tags={"ambient_dtype": "float64"})


def compare(chk, cases, reqs, answers):
    lines = [r for r in reqs if r is not None]
    idx = [i for i, r in enumerate(reqs) if r is not None]
    out = chk.model(lines)
    for i, resp in zip(idx, out):
        impl = answers[i]
        if resp.startswith("ok "):
            parts = dict(p.split("=", 1) for p in resp.split(" ")[1:])
            pop = fmt_list(sorted(core.split_ne(parts.get("pop", "_"))))
            resp_c = f"ok name={parts['name']} same={parts['same']} again={parts['again']} p={parts['p']} pop={pop}"
            canon_flag = parts.get("canon")
        else:
            resp_c = resp
            canon_flag = "1"
        other_kind = cases[i]["name"].lower() in A.KINDS and cases[i]["name"].lower() != cases[i]["kind"]
        if other_kind and (impl.startswith("err:") or resp_c.startswith("err:")):
            # the stored name dispatched to another model class (F7 region): which check of that class fails first —
            # or whether missing parameters only warn — is not modelled and not compared
            chk.tag("mis-dispatched", f"{impl} / {resp_c}")
            continue
        if canon_flag != "1" and not other_kind:
            chk.disagree(cases[i], impl, resp, "model says the loaded object is not canonical")
        if impl != resp_c:
            chk.disagree(cases[i], impl, resp_c, "save/load outcome (loaded name, re-save identity, parameters, population variables)")


def side_checks(chk, E, all_values, specs, names):
    """roundF32 vs torch; paramSpec vs the real DAG; ModelName lookup"""
    torch = E.torch
    lines, meta = [], []
    vals = sorted(set(all_values))[:4000]
    for i in range(0, len(vals), 200):
        chunk = vals[i:i + 200]
        lines.append("f32 x=" + fmt_list(map(fmt_rat, chunk)))
        meta.append(("f32", chunk))
    for key, shapes in specs.items():
        kind, d, s, noise, K, Ev = key
        lines.append(f"spec kind={kind} d={d} s={s} noise={'scalar' if noise == 'gaussian-scalar' else 'diag'} K={K} E={Ev}")
        meta.append(("spec", (key, shapes)))
    names = sorted(set(names))
    lines.append("kinds n=" + fmt_list(names))
    meta.append(("kinds", names))
    out = chk.model(lines)
    from leaspy.models.factory import ModelName
    for (what, payload), resp in zip(meta, out):
        if what == "f32":
            want = [fmt_rat(Fraction(float(torch.tensor(float(x), dtype=torch.float64).float()))) for x in payload]
            got = core.split_ne(resp)
            if got != want:
                bad = [(str(x), a, b) for x, a, b in zip(payload, want, got) if a != b][:3]
                chk.disagree({"kind": "f32", "values": [str(x) for x in payload[:5]]}, want[:3], got[:3], f"float32 rounding {bad}")
        elif what == "spec":
            key, shapes = payload
            want = fmt_list([f"{k}|{A.fmt_shape(sh)}" for k, sh in shapes], sep=";")
            if resp != want:
                chk.disagree({"kind": "spec", "key": list(key)}, want, resp, "parameter names / shapes of the DAG")
        else:
            want = []
            for n in payload:
                try:
                    want.append(ModelName(n.lower()).value)
                except ValueError:
                    want.append("none")
            if core.split_ne(resp) != want:
                chk.disagree({"kind": "kinds", "names": payload}, want, resp, "ModelName lookup")


def probe_findings(chk, E, tmp):
    """the listed witnesses, on every run"""
    torch = E.torch
    # F7
    case = dict(src="random", kind="logistic", d=1, s=0, noise="gaussian-scalar", feats=["Y"], hyp={}, name="my_model", pseed=7)
    try:
        m, _ = build_model(E, case)
        p = os.path.join(tmp, "f7.json")
        m.save(p)
        try:
            with core.quiet():
                E.BaseModel.load(p)
            chk.note("finding F7 no longer reproduces")
        except ValueError as e:
            chk.known_finding_reproduces("F7", f"model_factory('logistic', instance_name='my_model') -> save -> load: {type(e).__name__}: {e}")
    except Exception as e:
        chk.note(f"F7 probe could not run: {type(e).__name__}")
    # F110
    import pathlib
    case = dict(src="random", kind="linear", d=2, s=1, noise="gaussian-diagonal", feats=["A", "B"], hyp={}, name="linear", pseed=8)
    try:
        m, _ = build_model(E, case)
        p = os.path.join(tmp, "f110.json")
        m.save(pathlib.Path(p))
        try:
            with core.quiet():
                E.BaseModel.load(pathlib.Path(p))
            chk.note("finding F110 no longer reproduces")
        except E.errs["model"] as e:
            chk.known_finding_reproduces("F110", f"model.save(pathlib.Path(p)) works, BaseModel.load(pathlib.Path(p)): {type(e).__name__}: {str(e)[:90]}")
    except Exception as e:
        chk.note(f"F110 probe could not run: {type(e).__name__}")
    # F23
    case = dict(src="random", kind="logistic", d=2, s=1, noise="gaussian-diagonal", feats=None, hyp={}, name="logistic", pseed=3)
    try:
        m, _ = build_model(E, case)
        p = os.path.join(tmp, "f19.json")
        m.save(p)
        try:
            with core.quiet():
                E.BaseModel.load(p)
            chk.note("finding F23 no longer reproduces")
        except TypeError as e:
            chk.known_finding_reproduces("F23", f"model_factory('logistic', dimension=2, source_dimension=1) + load_parameters -> save writes \"features\": null -> load: {type(e).__name__}: {e}")
    except Exception as e:
        chk.note(f"F23 probe could not run: {type(e).__name__}")
    # F21
    case = dict(src="fit", kind="joint", which="joint", d=2, s=1, noise="gaussian-diagonal", rename=False, name="joint",
                give_dim=True, n_iter=5, seed=0, hyp={})
    try:
        m, _ = build_model(E, case)
        dbl = [k for k, v in m.parameters.items() if v.dtype == torch.float64]
        p, q = os.path.join(tmp, "f17a.json"), os.path.join(tmp, "f17b.json")
        m.save(p)
        with core.quiet():
            E.BaseModel.load(p).save(q)
        if open(p, "rb").read() != open(q, "rb").read() and dbl:
            chk.known_finding_reproduces("F21", f"joint fit leaves float64 parameters {dbl}; load narrows them, the re-saved file differs")
        else:
            chk.note("finding F21 no longer reproduces")
    except Exception as e:
        chk.note(f"F21 probe could not run: {type(e).__name__}")


def probe_f30(chk, E, tmp):
    """F30 witness: a valid file whose mixing_matrix is overwritten with other values. Decides which of the two
    behaviours (`Other.asserts`) the model is run with; while the entry says commit PENDING the shipped behaviour is
    tolerated, afterwards it is a regression."""
    case = dict(src="random", kind="logistic", d=3, s=1, noise="gaussian-diagonal", feats=["A", "B", "C"], hyp={}, name="logistic", pseed=11)
    entry = next((f for f in chk.findings if f["id"] == "F30"), None)
    try:
        m, _ = build_model(E, case)
        p = os.path.join(tmp, "f30.json")
        m.save(p)
        j = json.load(open(p))
        j["parameters"]["mixing_matrix"] = [[5.0, 5.0, 5.0]]
        with open(p, "w") as fp:
            json.dump(j, fp)
        try:
            with core.quiet():
                m2 = E.BaseModel.load(p)
            mm = m2.to_dict()["parameters"]["mixing_matrix"]
            ASSERTS_EFFECTIVE[0] = False
            text = (f"a saved logistic model with parameters.mixing_matrix overwritten by [[5,5,5]] loads without complaint and re-saves "
                    f"{[[round(x, 4) for x in r] for r in mm]}: the assertions of load_parameters are on non-empty tuples")
            chk.known_finding_reproduces("F30", text)
            if entry is None or entry.get("status") == "finding" or entry.get("commit") == "PENDING":
                chk.note("F30: repair not applied to this tree (fixes/F30.patch); the model is run with the shipped behaviour (Other.asserts = false)")
            else:
                chk.impl_failure({"kind": "f30-probe"}, "F30 is back: " + text, finding="F30")
        except AssertionError:
            ASSERTS_EFFECTIVE[0] = True
            chk.note("F30 repaired in this tree: the model is run with effective assertions (Other.asserts = true)")
    except Exception as e:
        ASSERTS_EFFECTIVE[0] = False
        chk.note(f"F30 probe could not run: {type(e).__name__}: {str(e)[:80]}")


def collect_side(E, case, req, values, specs, names):
    names.append(case["name"])
    if req is None:
        return
    parts = dict(p.split("=", 1) for p in req.split(" ")[1:])
    for ent in core.split_ne(parts["p"], ";"):
        n, sh, data = ent.split("|")
        for x in core.split_ne(data):
            q = Fraction(x)
            if q != 0 and 1e-30 < abs(q) < 1e30:
                values.append(q)


def real_spec(E, kind, d, s, noise, K, Ev):
    kw = dict(dimension=d, source_dimension=s, obs_models=noise)
    if kind == "mixture_logistic":
        kw["n_clusters"] = K
    m = E.model_factory(kind, **kw)
    m._initialize_state()
    out = []
    for n, var in m.dag.sorted_variables_by_type[E.ModelParameter].items():
        sh = var.shape if isinstance(var.shape, tuple) else (var.shape,)
        out.append((n, tuple(sh)))
    return out



# ====================================================================================== codec layer (Model/Codec.lean)
def codec_err(e: BaseException) -> str:
    """canonical error classes of the codec model (most specific first: the leaspy classes derive from ValueError)"""
    Er = A.env().errs
    if isinstance(e, Er["model"]):
        return "err:model"
    if isinstance(e, (Er["input"],)):
        return "err:input"
    for cls, name in ((AssertionError, "assertion"), (KeyError, "key"), (AttributeError, "attribute"), (NotImplementedError, "notimplemented"),
                      (ValueError, "value"), (TypeError, "type"), (RuntimeError, "runtime")):
        if isinstance(e, cls):
            return "err:" + name
    return f"err:other:{type(e).__name__}"


def hexs(s: str) -> str:
    return s.encode("utf-8").hex()


def fl_tok(x: float, prefix: str) -> str:
    """python float -> token (`R<rat>` / `r<rat>` or the special values)"""
    import math
    X = "X" if prefix == "R" else "x"
    if math.isnan(x):
        return X + "nan"
    if math.isinf(x):
        return X + ("inf" if x > 0 else "ninf")
    if x == 0 and math.copysign(1.0, x) < 0:
        return X + "nz"
    return prefix + fmt_rat(Fraction(x))


def tree_tokens(v, out: list):
    """json.load result -> canonical token stream (key order kept; bool before int: bool is an int in python)"""
    if v is None:
        out.append("N")
    elif v is True:
        out.append("T")
    elif v is False:
        out.append("F")
    elif isinstance(v, int):
        out.append(f"I{v}")
    elif isinstance(v, float):
        out.append(fl_tok(v, "R"))
    elif isinstance(v, str):
        out.append("S" + hexs(v))
    elif isinstance(v, (list, tuple)):
        out.append("[")
        for w in v:
            tree_tokens(w, out)
        out.append("]")
    elif isinstance(v, dict):
        out.append("{")
        for k, w in v.items():
            out.append("S" + hexs(str(k)))
            tree_tokens(w, out)
        out.append("}")
    else:
        raise TypeError(f"not a json value: {type(v).__name__}")
    return out


def tree_str(v) -> str:
    return ",".join(tree_tokens(v, []))


DTYPES = ["bool", "int32", "int64", "float16", "float32", "float64"]


def tensor_tok(t) -> str:
    """tensor -> `<dtype>:<shape>:<elems>` (logical row-major order of the view)"""
    torch = A.env().torch
    t = t.detach().cpu()
    dt = str(t.dtype).replace("torch.", "")
    flat = t.reshape(-1).tolist() if t.numel() else []
    if dt == "bool":
        el = ["b1" if x else "b0" for x in flat]
    elif dt.startswith("int"):
        el = [f"i{x}" for x in flat]
    else:
        el = [fl_tok(float(x), "r") for x in flat]
    return f"{dt}:{A.fmt_shape(tuple(t.shape))}:{fmt_list(el)}"


def named_tok(d: dict) -> str:
    torch = A.env().torch
    return fmt_list([f"{k}~{tensor_tok(torch.as_tensor(v))}" for k, v in d.items()], sep=";")


def same_tensor_bits(torch, a, b) -> bool:
    if a.dtype != b.dtype or tuple(a.shape) != tuple(b.shape):
        return False
    if a.numel() == 0:
        return True
    if a.dtype.is_floating_point:
        a64, b64 = a.double(), b.double()
        return bool((((a64 == b64) & (torch.signbit(a64) == torch.signbit(b64))) | (torch.isnan(a64) & torch.isnan(b64))).all())
    return bool((a == b).all())


def gen_tensor(rng, torch):
    depth = rng.choice([0, 0, 1, 1, 1, 2, 2, 3, 4])
    shape = tuple(rng.choice([0, 1, 1, 2, 2, 3]) if rng.random() < 0.9 else 4 for _ in range(depth))
    n = 1
    for k in shape:
        n *= k
    dt = rng.choice(DTYPES + ["float32", "float32", "float64"])
    if dt == "bool":
        vals = [rng.random() < 0.5 for _ in range(n)]
    elif dt.startswith("int"):
        big = 2 ** 31 - 1 if dt == "int32" else 2 ** 63 - 1
        vals = [rng.choice([rng.randrange(-9, 10), rng.randrange(-big - 1, big + 1), big, -big - 1, 0]) for _ in range(n)]
    else:
        pool = {"float16": [0.0, -0.0, 1.0, 0.1, -2.5, 65504.0, 6e-8, float("inf"), float("nan")],
                "float32": [0.0, -0.0, 1.0, 0.1, -2.5, 1e-42, 3.4e38, 1e-30, float("inf"), -float("inf"), float("nan"), 80.44985490161451],
                "float64": [0.0, -0.0, 1.0, 0.1, -2.5, 1e-42, 1e-50, -1e-50, 3.4e38, 3.5e38, 1e300, -1e300, 5e-324, float("inf"), float("nan"),
                            80.44985490161451, 3.4028235677973366e38, 3.4028235677973362e38]}[dt]
        vals = [rng.choice([rng.gauss(0, 1), rng.gauss(0, 1) * 10 ** rng.randrange(-8, 9), rng.choice(pool)]) for _ in range(n)]
    t = torch.tensor(vals, dtype=getattr(torch, dt)).reshape(shape)
    view = "plain"
    if len(shape) >= 2 and rng.random() < 0.35:
        i, j = rng.sample(range(len(shape)), 2)
        t = t.transpose(i, j)
        view = "transposed"
    elif len(shape) >= 1 and shape[0] >= 2 and rng.random() < 0.15:
        t = t[::2]
        view = "strided"
    return t, view


def gen_json_value(rng, depth=0):
    """a json value as `parameters[...]` could hold it: mostly numbers and lists, sometimes ragged / mixed / wrong"""
    r = rng.random()
    if depth >= 4 or r < (0.25 if depth == 0 else 0.45):
        return rng.choice([1, 2, -3, 0, 70, 0.5, -1.25, 0.1, 1e300, 2.0, True, False, 1.5, 2.5, 3, 4.0,
                           None, "a", "", "ab", {}, {"a": 1}, 2 ** 63, -2 ** 63, 2 ** 62, float("nan")]
                          if rng.random() < 0.25 else [1, 2, 3, 0.5, 1.5, -2.0, 0.1, True])
    n = rng.choice([0, 1, 2, 2, 3])
    if rng.random() < 0.7:
        # regular: all items of one shape
        proto = gen_json_value(rng, depth + 1)

        def like(p):
            if isinstance(p, list):
                return [like(q) for q in p]
            return rng.choice([p, 1, 0.5, 2, -1.5]) if isinstance(p, (int, float)) and not isinstance(p, bool) else p
        return [like(proto) for _ in range(n)]
    return [gen_json_value(rng, depth + 1) for _ in range(n)]


def json_numel_shape(v):
    """shape along first elements (what torch infers), or None"""
    sh = []
    while isinstance(v, list):
        sh.append(len(v))
        if not v:
            break
        v = v[0]
    return sh


def codec_tensor_cases(chk, E, n_tensors, n_values):
    """(a) the tensor codec: real `tensor_to_list` / `val_to_tensor` against `toJson` / `valToTensor`"""
    import math
    from leaspy.models.utilities import tensor_to_list, val_to_tensor
    torch, rng = E.torch, chk.rng
    lines, meta = [], []
    for _ in range(n_tensors):
        t, view = gen_tensor(rng, torch)
        cj = {"kind": "tensor", "tensor": tensor_tok(t), "view": view}
        try:
            lst = tensor_to_list(t)
            back = val_to_tensor(json.loads(json.dumps(lst)))
            back_ans = "ok " + tensor_tok(back)
        except Exception as e:
            chk.impl_failure(cj, f"tensor_to_list / json / val_to_tensor raised {type(e).__name__}: {e}")
            continue
        numel = t.numel()
        dt = str(t.dtype).replace("torch.", "")
        # the property on the implementation alone: single-precision / integer / boolean tensors with at least one
        # element come back bit for bit through the decimal text (dtype, shape, values)
        if numel > 0 and dt in ("float32", "int64", "bool") and not same_tensor_bits(torch, back, t.contiguous()):
            chk.impl_failure(cj, f"{dt} tensor of shape {tuple(t.shape)} does not survive tolist -> json text -> torch.tensor")
        if numel > 0 and dt == "float64":
            want = t.contiguous().float()
            if not same_tensor_bits(torch, back, want):
                chk.impl_failure(cj, "float64 tensor does not come back as its float32 rounding")
        stable = same_tensor_bits(torch, back, t.contiguous())
        lines.append(f"codec tj t={tensor_tok(t)}")
        meta.append(("tj", cj, tree_str(lst)))
        lines.append(f"codec tt t={tensor_tok(t)}")
        meta.append(("tt", cj, f"{tensor_tok(back)} stable={int(stable)} wf=1"))
        lines.append(f"codec fj j={tree_str(lst)} view=none")
        meta.append(("fj", cj, back_ans))
        # reload under the shape the DAG would impose: any shape with the same number of elements
        tgt = tuple(t.shape)
        if numel > 0 and rng.random() < 0.5:
            tgt = rng.choice([(numel,), (1, numel), (numel, 1), tuple(t.shape) + (1,), ()]) if numel > 1 else rng.choice([(), (1,), (1, 1)])
        elif rng.random() < 0.2:
            tgt = tuple(t.shape) + (2,)
        try:
            v = val_to_tensor(json.loads(json.dumps(lst)), tgt)
            ans = "ok " + tensor_tok(v)
        except Exception as e:
            ans = codec_err(e)
        lines.append(f"codec fj j={tree_str(lst)} view={A.fmt_shape(tgt)}")
        meta.append(("fj", dict(cj, view_shape=list(tgt)), ans))
        chk.case(("tensor", dt, tuple(t.shape), view), nontrivial=True, tags={"codec_dtype": dt, "codec_view": view,
                 "codec_zero_axis": numel == 0, "codec_stable": stable})
    for _ in range(n_values):
        v = gen_json_value(rng)
        sh = json_numel_shape(v)
        n = 1
        for k in sh:
            n *= k
        tgt = None
        r = rng.random()
        if r < 0.4:
            tgt = rng.choice([(n,), (1, n), tuple(sh), (n, 1), tuple(sh) + (1,)]) if n > 0 else rng.choice([(0,), (0, 3), (1,)])
        elif r < 0.5:
            tgt = (n + 1,)
        cj = {"kind": "value", "value": tree_str(v), "view": None if tgt is None else list(tgt)}
        try:
            out = val_to_tensor(v, tgt)
            ans = "ok " + tensor_tok(out)
        except Exception as e:
            ans = codec_err(e)
        lines.append(f"codec fj j={tree_str(v)} view={'none' if tgt is None else A.fmt_shape(tgt)}")
        meta.append(("fj", cj, ans))
        chk.case(("value", tree_str(v)[:80], tgt), nontrivial=True, tags={"codec_value_outcome": ans.split(" ")[0]})
    # float32 narrowing over the whole range (sub-normals, overflow, signed zero, non-finite)
    xs = [rng.gauss(0, 1) * 10.0 ** rng.randrange(-50, 45) for _ in range(300)] + [0.0, -0.0, 1e-45, 7e-46, 7.1e-46, -7e-46, 1.4e-45, 2.1e-45,
          3.4028234663852886e38, 3.4028235677973366e38, 3.4028235677973362e38, 3.5e38, -3.5e38, 1e300, float("inf"), -float("inf"), float("nan"),
          1.1754943508222875e-38, 1.1754942e-38, 5e-324, 0.1, 80.44985490161451]
    for i in range(0, len(xs), 100):
        chunk = xs[i:i + 100]
        lines.append("codec n32 x=" + fmt_list([fl_tok(x, "r") for x in chunk]))
        want = [fl_tok(float(y), "r") for y in torch.tensor(chunk, dtype=torch.float64).float().tolist()]
        meta.append(("n32", {"kind": "n32", "values": [repr(x) for x in chunk[:5]]}, fmt_list(want)))
        # idempotence, on the implementation
        again = torch.tensor(chunk, dtype=torch.float64).float().double().float()
        if not same_tensor_bits(torch, again, torch.tensor(chunk, dtype=torch.float64).float()):
            chk.impl_failure({"kind": "n32"}, "float32 narrowing is not idempotent")
    out = chk.model(lines)
    for (what, cj, want), got in zip(meta, out):
        if got != want:
            chk.disagree(cj, want, got, {"tj": "Tensor.tolist nesting", "tt": "torch.tensor(t.tolist()) closed form / stability guard",
                                         "fj": "val_to_tensor (sizes, dtype inference, values, view, error class)",
                                         "n32": "double -> float32 narrowing"}[what])


# ------------------------------------------------------------------------------ whole files
def kind_of_model(m):
    return {"LogisticModel": "logistic", "LinearModel": "linear", "SharedSpeedLogisticModel": "shared_speed_logistic",
            "JointModel": "joint", "LogisticMultivariateMixtureModel": "mixture_logistic"}.get(type(m).__name__)


def ext_tokens(E, m):
    """externals of the file model: version, Hyperparameter values, derived mixing matrix — read from a real object"""
    import leaspy
    mix = "none"
    if (getattr(m, "source_dimension", None) or 0) >= 1:
        mix = tensor_tok(m.state["mixing_matrix"])
    return f"ver={hexs(leaspy.__version__)} hyper={named_tok(m.hyperparameters)} mix={mix}"


EXT_NONE = "ver=" + hexs("?") + " hyper=_ mix=none"


def obj_tokens(E, m):
    """the live object as `toDict` reads it"""
    feats = "none" if m.features is None else fmt_list([hexs(str(f)) for f in m.features])
    dimattr = "none" if m._dimension is None else str(m._dimension)
    src = m.source_dimension
    return (f"kind={kind_of_model(m)} name={hexs(m.name)} feats={feats} dimattr={dimattr} src={'none' if src is None else src} "
            f"noise={m.obs_models[0].to_string()} fm={tree_str(m.fit_metrics)} K={getattr(m, 'n_clusters', 0) or 0} "
            f"E={getattr(m, 'nb_events', 1) if kind_of_model(m) == 'joint' else 1} p={named_tok(m.parameters)} {ext_tokens(E, m)}")


ASSERTS_EFFECTIVE = [None]      # set by probe_f30: does this tree compare the non-parameter values of a file (repair F30)?


def dag_others(E, settings: dict):
    """non-parameter DAG nodes the file's `parameters` mention, as `load_parameters` will see them:
    name|computable|view shape|current shape|assertions effective|current values.  Built from the real classes
    (metadata of the DAG, and the recomputed value the repaired code compares with)."""
    from leaspy.models.settings import ModelSettings
    torch = E.torch
    try:
        with core.quiet():
            rd = ModelSettings(copy.deepcopy(settings))
            inst = E.model_factory(rd.name, **rd.hyperparameters)
            inst._initialize_state()
        ps = rd.parameters
        if not isinstance(ps, dict):
            return "_"
        names = list(inst.dag.sorted_variables_by_type[E.ModelParameter])
        extra = [k for k in ps if k not in names and k in inst.dag]
        if not extra:
            return "_"
        with core.quiet():
            try:
                inst.load_parameters({k: v for k, v in ps.items() if k in names})
            except Exception:
                pass
        out = []
        for k in extra:
            try:
                with core.quiet():
                    cur = inst.state[k]
                cur = torch.as_tensor(cur)
                comp, shp = 1, tuple(cur.shape)
                vals = fmt_list([fl_tok(float(x), "r") for x in cur.reshape(-1).tolist()]) if cur.dtype.is_floating_point else "_"
            except Exception:
                comp, shp, vals = 0, (), "_"
            view = getattr(inst.dag[k], "shape", None)
            out.append(f"{k}|{comp}|{'none' if view is None else A.fmt_shape(tuple(view))}|{A.fmt_shape(shp)}|"
                       f"{int(bool(ASSERTS_EFFECTIVE[0]))}|{vals}")
        return fmt_list(out, sep=";")
    except Exception:
        return "_"


def loaded_answer(E, m2, resave: str) -> str:
    feats = "none" if m2.features is None else fmt_list([hexs(str(f)) for f in m2.features])
    dimattr = "none" if m2._dimension is None else str(m2._dimension)
    src = m2.source_dimension
    cl = A.variable_classes(m2)
    ps = {}
    for k in cl["params"]:
        try:
            ps[k] = m2.state[k]
        except Exception:
            pass       # a parameter the file did not provide
    pops = [p for p in cl["pop"] if (p + "_mean") in ps]
    order = ["betas", "log_g", "g", "log_v0", "deltas", "log_rho", "n_log_nu", "zeta"]
    pops = [p for p in order if p in pops]
    return (f"ok name={hexs(m2.name)} feats={feats} dimattr={dimattr} src={'none' if src is None else src} "
            f"noise={m2.obs_models[0].to_string()} K={getattr(m2, 'n_clusters', 0) or 0} "
            f"E={getattr(m2, 'nb_events', 1) if kind_of_model(m2) == 'joint' else 1} p={named_tok(ps)} pop={fmt_list(pops)} resave={resave}")


def real_load_answer(E, settings: dict, tmp: str):
    """BaseModel.load on a file holding `settings`, then to_dict of the result; returns (answer, model or None)"""
    p = os.path.join(tmp, "ld.json")
    with open(p, "w") as fp:
        json.dump(settings, fp)
    try:
        with core.quiet():
            m2 = E.BaseModel.load(p)
    except Exception as e:
        return codec_err(e), None
    if kind_of_model(m2) is None:
        return "err:outside", m2
    try:
        with core.quiet():
            q = os.path.join(tmp, "ld2.json")
            m2.save(q)
        resave = tree_str(json.load(open(q)))
    except Exception as e:
        resave = codec_err(e)
    return loaded_answer(E, m2, resave), m2


def ld_line(E, settings, m2) -> str:
    ext = ext_tokens(E, m2) if (m2 is not None and kind_of_model(m2) is not None) else EXT_NONE
    return f"codec ld j={tree_str(settings)} others={dag_others(E, settings)} {ext}"


def text_layer_ok(path: str) -> bool:
    """the file is `json.dumps(tree, indent=2)` of its own tree: the text is a function of the tree and parses back to it"""
    txt = open(path).read()
    return json.dumps(json.loads(txt), indent=2) == txt


def file_keys_expected(kind: str):
    base = ["leaspy_version", "name", "features", "dimension", "hyperparameters", "parameters", "obs_models", "fit_metrics"]
    if kind == "joint":
        return base + ["source_dimension", "nb_events"]
    if kind == "mixture_logistic":
        return base + ["n_clusters", "source_dimension"]
    return base + ["source_dimension"]


class FileCases:
    """collects `sv` / `ld` request lines while run_case walks through the models"""

    def __init__(self):
        self.lines, self.meta = [], []

    def add(self, line, cj, want, what):
        self.lines.append(line)
        self.meta.append((cj, want, what))

    def flush(self, chk):
        out = chk.model(self.lines)
        for (cj, want, what), got in zip(self.meta, out):
            if got == "err:outside":
                # the model declares the input outside its domain (lme / constant dispatch, python bools as dimensions, …):
                # counted, not compared; the generators are written to stay inside, so this stays rare
                chk.tag("outside_model_domain", f"{cj.get('kind')}:{cj.get('name', cj.get('edits', ''))}"[:60])
                continue
            if got != want:
                chk.disagree(cj, want, got, what)
        self.lines, self.meta = [], []


def file_level(chk, E, FC, case, m, p1, m2, p2, tmp):
    """(b) one saved model: key set, text layer, `toDict` of the live object, `load` of the file and the re-save"""
    cj = dict(case)
    kind = kind_of_model(m)
    j1 = json.load(open(p1))
    if list(j1.keys()) != file_keys_expected(kind):
        chk.impl_failure(cj, f"saved file has keys {list(j1.keys())}, expected {file_keys_expected(kind)}")
    if not text_layer_ok(p1):
        chk.impl_failure(cj, "the saved text is not json.dumps(tree, indent=2) of its own tree (text layer assumption)")
    chk.tag("text_layer_checked", 1)
    # self-consistency: what was written is what the live state holds (bit for bit through the codec)
    torch = E.torch
    for k in A.variable_classes(m)["params"]:
        v = m.state._values.get(k)          # the state's own storage, not a property that could cache
        w = j1["parameters"].get(k)
        if v is None or w is None or tree_str(w) != tree_str(torch.as_tensor(v).tolist()):
            chk.impl_failure(cj, f"saved value of parameter '{k}' is not the value held by model.state")
    if j1.get("dimension") != (len(m.features) if m.features is not None else m.dimension):
        chk.impl_failure(cj, "saved dimension differs from len(features)")
    if (j1.get("source_dimension") or 0) >= 1:
        mm = m.state["mixing_matrix"].tolist()
        if tree_str(j1["parameters"].get("mixing_matrix")) != tree_str(mm):
            chk.impl_failure(cj, "saved mixing_matrix is not the derived value of the live state")
    # the hypotheses of the theorems, evaluated by the model on the live object: `loadable` must hold for every model
    # with feature names, and `canonical` exactly when the real re-save is byte-identical (theorem `resave_identical`
    # and its converse on real models)
    loadable = int(m.features is not None)
    canonical = int(m2 is not None and open(p1, "rb").read() == open(p2, "rb").read())
    chk.tag("theorem_hypotheses", f"loadable={loadable} canonical={canonical}")
    FC.add("codec sv " + obj_tokens(E, m), dict(cj, layer="to_dict"), f"{tree_str(j1)} loadable={loadable} canonical={canonical}",
           "to_dict of the live object (keys, order, nesting, numbers) and the hypotheses `loadable` / `canonical` of the round-trip theorems")
    if m2 is not None:
        resave = tree_str(json.load(open(p2)))
        FC.add(ld_line(E, j1, m2), dict(cj, layer="load"), loaded_answer(E, m2, resave),
               "BaseModel.load of the saved file (attributes, parameter dtypes / shapes / values, re-saved tree)")
    else:
        ans, _ = real_load_answer(E, j1, tmp)
        FC.add(ld_line(E, j1, None), dict(cj, layer="load"), ans, "BaseModel.load of the saved file (refusal class)")


def stored_files(chk, E, FC, tmp):
    """(b) the files under tests/_data/model_parameters: load, compare, save, load, save (byte equality from round 2 on)"""
    root = core.REPO / "tests/_data/model_parameters"
    for f in sorted(root.rglob("*.json")):
        rel = str(f.relative_to(root))
        try:
            settings = json.load(open(f))
        except Exception as e:
            chk.tag("stored_unreadable", rel)
            continue
        cj = {"kind": "stored", "file": rel}
        ans, m2 = real_load_answer(E, settings, tmp)
        FC.add(ld_line(E, settings, m2), cj, ans, "BaseModel.load of a stored file")
        outcome = ans.split(" ")[0]
        chk.case(("stored", rel), nontrivial=True, tags={"stored_outcome": outcome})
        if m2 is None or kind_of_model(m2) is None or " resave=err" in ans:
            continue
        # round 2: the re-saved file must be a fixed point of load ∘ save, byte for byte
        a, b = os.path.join(tmp, "s2.json"), os.path.join(tmp, "s3.json")
        try:
            with core.quiet():
                m2.save(a)
                m3 = E.BaseModel.load(a)
                m3.save(b)
        except Exception as e:
            chk.impl_failure(cj, f"a model loaded from a stored file cannot be saved and loaded again: {type(e).__name__}: {str(e)[:100]}",
                             finding="F23" if settings.get("features") is None and isinstance(e, TypeError) else None)
            continue
        if open(a, "rb").read() != open(b, "rb").read():
            chk.impl_failure(cj, "second save of a stored model differs from the first one")
        if not text_layer_ok(a):
            chk.impl_failure(cj, "text layer assumption fails on a re-saved stored file")
        for k, v in m2.parameters.items():
            if not same_tensor_bits(E.torch, E.torch.as_tensor(m3.parameters[k]), E.torch.as_tensor(v)):
                chk.impl_failure(cj, f"parameter '{k}' of a stored model changes on save / load")


# ------------------------------------------------------------------------------ malformed files
def mutate_settings(rng, j0: dict):
    """one or two edits of a valid file, drawn from the list the model describes; returns (settings, labels)"""
    j = copy.deepcopy(j0)
    labels = []
    P = j["parameters"]

    def cur_pnames():
        return [k for k in P if k != "mixing_matrix" and k in j0["parameters"]]

    def cur_safe_int():
        return [k for k in ("tau_mean", "tau_std", "xi_std", "xi_mean", "noise_std") if k in P and k in j0["parameters"]]

    def drop_top():
        k = rng.choice(list(j))
        del j[k]
        return f"drop:{k}"

    def unknown_top():
        k = rng.choice(["foo", "Foo", "noise_model", "loss", "zz_9"])
        j[k] = rng.choice([1, "x", [1, 2], None, {"a": 1}])
        return f"add:{k}"

    def upper_key():
        k = rng.choice([k for k in j if k not in ("name", "parameters", "hyperparameters", "leaspy_version")])
        j[k.upper()] = j.pop(k)
        return f"upper:{k}"

    def instance_name():
        j["instance_name"] = rng.choice(["bar", "", None, "Étude 2"])
        return "instance_name"

    def name_val():
        j["name"] = rng.choice([3, None, ["logistic"], j0["name"].upper(), j0["name"].capitalize(), j0["name"] + " ", "", "univariate_logistic", 1.5, True, {}])
        return "name"

    def features_val():
        d = j0.get("dimension") or 1
        j["features"] = rng.choice([3, None, 1.5, [f"a{i}" for i in range(d + 1)], [f"b{i}" for i in range(d)], ["x"], True])
        return "features"

    def dimension_val():
        d = j0.get("dimension") or 1
        j["dimension"] = rng.choice(["3", 3.5, float(d), d + 1, None, d, [d], 1, {}])
        return "dimension"

    def source_val():
        d = j0.get("dimension") or 1
        s = j0.get("source_dimension") or 0
        j["source_dimension"] = rng.choice(["1", 1.0, 1.5, -1, d, d - 1, None, 0, s, [1], s + 1])
        return "source_dimension"

    def obs_val():
        j["obs_models"] = rng.choice([{}, {"y": "foo"}, "gaussian-scalar", "gaussian_diagonal", "GAUSSIAN-DIAGONAL", {"y": "gaussian-scalar"},
                                      {"y": "Gaussian_Diagonal"}, {"y": 3}, None, {"y": "bernoulli"}, {"Y": "gaussian-diagonal"}, 3, "foo", {"y": None},
                                      {"y": "gaussian-diagonal"}, "bernoulli", 1.5, True])
        return "obs_models"

    def ignored_val():
        k = rng.choice(["fit_metrics", "leaspy_version", "hyperparameters"])
        j[k] = rng.choice([3, "x", {"a": [1]}, None, [1.5], {"nll_tot": 1.5}])
        return f"value:{k}"

    def nclusters_val():
        j["n_clusters"] = rng.choice([1, 2, 3, None, "2", 2.0, 0])
        return "n_clusters"

    def nbevents_val():
        j["nb_events"] = rng.choice([1, 1, 2])
        return "nb_events"

    def params_val():
        j["parameters"] = rng.choice([None, [], {}, 3, 1.5, True])
        return "parameters"

    def drop_param():
        if not P:
            return "noop"
        k = rng.choice(list(P))
        del P[k]
        return f"drop-param:{k}"

    def unknown_param():
        k = rng.choice(["zz", "xi", "tau", "t", "y", "nll_attach", "log_g_std", "xi_mean", "v0", "g", "metric", "sources_mean", "sources_std",
                        "betas", "log_g", "alpha", "rt", "model", "orthonormal_basis"])
        if k in P:
            return "noop"
        P[k] = rng.choice([[1.0], 1.0, 0.5, [0.0, 1.0], [[0.0]], [1.0, 2.0, 3.0], "a", None, [1, 2, 3], 5, [[1.0], []]])
        return f"extra-param:{k}"

    def param_val():
        pnames, safe_int = cur_pnames(), cur_safe_int()
        if not pnames:
            return "noop"
        k = rng.choice(pnames)
        v = j0["parameters"][k]
        flat = A.nested_canon(v)[1]
        n = len(flat)
        choice = rng.choice(["scalarize", "nest", "flat", "longer", "empty", "str", "null", "nulls", "strs", "dict", "ragged", "mixed-depth", "tree", "huge", "overflow"])
        fl = [float(x) for x in flat]
        if choice == "scalarize" and n == 1:
            P[k] = fl[0]
        elif choice == "nest":
            P[k] = [v]
        elif choice == "flat":
            P[k] = fl
        elif choice == "longer":
            P[k] = fl + [1.0]
        elif choice == "empty":
            P[k] = []
        elif choice == "str":
            P[k] = "a"
        elif choice == "null":
            P[k] = None
        elif choice == "nulls":
            P[k] = [None] * max(n, 1)
        elif choice == "strs":
            P[k] = ["a"] * max(n, 1)
        elif choice == "dict":
            P[k] = {"a": 1}
        elif choice == "ragged":
            P[k] = [fl[:1], fl[:1] + [0.5]] if n else [[1.0], []]
        elif choice == "mixed-depth":
            P[k] = rng.choice([[fl[:1], 0.5], [0.5, fl[:1]]])
        elif choice == "tree":
            P[k] = gen_json_value(rng)
        elif choice == "huge":
            P[k] = [1e300] * n if not isinstance(v, float) else 1e300
        elif choice == "overflow" and k in safe_int:
            P[k] = [2 ** 63] * n
        else:
            return "noop"
        return f"param:{k}:{choice}"

    def int_param():
        safe_int = cur_safe_int()
        if not safe_int:
            return "noop"
        k = rng.choice(safe_int)
        n = len(A.nested_canon(j0["parameters"][k])[1])
        P[k] = rng.choice([[rng.randrange(1, 90) for _ in range(n)], [True] * n, [1, 2.5, True][:n] if n <= 3 else [1] * n])
        return f"int-param:{k}"

    def mixing_val():
        if "mixing_matrix" not in P:
            return "noop"
        good = j0["parameters"]["mixing_matrix"]
        P["mixing_matrix"] = rng.choice([[[x + 0.5 for x in r] for r in good], [[x + 0.5 for x in r] for r in good], good, [good],
                                         "a", [[1.0]], [[1.0], []], None, 5, 5.0, [1.0, 2.0], [[1.0, 2.0], [3.0, 4.0], [5.0, 6.0], [7.0, 8.0], [9.0, 1.0]], [], [[]]])
        return "mixing_matrix"

    ops = [drop_top, drop_top, unknown_top, upper_key, instance_name, name_val, features_val, dimension_val, source_val, obs_val, ignored_val,
           params_val, drop_param, drop_param, unknown_param, unknown_param, param_val, param_val, param_val, int_param, mixing_val]
    if j0.get("name") == "mixture_logistic":
        ops += [nclusters_val, nclusters_val]
    if j0.get("name") == "joint":
        ops += [nbevents_val]
    for _ in range(1 if rng.random() < 0.7 else 2):
        if not isinstance(j.get("parameters"), dict):
            break
        labels.append(rng.choice(ops)())
    return j, labels


def malformed_files(chk, E, FC, bases: list, n: int, tmp: str):
    """(c) edited files against the refusal predicate of the model, with canonical error classes"""
    rng = chk.rng
    # systematic part: for one file of every kind, every single top-level key dropped / upper-cased, one unknown key
    todo = []
    per_kind = {}
    for b in bases:
        per_kind.setdefault(b["name"], b)
    for j0 in per_kind.values():
        for k in list(j0):
            j = copy.deepcopy(j0)
            del j[k]
            todo.append((j0, j, [f"drop:{k}"]))
            if k not in ("name", "parameters", "hyperparameters", "leaspy_version"):
                j = copy.deepcopy(j0)
                j[k.capitalize()] = j.pop(k)
                todo.append((j0, j, [f"upper:{k}"]))
        j = copy.deepcopy(j0)
        j["noise_model"] = "gaussian_scalar"
        todo.append((j0, j, ["add:noise_model"]))
        for k in list(j0["parameters"]):
            j = copy.deepcopy(j0)
            del j["parameters"][k]
            todo.append((j0, j, [f"drop-param:{k}"]))
    for _ in range(n):
        j0 = rng.choice(bases)
        settings, labels = mutate_settings(rng, j0)
        todo.append((j0, settings, labels))
    for j0, settings, labels in todo:
        cj = {"kind": "malformed", "edits": labels, "settings": settings}
        try:
            ans, m2 = real_load_answer(E, settings, tmp)
        except Exception as e:        # json.dump of the edited settings failed: generator problem
            chk.tag("malformed_generator_problem", type(e).__name__)
            continue
        FC.add(ld_line(E, settings, m2), cj, ans, "BaseModel.load of an edited file (acceptance / refusal class / loaded object / re-save)")
        chk.case(("malformed", tuple(labels), ans.split(" ")[0], j0.get("name")), nontrivial=True,
                 tags={"malformed_outcome": ans.split(" ")[0], "malformed_edit": labels[0].split(":")[0]})


def run(chk: core.Check):
    E = A.env()
    rng = chk.rng
    chk.rule = ("one case = one model object (kind, dimension up to 11, sources up to dimension - 1, noise structure, feature names, instance "
                "name; parameters from a short real fit on a mock cohort - 1 to 10 iterations, memory-less phase shorter than / equal to / "
                "longer than the run, annealing, every population sampler, cohort as Data / Dataset / DataFrame, settings as keywords or as "
                "an object, with logs, random initialisation, a second fit, a warm start from the saved file - or written by hand: plausible or "
                "edge values (zero, signed zero, float32 sub-normals, 1e-30 .. 1e6, integers beyond 2**24) handed over as nested lists / tuples "
                "/ float32 arrays / tensors / bare numbers, compared with the numbers handed over) taken through save -> load -> compare -> "
                "save -> load -> save, then through every public way in (pathlib.Path, dictionaries, the concrete class, save options, a deep "
                "copy, a second save of the used original); a file loaded under an ambient default dtype of float64; distinct by "
                "(kind, instance name, dimension, sources, noise, parameter source, precision); every case is non-trivial except models that "
                "could not be constructed. The same file content goes to the Lean model; float32 rounding, DAG parameter shapes and the "
                "ModelName lookup are compared separately. Codec layer: (a) random tensors (6 dtypes, depth <= 4, zero-length axes, transposed / "
                "strided views, special values) through the real tensor_to_list / json text / val_to_tensor, plus random json values (ragged, mixed, "
                "null, strings, dicts, big ints) through val_to_tensor with and without a target shape; (b) every saved model: to_dict of the live "
                "object as a token stream, the hypotheses `loadable` / `canonical` against byte equality of the real re-save, load of the file and "
                "the re-saved tree; every file under tests/_data/model_parameters; (c) one or two edits of a valid file (dropped / unknown / "
                "upper-cased keys, wrong types, parameters dropped / unknown / reshaped / ragged / integer) against the refusal class of the model.")
    tmp = tempfile.mkdtemp(prefix="c12_")
    try:
        kinds = ["logistic", "linear", "shared_speed_logistic", "joint", "mixture_logistic"]
        n_rand, n_fit = (100, 36) if chk.tier == "quick" else (500, 200)
        cases = [c["case"] for c in core.load_corpus(PROP) if "case" in c]
        # one deterministic representative of every kind with parameters from a fit, then random ones
        fixed = [
            dict(src="fit", kind="logistic", which="multi", d=3, s=2, noise=None, rename=False, name="logistic", give_dim=False, n_iter=8, seed=0, hyp={}),
            dict(src="fit", kind="logistic", which="multi", d=3, s=1, noise="gaussian-scalar", rename=True, name="my_model", give_dim=True, n_iter=6, seed=1, hyp={}),
            dict(src="fit", kind="logistic", which="multi", d=3, s=1, noise="gaussian-diagonal", rename=False, name="logistic", give_dim=True, n_iter=6, seed=6, hyp={}, refit=4),
            dict(src="fit", kind="linear", which="uni", d=1, s=0, noise=None, rename=False, name="linear", give_dim=False, n_iter=6, seed=2, hyp={}),
            dict(src="fit", kind="shared_speed_logistic", which="tiny", d=4, s=2, noise="gaussian-diagonal", rename=False, name="shared_speed_logistic", give_dim=True, n_iter=6, seed=3, hyp={}),
            dict(src="fit", kind="joint", which="joint", d=3, s=1, noise="gaussian-diagonal", rename=False, name="joint", give_dim=True, n_iter=6, seed=4, hyp={}),
            dict(src="fit", kind="mixture_logistic", which="multi", d=3, s=1, noise="gaussian-diagonal", rename=False, name="mixture_logistic", give_dim=True, n_iter=5, seed=5, hyp=dict(n_clusters=2)),
        ]
        cases += fixed
        cases += [gen_fit_case(rng, kinds) for _ in range(n_fit)]
        cases += [gen_random_case(rng, kinds) for _ in range(n_rand)]
        reqs, answers, values, names = [], [], [], []
        specs = {}
        FC, bases = FileCases(), []
        probe_f30(chk, E, tmp)
        for case in cases:
            req, ans = run_case(chk, E, case, tmp, FC, bases)
            reqs.append(req)
            answers.append(ans)
            collect_side(E, case, req, values, specs, names)
        compare(chk, cases, reqs, answers)
        # --- codec layer (Model/Codec.lean): tensor codec, whole files, stored files, edited files
        n_t, n_v, n_mal = (250, 250, 260) if chk.tier == "quick" else (1500, 1500, 1500)
        codec_tensor_cases(chk, E, n_t, n_v)
        stored_files(chk, E, FC, tmp)
        uniq = {}
        for b in bases:
            uniq.setdefault((b["name"], b.get("dimension"), b.get("source_dimension"), json.dumps(b.get("obs_models"))), b)
        chk.tag("malformed_bases", len(uniq))
        if uniq:
            malformed_files(chk, E, FC, list(uniq.values()), n_mal, tmp)
        FC.flush(chk)
        # DAG shapes for a grid of hyperparameters
        for kind in kinds:
            for d in (1, 2, 3, 5):
                for s in sorted({0, 1, d - 1}):
                    if s > d - 1 or s < 0 or (d == 1 and s != 0):
                        continue
                    if kind == "mixture_logistic" and s == 0:
                        continue
                    for noise in (["gaussian-scalar"] if d == 1 else ["gaussian-scalar", "gaussian-diagonal"]):
                        K = 3 if kind == "mixture_logistic" else 0
                        try:
                            specs[(kind, d, s, noise, K, 1)] = real_spec(E, kind, d, s, noise, K, 1)
                        except Exception as e:
                            chk.tag("spec_construction", f"{kind}:d={d},s={s}:{A.err_class(e)}:{str(e)[:50]}")
        side_checks(chk, E, values, specs, names + A.KINDS + ["Logistic", "LINEAR", "univariate_logistic", "my_model", ""])
        try:
            ambient_dtype_probe(chk, E, tmp)
        except core.Infra:
            raise
        except Exception as e:  # noqa
            chk.impl_failure({"kind": "ambient-f64"}, f"file loaded under default dtype float64: unexpected {type(e).__name__}: {str(e)[:120]}")
        probe_findings(chk, E, tmp)
    finally:
        shutil.rmtree(tmp, ignore_errors=True)


def replay(chk: core.Check, payload):
    E = A.env()
    case = payload.get("case") or (payload.get("disagreements") or [{}])[0].get("case")
    if case and case.get("kind") in ("malformed", "stored", "value", "tensor", "n32"):
        replay_codec(chk, E, case)
        return
    if not case or "src" not in case:
        chk.note("replay file has no model case (side check disagreement): re-running the side checks only")
        run(chk)
        return
    tmp = tempfile.mkdtemp(prefix="c12_")
    try:
        FC = FileCases()
        probe_f30(chk, E, tmp)
        req, ans = run_case(chk, E, {k: v for k, v in case.items() if k != "layer"}, tmp, FC)
        compare(chk, [case], [req], [ans])
        FC.flush(chk)
    finally:
        shutil.rmtree(tmp, ignore_errors=True)


def replay_codec(chk, E, case):
    from leaspy.models.utilities import val_to_tensor
    tmp = tempfile.mkdtemp(prefix="c12_")
    try:
        FC = FileCases()
        probe_f30(chk, E, tmp)
        if case["kind"] in ("malformed", "stored"):
            settings = case.get("settings")
            if settings is None:
                settings = json.load(open(core.REPO / "tests/_data/model_parameters" / case["file"]))
            ans, m2 = real_load_answer(E, settings, tmp)
            FC.add(ld_line(E, settings, m2), case, ans, "BaseModel.load (replay)")
            FC.flush(chk)
        else:
            chk.note("tensor / value / rounding case: re-running the codec cases with the same seed")
            codec_tensor_cases(chk, E, 250, 250)
        chk.case(("replay", case["kind"]), nontrivial=True)
    finally:
        shutil.rmtree(tmp, ignore_errors=True)
